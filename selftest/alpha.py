"""alpha-rename function locals (suffix _r) in a copy of the package; semantics preserving"""
import ast, os, sys, shutil
src, dst = sys.argv[1], sys.argv[2]  # <repo root> <scratch copy to create>
if os.path.exists(dst): shutil.rmtree(dst)
shutil.copytree(src, dst, ignore=shutil.ignore_patterns("__pycache__", ".git", "*.egg-info"))
n_ren = 0
for dp, _d, files in os.walk(os.path.join(dst, "cdd")):
    if "/tests" in dp: continue
    for fn in files:
        if not fn.endswith(".py"): continue
        p = os.path.join(dp, fn)
        text = open(p).read()
        tree = ast.parse(text)
        edits = []  # (lineno, col, old, new)
        for f in ast.walk(tree):
            if not isinstance(f, (ast.FunctionDef, ast.AsyncFunctionDef)): continue
            # only outermost functions handle their whole subtree
            params = set()
            nested_params = set()
            declared = set()
            assigned = set()
            for n in ast.walk(f):
                if isinstance(n, (ast.Global, ast.Nonlocal)): declared.update(n.names)
                if isinstance(n, ast.arg):
                    nested_params.add(n.arg)
                if isinstance(n, (ast.FunctionDef, ast.AsyncFunctionDef, ast.ClassDef)) and n is not f:
                    nested_params.add(n.name)
                if isinstance(n, ast.alias): nested_params.add((n.asname or n.name).split(".")[0])
                if isinstance(n, ast.ExceptHandler) and n.name: nested_params.add(n.name)
            for n in f.body:
                for x in ast.walk(n):
                    if isinstance(x, ast.Name) and isinstance(x.ctx, ast.Store): assigned.add(x.id)
            # skip if function is nested in another function (handled by the outer) -> we mark via attribute
            if getattr(f, "_done", False): continue
            for n in ast.walk(f):
                if isinstance(n, (ast.FunctionDef, ast.AsyncFunctionDef)) and n is not f: n._done = True
            if any(isinstance(n, ast.Call) and isinstance(n.func, ast.Name) and n.func.id in ("locals", "vars", "eval", "exec") for n in ast.walk(f)):
                continue
            ren = assigned - nested_params - declared
            for n in ast.walk(f):
                if isinstance(n, ast.Name) and n.id in ren:
                    edits.append((n.lineno, n.col_offset, n.id))
        if not edits: continue
        lines = text.split("\n")
        # apply from the end; col offsets are utf8 byte offsets -> convert
        for ln, col, name in sorted(set(edits), reverse=True):
            line = lines[ln - 1]
            b = line.encode("utf8")
            if b[col:col + len(name.encode())] != name.encode():
                continue
            nb = b[:col] + (name + "_r").encode() + b[col + len(name.encode()):]
            lines[ln - 1] = nb.decode("utf8")
            n_ren += 1
        new = "\n".join(lines)
        try:
            compile(new, p, "exec")
        except SyntaxError as e:
            print("SYNTAX", p, e); continue
        open(p, "w").write(new)
print("renamed occurrences", n_ren)
