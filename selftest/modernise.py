"""
A fifth whole-package, behaviour-preserving rewrite: the small edits a style-conscious reviewer, `pyupgrade` or
`ruff --fix` make everywhere at once.
    modernise.py <repo root> <scratch copy to create>

  A  tuple() / list() / dict()            ->  () / [] / {}
  B  not a == b / not a in b / not a is b ->  a != b / a not in b / a is not b
  C  x in frozenset((c1, c2))             ->  x in {c1, c2}              (constant elements, membership only)
  D  dict(a=1, b=2)                       ->  {"a": 1, "b": 2}
  E  if c: ...; return  else: B           ->  if c: ...; return  \n B     (else after return/raise/continue/break)
  F  deque(map(F, xs), maxlen=0)          ->  for item in xs: F(item)    (statement position, inside a function)
  G  (a if c else b)  as a statement      ->  if c: a  else: b
  H  frozenset((consts)) in a function    ->  private module constant    (elsewhere than membership, rule C)

Only spellings with identical evaluation order and results are produced; the pinned test-suite passes on the
rewritten copy (selftest/run.py --modernise runs it).
"""
import ast
import os
import shutil
import sys

src, dst = sys.argv[1], sys.argv[2]
if os.path.exists(dst):
    shutil.rmtree(dst)
shutil.copytree(src, dst, ignore=shutil.ignore_patterns("__pycache__", ".git", "*.egg-info"))
counts = {}


def hit(k):
    counts[k] = counts.get(k, 0) + 1


def is_const(n):
    return isinstance(n, ast.Constant) and isinstance(n.value, (str, int, float, bool, type(None))) and not isinstance(n.value, bytes)


def const_frozenset(n):
    """elements when n is frozenset((c1, c2, ...)) / frozenset([c1, ...]) over hashable constants"""
    if (
        isinstance(n, ast.Call)
        and isinstance(n.func, ast.Name)
        and n.func.id == "frozenset"
        and len(n.args) == 1
        and not n.keywords
        and isinstance(n.args[0], (ast.Tuple, ast.List))
        and n.args[0].elts
        and all(is_const(e) for e in n.args[0].elts)
    ):
        return n.args[0].elts
    return None


class Expr(ast.NodeTransformer):
    """expression-level rules A B C D"""

    def visit_Call(self, node):
        self.generic_visit(node)
        if isinstance(node.func, ast.Name) and not node.args and not node.keywords and node.func.id in ("tuple", "list", "dict"):
            hit("A empty constructor")
            new = {"tuple": ast.Tuple(elts=[], ctx=ast.Load()), "list": ast.List(elts=[], ctx=ast.Load()), "dict": ast.Dict(keys=[], values=[])}[node.func.id]
            return ast.copy_location(new, node)
        if (
            isinstance(node.func, ast.Name)
            and node.func.id == "dict"
            and not node.args
            and node.keywords
            and all(k.arg is not None for k in node.keywords)
        ):
            hit("D dict(k=v)")
            return ast.copy_location(ast.Dict(keys=[ast.Constant(value=k.arg) for k in node.keywords], values=[k.value for k in node.keywords]), node)
        return node

    def visit_UnaryOp(self, node):
        self.generic_visit(node)
        if isinstance(node.op, ast.Not) and isinstance(node.operand, ast.Compare) and len(node.operand.ops) == 1:
            op = node.operand.ops[0]
            flip = {ast.Eq: ast.NotEq, ast.In: ast.NotIn, ast.Is: ast.IsNot}.get(type(op))
            if flip is not None:
                hit("B not-compare")
                return ast.copy_location(ast.Compare(left=node.operand.left, ops=[flip()], comparators=node.operand.comparators), node)
        return node

    def visit_Compare(self, node):
        self.generic_visit(node)
        if len(node.ops) == 1 and isinstance(node.ops[0], (ast.In, ast.NotIn)):
            elts = const_frozenset(node.comparators[0])
            if elts is not None:
                hit("C membership in frozenset")
                node.comparators = [ast.copy_location(ast.Set(elts=elts), node.comparators[0])]
        return node


def terminal(stmts):
    return bool(stmts) and isinstance(stmts[-1], (ast.Return, ast.Raise, ast.Continue, ast.Break))


def names_in(node):
    return {n.id for n in ast.walk(node) if isinstance(n, ast.Name)} | {a.arg for n in ast.walk(node) if isinstance(n, ast.arguments) for a in n.posonlyargs + n.args + n.kwonlyargs}


class Stmt(ast.NodeTransformer):
    """statement-level rules E F G, applied to every statement list"""

    def __init__(self):
        self.func = []
        self.fresh = 0

    def visit_FunctionDef(self, node):
        self.func.append(node)
        self.generic_visit(node)
        self.func.pop()
        node.body = self.block(node.body)
        return node

    visit_AsyncFunctionDef = visit_FunctionDef

    def generic_visit(self, node):
        super().generic_visit(node)
        for fld in ("body", "orelse", "finalbody"):
            v = getattr(node, fld, None)
            if isinstance(v, list) and v and isinstance(v[0], ast.stmt) and not isinstance(node, (ast.FunctionDef, ast.AsyncFunctionDef)):
                setattr(node, fld, self.block(v))
        return node

    def block(self, stmts):
        out = []
        for s in stmts:
            # E: else after a terminal statement
            if isinstance(s, ast.If) and s.orelse and terminal(s.body):
                hit("E else after return")
                tail = s.orelse
                s.orelse = []
                out.append(s)
                out.extend(self.block(tail))
                continue
            # G: conditional expression as a statement
            if isinstance(s, ast.Expr) and isinstance(s.value, ast.IfExp):
                hit("G conditional expression statement")
                e = s.value
                out.append(
                    ast.copy_location(
                        ast.If(test=e.test, body=[ast.copy_location(ast.Expr(value=e.body), s)], orelse=[ast.copy_location(ast.Expr(value=e.orelse), s)]),
                        s,
                    )
                )
                continue
            # F: deque(map(F, xs), maxlen=0)
            loop = self.drain(s)
            if loop is not None:
                out.append(loop)
                continue
            out.append(s)
        return out

    def drain(self, s):
        if not self.func or not (isinstance(s, ast.Expr) and isinstance(s.value, ast.Call)):
            return None
        c = s.value
        if not (
            isinstance(c.func, ast.Name)
            and c.func.id == "deque"
            and len(c.args) == 1
            and len(c.keywords) == 1
            and c.keywords[0].arg == "maxlen"
            and isinstance(c.keywords[0].value, ast.Constant)
            and c.keywords[0].value.value == 0
        ):
            return None
        m = c.args[0]
        if not (isinstance(m, ast.Call) and isinstance(m.func, ast.Name) and m.func.id == "map" and len(m.args) == 2 and not m.keywords):
            return None
        f, xs = m.args
        if isinstance(xs, ast.Starred):
            return None
        fn = self.func[-1]
        used = names_in(fn)
        if isinstance(f, ast.Lambda):
            a = f.args
            if len(a.args) != 1 or a.defaults or a.kwonlyargs or a.vararg or a.kwarg or a.posonlyargs:
                return None
            x = a.args[0].arg
            # the parameter becomes a local of the enclosing function: it must not be used anywhere else in it, and
            # the body must not create closures over it
            count = sum(1 for n in ast.walk(fn) if (isinstance(n, ast.Name) and n.id == x) or (isinstance(n, ast.arg) and n.arg == x))
            inside = sum(1 for n in ast.walk(f) if (isinstance(n, ast.Name) and n.id == x) or (isinstance(n, ast.arg) and n.arg == x))
            if count != inside:
                return None
            if any(isinstance(n, (ast.Lambda, ast.GeneratorExp, ast.ListComp, ast.SetComp, ast.DictComp, ast.NamedExpr)) for n in ast.walk(f.body)):
                return None
            hit("F drained map -> for loop")
            return ast.copy_location(
                ast.For(target=ast.Name(id=x, ctx=ast.Store()), iter=xs, body=[ast.copy_location(ast.Expr(value=f.body), s)], orelse=[]), s
            )
        if isinstance(f, (ast.Name, ast.Attribute)) and all(isinstance(n, (ast.Name, ast.Attribute, ast.Load)) for n in ast.walk(f)):
            self.fresh += 1
            x = "item"
            while x in used:
                x += "_"
            hit("F drained map -> for loop")
            return ast.copy_location(
                ast.For(
                    target=ast.Name(id=x, ctx=ast.Store()),
                    iter=xs,
                    body=[ast.copy_location(ast.Expr(value=ast.Call(func=f, args=[ast.Name(id=x, ctx=ast.Load())], keywords=[])), s)],
                    orelse=[],
                ),
                s,
            )
        return None


class Hoist(ast.NodeTransformer):
    """rule H: constant frozensets inside functions become private module constants"""

    def __init__(self, taken):
        self.depth = 0
        self.taken = taken
        self.new = []

    def visit_FunctionDef(self, node):
        # defaults and decorators are evaluated at definition time: leave them
        self.depth += 1
        node.body = [self.visit(b) for b in node.body]
        self.depth -= 1
        return node

    visit_AsyncFunctionDef = visit_FunctionDef

    def visit_Lambda(self, node):
        return node

    def visit_Call(self, node):
        self.generic_visit(node)
        if self.depth and const_frozenset(node) is not None:
            base = "_" + "_".join(str(e.value).upper() for e in const_frozenset(node)[:2] if isinstance(e.value, str) and str(e.value).isidentifier())
            name = (base if len(base) > 1 else "_CONSTANTS") + "_SET"
            while name in self.taken:
                name += "_"
            self.taken.add(name)
            self.new.append(ast.Assign(targets=[ast.Name(id=name, ctx=ast.Store())], value=node, lineno=1))
            hit("H frozenset hoisted")
            return ast.copy_location(ast.Name(id=name, ctx=ast.Load()), node)
        return node


for dp, _d, files in os.walk(os.path.join(dst, "cdd")):
    if "/tests" in dp:
        continue
    for fn_ in files:
        if not fn_.endswith(".py"):
            continue
        p = os.path.join(dp, fn_)
        text = open(p).read()
        tree = ast.parse(text)
        before = dict(counts)
        tree = Expr().visit(tree)
        tree = Stmt().visit(tree)
        taken = {n.id for n in ast.walk(tree) if isinstance(n, ast.Name)}
        h = Hoist(taken)
        tree = h.visit(tree)
        if h.new:
            # after the imports and the module docstring, before the first definition that may use them
            i = 0
            while i < len(tree.body) and (
                isinstance(tree.body[i], (ast.Import, ast.ImportFrom))
                or (isinstance(tree.body[i], ast.Expr) and isinstance(tree.body[i].value, ast.Constant))
                or (isinstance(tree.body[i], ast.If))
                or (isinstance(tree.body[i], ast.Try))
            ):
                i += 1
            tree.body[i:i] = h.new
        if counts == before:
            continue
        ast.fix_missing_locations(tree)
        new = ast.unparse(tree) + "\n"
        try:
            compile(new, p, "exec")
        except SyntaxError as e:
            print("SYNTAX", p, e)
            counts = before
            continue
        open(p, "w").write(new)
print("modernised:", ", ".join("{} x{}".format(k, v) for k, v in sorted(counts.items())))
