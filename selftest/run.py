#!/venv/bin/python
"""
Self-test of the checkers, both ways.

  selftest/run.py [--props C09,C18] [--jobs 16]

For every mutant in selftest/mutants.py: copy <repo>/cdd (+ requirements.txt, setup.py) to a temp dir,
apply the textual edit, run the property's check with --root <tmp>, and require exit 1 AND that
the report mentions the expected rule (and, when given, a fragment naming the mutated construct).
The copy is removed straight afterwards. A mutant whose `old` text is no longer present is
reported STALE (the catalogue needs updating), not as a miss.
Also runs every check on the unchanged tree and requires exit 0.
Exit 0 when everything is as expected, 2 otherwise (a broken checker is an analysis error).
"""

import argparse
import concurrent.futures
import os
import shutil
import subprocess
import sys
import tempfile

HERE = os.path.dirname(os.path.abspath(__file__))
VERIF = os.path.dirname(HERE)
sys.path.insert(0, HERE)


def run_one(args):
    """apply one mutant and run its check"""
    mut, repo = args
    tmp = tempfile.mkdtemp(prefix="cddmut_")
    try:
        shutil.copytree(os.path.join(repo, "cdd"), os.path.join(tmp, "cdd"), ignore=shutil.ignore_patterns("__pycache__"))
        for extra in ("requirements.txt", "setup.py"):
            if os.path.isfile(os.path.join(repo, extra)):
                shutil.copy(os.path.join(repo, extra), os.path.join(tmp, extra))
        if mut.get("base"):
            # the mutant is applied on top of a packaged behaviour-preserving refactoring (neutral/<id>/patch.diff)
            b = subprocess.run(["git", "apply", "--unsafe-paths", os.path.join(VERIF, "neutral", mut["base"], "patch.diff")], cwd=tmp, capture_output=True, text=True)
            if b.returncode != 0:
                return mut["id"], "STALE", "base refactoring {} does not apply: {}".format(mut["base"], b.stderr[-120:])
        for edit in mut["edits"]:
            p = os.path.join(tmp, edit["file"])
            with open(p) as f:
                src = f.read()
            if src.count(edit["old"]) < 1:
                return mut["id"], "STALE", "old text not found in {}".format(edit["file"])
            src = src.replace(edit["old"], edit["new"], edit.get("count", 1))
            with open(p, "wt") as f:
                f.write(src)
            try:
                compile(src, p, "exec")
            except SyntaxError as e:
                return mut["id"], "BROKEN-MUTANT", "does not compile: {}".format(e)
        evd = os.path.join(tmp, "ev")
        os.makedirs(evd)
        r = subprocess.run(
            [os.path.join(VERIF, "check"), mut["prop"], "--root", tmp, "--evidence-dir", evd, "--tier", "quick"],
            capture_output=True,
            text=True,
            timeout=600,
        )
        out = r.stdout + r.stderr
        if mut.get("expect") == "ok":
            # a behaviour-preserving rewrite: the check must stay silent
            if r.returncode == 0:
                return mut["id"], "CAUGHT", "exit 0 as expected (equivalent rewrite accepted)"
            return mut["id"], "FALSE-ALARM", "exit {} on a behaviour-preserving rewrite: {}".format(r.returncode, out[-400:])
        if r.returncode == 2 and mut.get("expect") == "analysis-error":
            return mut["id"], "CAUGHT", "exit 2 as expected"
        if r.returncode != 1:
            return mut["id"], "MISSED", "exit {} (wanted 1): {}".format(r.returncode, out[-300:])
        lines = [l for l in out.splitlines() if l.startswith("  ")]
        hit = [l for l in lines if mut["rule"] in l and all(x in l for x in mut.get("mention", []))]
        if not hit:
            return mut["id"], "WRONG-REPORT", "exit 1 but no line mentions {} {}: {}".format(mut["rule"], mut.get("mention", []), "\n".join(lines)[:600])
        return mut["id"], "CAUGHT", hit[0].strip()[:200]
    finally:
        shutil.rmtree(tmp, ignore_errors=True)


def main():
    """entry"""
    ap = argparse.ArgumentParser()
    ap.add_argument("--props", default="")
    ap.add_argument("--jobs", type=int, default=16)
    ap.add_argument("--repo", default="/repo")
    ap.add_argument("--skip-clean", action="store_true")
    ap.add_argument("-v", action="store_true")
    ap.add_argument(
        "--reformat",
        action="store_true",
        help="also run every check on a copy whose every file went through ast.unparse (no comments, other layout): "
        "verdicts and known-finding keys must not depend on positions or formatting",
    )
    ap.add_argument(
        "--alpha",
        action="store_true",
        help="also run every check on a copy in which every function-local variable is renamed (selftest/alpha.py; the "
        "suite passes on that copy): recognisers and known-finding keys must not depend on what locals are called",
    )
    ap.add_argument(
        "--genexp",
        action="store_true",
        help="also run every check on a copy in which map/filter over a lambda is rewritten as a generator expression "
        "(selftest/genexp.py; the suite passes on that copy)",
    )
    ap.add_argument(
        "--fstring",
        action="store_true",
        help="also run every check on a copy in which every constant-template .format() call is rewritten as an f-string "
        "(selftest/fstring.py; the suite passes on that copy): template recognisers must not depend on the spelling",
    )
    ap.add_argument(
        "--modernise",
        action="store_true",
        help="also run every check on a copy that went through a style sweep (selftest/modernise.py: tuple() -> (), "
        "not a == b -> a != b, membership in frozenset((..)) -> set literal, else after return removed, drained maps "
        "as loops, conditional-expression statements as if/else, constant frozensets hoisted; the suite passes on it)",
    )
    ap.add_argument(
        "--kwargs",
        action="store_true",
        help="also run every check on a copy in which positional arguments of calls to the package's own functions are "
        "passed by keyword (selftest/kwargs.py; the suite passes on it): rules must bind arguments by position and by name",
    )
    a = ap.parse_args()
    from mutants import MUTANTS

    props = [p for p in a.props.split(",") if p]
    muts = [m for m in MUTANTS if not props or m["prop"] in props]
    bad = 0
    if not a.skip_clean:
        for p in sorted({m["prop"] for m in muts}):
            evd = tempfile.mkdtemp(prefix="cddev_")
            r = subprocess.run([os.path.join(VERIF, "check"), p, "--root", a.repo, "--evidence-dir", evd, "--quiet"], capture_output=True, text=True)
            shutil.rmtree(evd, ignore_errors=True)
            if r.returncode != 0:
                print("CLEAN-TREE {} exit {} (wanted 0)".format(p, r.returncode))
                bad += 1
    if a.reformat:
        import ast

        tmp = tempfile.mkdtemp(prefix="cddfmt_")
        try:
            shutil.copytree(os.path.join(a.repo, "cdd"), os.path.join(tmp, "cdd"), ignore=shutil.ignore_patterns("__pycache__"))
            for extra in ("requirements.txt", "setup.py"):
                if os.path.isfile(os.path.join(a.repo, extra)):
                    shutil.copy(os.path.join(a.repo, extra), os.path.join(tmp, extra))
            for dirpath, _d, files in os.walk(os.path.join(tmp, "cdd")):
                for fn in files:
                    if fn.endswith(".py"):
                        p = os.path.join(dirpath, fn)
                        with open(p) as f:
                            src = f.read()
                        with open(p, "wt") as f:
                            f.write(ast.unparse(ast.parse(src)) + "\n")
            os.makedirs(os.path.join(tmp, "ev"))
            for p in sorted({m["prop"] for m in muts}):
                r = subprocess.run([os.path.join(VERIF, "check"), p, "--root", tmp, "--evidence-dir", os.path.join(tmp, "ev"), "--quiet"], capture_output=True, text=True)
                if r.returncode != 0:
                    print("REFORMATTED-TREE {} exit {} (wanted 0): {}".format(p, r.returncode, (r.stdout + r.stderr)[-300:]))
                    bad += 1
        finally:
            shutil.rmtree(tmp, ignore_errors=True)
    if a.alpha:
        tmp = tempfile.mkdtemp(prefix="cddalpha_")
        try:
            r = subprocess.run([sys.executable, os.path.join(HERE, "alpha.py"), a.repo, os.path.join(tmp, "r")], capture_output=True, text=True)
            if r.returncode != 0 or "SYNTAX" in r.stdout:
                print("ALPHA-RENAME failed: {}".format((r.stdout + r.stderr)[-300:]))
                bad += 1
            else:
                os.makedirs(os.path.join(tmp, "ev"))
                for p in sorted({m["prop"] for m in muts}):
                    r = subprocess.run([os.path.join(VERIF, "check"), p, "--root", os.path.join(tmp, "r"), "--evidence-dir", os.path.join(tmp, "ev"), "--quiet"], capture_output=True, text=True)
                    if r.returncode != 0:
                        print("ALPHA-RENAMED-TREE {} exit {} (wanted 0): {}".format(p, r.returncode, "\n".join(l for l in (r.stdout + r.stderr).splitlines() if not l.startswith("KNOWN"))[-400:]))
                        bad += 1
        finally:
            shutil.rmtree(tmp, ignore_errors=True)
    if a.genexp:
        tmp = tempfile.mkdtemp(prefix="cddgen_")
        try:
            r = subprocess.run([sys.executable, os.path.join(HERE, "genexp.py"), a.repo, os.path.join(tmp, "r")], capture_output=True, text=True)
            if r.returncode != 0 or "SYNTAX" in r.stdout:
                print("GENEXP-REWRITE failed: {}".format((r.stdout + r.stderr)[-300:]))
                bad += 1
            else:
                os.makedirs(os.path.join(tmp, "ev"))
                for p in sorted({m["prop"] for m in muts}):
                    r = subprocess.run([os.path.join(VERIF, "check"), p, "--root", os.path.join(tmp, "r"), "--evidence-dir", os.path.join(tmp, "ev"), "--quiet"], capture_output=True, text=True)
                    if r.returncode != 0:
                        print("GENEXP-TREE {} exit {} (wanted 0): {}".format(p, r.returncode, "\n".join(l for l in (r.stdout + r.stderr).splitlines() if not l.startswith("KNOWN"))[-400:]))
                        bad += 1
        finally:
            shutil.rmtree(tmp, ignore_errors=True)
    if a.fstring:
        tmp = tempfile.mkdtemp(prefix="cddfstr_")
        try:
            r = subprocess.run([sys.executable, os.path.join(HERE, "fstring.py"), a.repo, os.path.join(tmp, "r")], capture_output=True, text=True)
            if r.returncode != 0 or "SYNTAX" in r.stdout:
                print("FSTRING-REWRITE failed: {}".format((r.stdout + r.stderr)[-300:]))
                bad += 1
            else:
                os.makedirs(os.path.join(tmp, "ev"))
                for p in sorted({m["prop"] for m in muts}):
                    r = subprocess.run([os.path.join(VERIF, "check"), p, "--root", os.path.join(tmp, "r"), "--evidence-dir", os.path.join(tmp, "ev"), "--quiet"], capture_output=True, text=True)
                    if r.returncode != 0:
                        print("FSTRING-TREE {} exit {} (wanted 0): {}".format(p, r.returncode, "\n".join(l for l in (r.stdout + r.stderr).splitlines() if not l.startswith("KNOWN"))[-400:]))
                        bad += 1
        finally:
            shutil.rmtree(tmp, ignore_errors=True)
    if a.modernise:
        tmp = tempfile.mkdtemp(prefix="cddmod_")
        try:
            r = subprocess.run([sys.executable, os.path.join(HERE, "modernise.py"), a.repo, os.path.join(tmp, "r")], capture_output=True, text=True)
            if r.returncode != 0 or "SYNTAX" in r.stdout:
                print("MODERNISE-REWRITE failed: {}".format((r.stdout + r.stderr)[-300:]))
                bad += 1
            else:
                os.makedirs(os.path.join(tmp, "ev"))
                for p in sorted({m["prop"] for m in muts}):
                    r = subprocess.run([os.path.join(VERIF, "check"), p, "--root", os.path.join(tmp, "r"), "--evidence-dir", os.path.join(tmp, "ev"), "--quiet"], capture_output=True, text=True)
                    if r.returncode != 0:
                        print("MODERNISED-TREE {} exit {} (wanted 0): {}".format(p, r.returncode, "\n".join(l for l in (r.stdout + r.stderr).splitlines() if not l.startswith("KNOWN"))[-400:]))
                        bad += 1
        finally:
            shutil.rmtree(tmp, ignore_errors=True)
    if a.kwargs:
        tmp = tempfile.mkdtemp(prefix="cddkw_")
        try:
            r = subprocess.run([sys.executable, os.path.join(HERE, "kwargs.py"), a.repo, os.path.join(tmp, "r")], capture_output=True, text=True)
            if r.returncode != 0 or "SYNTAX" in r.stdout:
                print("KWARGS-REWRITE failed: {}".format((r.stdout + r.stderr)[-300:]))
                bad += 1
            else:
                os.makedirs(os.path.join(tmp, "ev"))
                for p in sorted({m["prop"] for m in muts}):
                    r = subprocess.run([os.path.join(VERIF, "check"), p, "--root", os.path.join(tmp, "r"), "--evidence-dir", os.path.join(tmp, "ev"), "--quiet"], capture_output=True, text=True)
                    if r.returncode != 0:
                        print("KWARGS-TREE {} exit {} (wanted 0): {}".format(p, r.returncode, "\n".join(l for l in (r.stdout + r.stderr).splitlines() if not l.startswith("KNOWN"))[-400:]))
                        bad += 1
        finally:
            shutil.rmtree(tmp, ignore_errors=True)
    with concurrent.futures.ProcessPoolExecutor(max_workers=a.jobs) as ex:
        results = list(ex.map(run_one, [(m, a.repo) for m in muts]))
    tally = {}
    for mid, status, detail in results:
        tally[status] = tally.get(status, 0) + 1
        if status != "CAUGHT" or a.v:
            print("{:14s} {:40s} {}".format(status, mid, detail))
        if status != "CAUGHT":
            bad += 1
    print("selftest: {} mutants: {}".format(len(results), tally))
    return 2 if bad else 0


if __name__ == "__main__":
    sys.exit(main())
