"""
Rewrite `map(lambda x: E, it)` as the generator `(E for x in it)` and `filter(lambda x: C, it)` as
`(x for x in it if C)` throughout the non-test package (a fourth whole-package, behaviour-preserving rewrite):
    genexp.py <repo root> <scratch copy to create>
Both are lazy, single-pass iterators evaluated in the same order; only single-parameter lambdas without
defaults over exactly one iterable are converted, and not when the call is starred into another call's
positional arguments in a way that would need extra parentheses handling by hand (ast.unparse adds them).
"""
import ast
import os
import shutil
import sys

src, dst = sys.argv[1], sys.argv[2]
if os.path.exists(dst):
    shutil.rmtree(dst)
shutil.copytree(src, dst, ignore=shutil.ignore_patterns("__pycache__", ".git", "*.egg-info"))
n_conv = 0


class Conv(ast.NodeTransformer):
    def visit_Call(self, node):
        global n_conv
        self.generic_visit(node)
        if not (isinstance(node.func, ast.Name) and node.func.id in ("map", "filter") and len(node.args) == 2 and not node.keywords):
            return node
        lam, it = node.args
        if not (isinstance(lam, ast.Lambda) and len(lam.args.args) == 1 and not lam.args.defaults and not lam.args.kwonlyargs and lam.args.vararg is None and lam.args.kwarg is None and not lam.args.posonlyargs):
            return node
        if isinstance(it, ast.Starred):
            return node
        x = lam.args.args[0].arg
        # the iterable is evaluated in the enclosing scope in both spellings; the body in a nested scope in both.
        # A name the body assigns with := would leak differently: skip those.
        if any(isinstance(n, ast.NamedExpr) for n in ast.walk(lam.body)):
            return node
        # late binding: a lambda parameter is bound per call, a generator's loop variable is shared by everything the
        # element expression creates lazily. If the body builds a nested lazy scope (lambda / generator) that mentions
        # the parameter, the two spellings differ once the outer iterator runs ahead of the inner one: leave it alone.
        for inner in ast.walk(lam.body):
            if isinstance(inner, (ast.Lambda, ast.GeneratorExp)) and any(isinstance(n, ast.Name) and n.id == x for n in ast.walk(inner)):
                return node
            if isinstance(inner, ast.Call) and isinstance(inner.func, ast.Name) and inner.func.id in ("map", "filter", "partial", "rpartial"):
                if any(isinstance(n, ast.Name) and n.id == x for a in inner.args[:1] for n in ast.walk(a)):
                    return node
        # a generator expression cannot contain `yield`/`await` differences here; lambdas cannot either
        tgt = ast.Name(id=x, ctx=ast.Store())
        if node.func.id == "map":
            gen = ast.GeneratorExp(elt=lam.body, generators=[ast.comprehension(target=tgt, iter=it, ifs=[], is_async=0)])
        else:
            gen = ast.GeneratorExp(elt=ast.Name(id=x, ctx=ast.Load()), generators=[ast.comprehension(target=tgt, iter=it, ifs=[lam.body], is_async=0)])
        n_conv += 1
        return ast.copy_location(gen, node)


for dp, _d, files in os.walk(os.path.join(dst, "cdd")):
    if "/tests" in dp:
        continue
    for fn in files:
        if not fn.endswith(".py"):
            continue
        p = os.path.join(dp, fn)
        text = open(p).read()
        tree = ast.parse(text)
        before = n_conv
        tree = Conv().visit(tree)
        if n_conv == before:
            continue
        ast.fix_missing_locations(tree)
        new = ast.unparse(tree) + "\n"
        try:
            compile(new, p, "exec")
        except SyntaxError as e:
            print("SYNTAX", p, e)
            n_conv = before
            continue
        open(p, "w").write(new)
print("map/filter lambdas converted to generator expressions", n_conv)
