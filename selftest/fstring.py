"""
Rewrite every `"<constant template>".format(...)` of the non-test package into the equivalent f-string
(a third whole-package, behaviour-preserving rewrite next to `ast.unparse` reformatting and alpha-renaming):
    fstring.py <repo root> <scratch copy to create>
Only calls whose template uses plain `{}` / `{0}` / `{name}` fields (optional !r/!s/!a conversion and a literal
format spec) and whose arguments are all used are converted; everything else is left alone. The result goes
through ast.unparse (Python >= 3.12 prints nested quotes inside f-strings correctly).
"""
import ast
import os
import shutil
import string
import sys

src, dst = sys.argv[1], sys.argv[2]
if os.path.exists(dst):
    shutil.rmtree(dst)
shutil.copytree(src, dst, ignore=shutil.ignore_patterns("__pycache__", ".git", "*.egg-info"))
n_conv = 0


class Conv(ast.NodeTransformer):
    def visit_Call(self, node):
        global n_conv
        self.generic_visit(node)
        f = node.func
        if not (isinstance(f, ast.Attribute) and f.attr == "format" and isinstance(f.value, ast.Constant) and isinstance(f.value.value, str)):
            return node
        if any(isinstance(a, ast.Starred) for a in node.args) or any(k.arg is None for k in node.keywords):
            return node
        kw = {k.arg: k.value for k in node.keywords}
        try:
            parts = list(string.Formatter().parse(f.value.value))
        except ValueError:
            return node
        values, auto, used_pos, used_kw = [], 0, set(), set()
        for lit, field, spec, conv in parts:
            if lit:
                values.append(ast.Constant(value=lit))
            if field is None:
                continue
            if spec and ("{" in spec or "}" in spec):
                return node
            if field == "":
                idx = auto
                auto += 1
                if idx >= len(node.args):
                    return node
                expr = node.args[idx]
                used_pos.add(idx)
            elif field.isdigit():
                idx = int(field)
                if idx >= len(node.args):
                    return node
                expr = node.args[idx]
                used_pos.add(idx)
            elif field.isidentifier():
                if field not in kw:
                    return node
                expr = kw[field]
                used_kw.add(field)
            else:
                return node
            # an expression evaluated twice / in a different order could change behaviour: only names, attributes,
            # subscripts, constants and calls that appear ONCE are moved
            values.append(
                ast.FormattedValue(
                    value=expr,
                    conversion={None: -1, "r": 114, "s": 115, "a": 97}[conv],
                    format_spec=ast.JoinedStr(values=[ast.Constant(value=spec)]) if spec else None,
                )
            )
        if used_pos != set(range(len(node.args))) or used_kw != set(kw):
            return node
        # every argument must be used exactly once (else evaluation count changes)
        fields = [p[1] for p in parts if p[1] is not None]
        if len(fields) != len(node.args) + len(kw):
            return node
        # evaluation order: .format evaluates positional args then keywords in call order; the f-string evaluates in
        # template order. Keep only conversions where both orders coincide or all arguments are side-effect free names.
        def pure(e):
            return all(isinstance(x, (ast.Name, ast.Attribute, ast.Constant, ast.Load, ast.Subscript, ast.Tuple, ast.Index, ast.expr_context, ast.Slice)) for x in ast.walk(e))
        call_order = list(node.args) + [k.value for k in node.keywords]
        tmpl_order = [v.value for v in values if isinstance(v, ast.FormattedValue)]
        if [id(x) for x in call_order] != [id(x) for x in tmpl_order] and not all(pure(e) for e in call_order):
            return node
        n_conv += 1
        return ast.copy_location(ast.JoinedStr(values=values), node)


for dp, _d, files in os.walk(os.path.join(dst, "cdd")):
    if "/tests" in dp:
        continue
    for fn in files:
        if not fn.endswith(".py"):
            continue
        p = os.path.join(dp, fn)
        text = open(p).read()
        tree = ast.parse(text)
        before = n_conv
        tree = Conv().visit(tree)
        if n_conv == before:
            continue
        ast.fix_missing_locations(tree)
        new = ast.unparse(tree) + "\n"
        try:
            compile(new, p, "exec")
        except SyntaxError as e:
            print("SYNTAX", p, e)
            n_conv = before
            continue
        open(p, "w").write(new)
print("format calls converted to f-strings", n_conv)
