"""
A sixth whole-package, behaviour-preserving rewrite: positional arguments of calls to the package's own top-level
functions are passed by keyword ("explicit is better than implicit"), e.g. `get_value(node)` -> `get_value(node=node)`.
    kwargs.py <repo root> <scratch copy to create>

A call is rewritten only when its callee is certain: a bare name defined at the top level of the same module or
imported by `from cdd.x import name` (no alias), or a dotted `cdd.x.y.name` path whose module defines `name` at its
top level; the name is not rebound in the enclosing function; the function is undecorated, has no positional-only
parameters and no *args; the call has no starred argument. Arguments are evaluated in the same order (positional
arguments left to right, then keywords — all positionals become keywords in place). Rules that bind a call's
arguments to the callee's parameters must do so by position and by keyword alike.
"""
import ast
import os
import shutil
import sys

src, dst = sys.argv[1], sys.argv[2]
if os.path.exists(dst):
    shutil.rmtree(dst)
shutil.copytree(src, dst, ignore=shutil.ignore_patterns("__pycache__", ".git", "*.egg-info"))

mods = {}
for dp, _d, files in os.walk(os.path.join(dst, "cdd")):
    if "/tests" in dp:
        continue
    for fn_ in files:
        if fn_.endswith(".py"):
            p = os.path.join(dp, fn_)
            rel = os.path.relpath(p, dst)[:-3].replace(os.sep, ".")
            if rel.endswith(".__init__"):
                rel = rel[: -len(".__init__")]
            mods[rel] = (p, ast.parse(open(p).read()))


# two functions the pinned tests replace (unittest.mock.patch) by lambdas with other parameter names: a keyword call
# is the same call for the real function but not for those stand-ins
MOCKED_POSITIONALLY = {"find_module_filepath", "_handle_union_of_length_2"}


def eligible(fd):
    a = fd.args
    return not fd.decorator_list and not a.posonlyargs and a.vararg is None and isinstance(fd, ast.FunctionDef) and fd.name not in MOCKED_POSITIONALLY


defs = {}
for name, (p, tree) in mods.items():
    for s in tree.body:
        if isinstance(s, ast.FunctionDef) and eligible(s):
            defs[(name, s.name)] = s
    # a name defined twice at top level (if/else variants) is not certain
    seen = {}
    for s in ast.walk(tree):
        if isinstance(s, (ast.FunctionDef, ast.AsyncFunctionDef, ast.ClassDef)):
            seen[s.name] = seen.get(s.name, 0) + 1
    for (m, f) in list(defs):
        if m == name and seen.get(f, 0) != 1:
            del defs[(m, f)]

n_conv = 0


def chain(n):
    out = []
    while isinstance(n, ast.Attribute):
        out.append(n.attr)
        n = n.value
    if isinstance(n, ast.Name):
        out.append(n.id)
        return list(reversed(out))
    return None


class Conv(ast.NodeTransformer):
    def __init__(self, modname, tree):
        self.modname = modname
        self.bound = {}
        stores = {}
        for s in ast.walk(tree):
            if isinstance(s, ast.Name) and isinstance(s.ctx, ast.Store):
                stores[s.id] = stores.get(s.id, 0) + 1
            elif isinstance(s, ast.arg):
                stores[s.arg] = stores.get(s.arg, 0) + 1
        for s in tree.body:
            if isinstance(s, ast.FunctionDef) and (modname, s.name) in defs:
                self.bound[s.name] = (modname, s.name)
            elif isinstance(s, ast.ImportFrom) and s.level == 0 and s.module:
                for al in s.names:
                    if al.asname is None and (s.module, al.name) in defs:
                        self.bound[al.name] = (s.module, al.name)
        # any other binding of the same name anywhere in the module (parameter, assignment, second import) -> not certain
        imports = {}
        for s in ast.walk(tree):
            if isinstance(s, (ast.Import, ast.ImportFrom)):
                for al in s.names:
                    nm = (al.asname or al.name).split(".")[0]
                    imports[nm] = imports.get(nm, 0) + 1
        for nm in list(self.bound):
            if stores.get(nm) or imports.get(nm, 0) > 1:
                del self.bound[nm]
        self.shadow_cdd = bool(stores.get("cdd"))

    def target(self, f):
        if isinstance(f, ast.Name):
            return self.bound.get(f.id)
        ch = chain(f)
        if ch and ch[0] == "cdd" and not self.shadow_cdd and len(ch) >= 3:
            key = (".".join(ch[:-1]), ch[-1])
            if key in defs:
                return key
        return None

    def visit_Call(self, node):
        global n_conv
        self.generic_visit(node)
        key = self.target(node.func)
        if key is None or not node.args or any(isinstance(a, ast.Starred) for a in node.args) or any(k.arg is None for k in node.keywords):
            return node
        fd = defs[key]
        params = [a.arg for a in fd.args.args]
        if len(node.args) > len(params):
            return node
        names = params[: len(node.args)]
        if set(names) & {k.arg for k in node.keywords}:
            return node
        node.keywords = [ast.keyword(arg=nm, value=v) for nm, v in zip(names, node.args)] + node.keywords
        node.args = []
        n_conv += 1
        return node


for name, (p, tree) in sorted(mods.items()):
    before = n_conv
    tree = Conv(name, tree).visit(tree)
    if n_conv == before:
        continue
    ast.fix_missing_locations(tree)
    new = ast.unparse(tree) + "\n"
    try:
        compile(new, p, "exec")
    except SyntaxError as e:
        print("SYNTAX", p, e)
        n_conv = before
        continue
    open(p, "w").write(new)
print("calls with positional arguments turned into keyword calls", n_conv)
