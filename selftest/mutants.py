"""
Mutant catalogue: behaviour-breaking edits that keep the package importable (and, by construction,
touch paths the 352 baseline tests do not pin). Each entry:
  id, prop, rule (substring that must appear in the report line), mention (fragments naming the
  construct), edits [{file, old, new}]
"""

M = []


def mut(mid, prop, rule, file, old, new, mention=(), expect=None):
    """register a single-edit mutant"""
    M.append(
        {
            "id": mid,
            "prop": prop,
            "rule": rule,
            "mention": list(mention),
            "edits": [{"file": file, "old": old, "new": new}],
            "expect": expect,
        }
    )


def mut2(mid, prop, rule, edits, mention=(), expect=None, base=None):
    """register a multi-edit mutant (optionally on top of a packaged behaviour-preserving refactoring)"""
    M.append({"id": mid, "prop": prop, "rule": rule, "mention": list(mention), "edits": edits, "expect": expect, "base": base})


CST = "cdd/shared/cst_utils.py"
# ------------------------------------------------------------------------------ C09
mut(
    "c09-comment-arm-no-clear",
    "C09",
    "C09.conserve",
    CST,
    """        if is_comment:
            scanned.append(statement)
            stack.clear()
""",
    """        if is_comment:
            scanned.append(statement)
""",
)
mut(
    "c09-no-final-flush-in-scan",
    "C09",
    "C09.conserve.O4",
    CST,
    """            if expression:
                add_and_clear(expression_str, expression, scanned, stack)
""",
    """            if expression:
                pass
""",
)
mut(
    "c09-no-residual-flush",
    "C09",
    "C09.conserve.O4",
    CST,
    """    if stack:
        scanned.append("".join(stack))
    return scanned
""",
    """    return scanned
""",
)
mut(
    "c09-emit-stripped",
    "C09",
    "C09.conserve.O5",
    CST,
    """        else:
            scanned.append(statement)
            stack.clear()
""",
    """        else:
            scanned.append(statement_stripped)
            stack.clear()
""",
)
mut(
    "c09-conditional-push",
    "C09",
    "C09.conserve.O1",
    CST,
    """            cst_scan(scanned, stack)
        stack.append(ch)
""",
    """            cst_scan(scanned, stack)
        if ch != "\\r":
            stack.append(ch)
""",
)
mut(
    "c09-helper-no-stack-clear",
    "C09",
    "C09.conserve",
    CST,
    """                expr.clear()
                the_stack.clear()
""",
    """                expr.clear()
""",
)
mut(
    "c09-value-rstrip",
    "C09",
    "C09.lines",
    CST,
    """        value=statement,
""",
    """        value=statement.rstrip(" "),
""",
)
mut(
    "c09-acc-splitlines",
    "C09",
    "C09.lines",
    CST,
    """    state["acc"] += statement.count("\\n")""",
    """    state["acc"] += len(statement.splitlines()) - 1""",
)
mut(
    "c09-parser-skips-empty",
    "C09",
    "C09.lines",
    CST,
    """deque(map(partial(cst_parse_one_node, state=state), scanned), maxlen=0)""",
    """deque(map(partial(cst_parse_one_node, state=state), filter(None, scanned)), maxlen=0)""",
)
mut(
    "c09-drain-skips-cr",
    "C09",
    "C09.conserve.O1",
    CST,
    """            for idx, ch in enumerate(statement):
                expression.append(ch)
""",
    """            for idx, ch in enumerate(statement):
                if ch == "\\x0c":
                    continue
                expression.append(ch)
""",
)

# ------------------------------------------------------------------------------ C18
mut(
    "c18-from-import-in-parser-cycle",
    "C18",
    "C18.import.single",
    "cdd/shared/docstring_parsers.py",
    "import cdd.shared.parse.utils.parser_utils\n",
    "import cdd.shared.parse.utils.parser_utils\nfrom cdd.shared.parse.utils.parser_utils import merge_present_params\n",
    mention=["merge_present_params"],
)
mut(
    "c18-from-import-class-parser-in-function-parse",
    "C18",
    "C18.import",
    "cdd/function/parse.py",
    "import cdd.docstring.parse\n",
    "import cdd.docstring.parse\nfrom cdd.class_.parse import class_ as _class_parser\n",
)
mut(
    "c18-module-level-dotted-use-in-cycle",
    "C18",
    "C18.import",
    "cdd/shared/parse/utils/parser_utils.py",
    'lstrip_typings = partial(lstrip_namespace, namespaces=("typings.", "_extensions."))\n',
    'lstrip_typings = partial(lstrip_namespace, namespaces=("typings.", "_extensions."))\n_default_parser = cdd.class_.parse.class_\n',
)
mut(
    "c18-reintroduce-openapi-import",
    "C18",
    "C18.import.single",
    "cdd/sqlalchemy/utils/shared_utils.py",
    "import cdd.shared.ast_utils\n",
    "import cdd.compound.openapi.utils.emit_utils\nimport cdd.shared.ast_utils\n",
)
mut(
    "c18-undeclared-third-party",
    "C18",
    "C18.ext",
    "cdd/shared/pkg_utils.py",
    "from cdd.shared.pure_utils import PY_GTE_3_12\n",
    "import requests\n\nfrom cdd.shared.pure_utils import PY_GTE_3_12\n",
    mention=["requests"],
)
# ------------------------------------------------------------------------------ C20
EXU = "cdd/compound/exmod_utils.py"
EXM = "cdd/compound/exmod.py"
mut(
    "c20-emit-symbol-drops-dry-run-arm",
    "C20",
    "C20.dryrun",
    EXU,
    """    if dry_run:
        print(
            "write\\t{emit_filename!r}".format(emit_filename=emit_filename),
            file=EXMOD_OUT_STREAM,
        )
    else:
        cdd.shared.emit.file.file(gen_node, filename=emit_filename, mode="wt")
""",
    """    cdd.shared.emit.file.file(gen_node, filename=emit_filename, mode="wt")
""",
    mention=["_emit_symbol"],
)
mut(
    "c20-makedirs-before-test",
    "C20",
    "C20.dryrun",
    EXU,
    """    if not path.isdir(mod_path):
        if dry_run:
""",
    """    if not path.isdir(mod_path):
        makedirs(path.dirname(mod_path), exist_ok=True)
        if dry_run:
""",
    mention=["emit_file_on_hierarchy"],
)
mut(
    "c20-partial-dry-run-false",
    "C20",
    "C20.dryrun",
    EXU,
    """        no_word_wrap=no_word_wrap,
        dry_run=dry_run,
    )

    # Might need""",
    """        no_word_wrap=no_word_wrap,
        dry_run=False,
    )

    # Might need""",
)
mut(
    "c20-sqlalchemy-mod-unguarded-again",
    "C20",
    "C20.dryrun",
    EXM,
    "    if make_sqlalchemy_mod and not dry_run:\n",
    "    if make_sqlalchemy_mod:\n",
    mention=["_add_imports_to_sqlalchemy_create_all"],
)
mut(
    "c20-merge-extends-first-list-in-place",
    "C20",
    "C20.sharednode",
    "cdd/shared/ast_utils.py",
    """    del_ass_where_name(node, name)
    elts = map(
""",
    """    if asses:
        asses[-1].elts.extend(e for a in asses[:-1] for e in a.elts)
    del_ass_where_name(node, name)
    elts = map(
""",
    mention=["merge_assignment_lists", "__all___node"],
)
mut(
    "c20-gate-after-emit",
    "C20",
    "C20.gate",
    EXM,
    """    if not proceed:
        return
""",
    """    if not proceed and dry_run:
        return
""",
)
mut(
    "c20-find-packages-no-exclude",
    "C20",
    "C20.gate",
    EXM,
    "        exclude=blacklist if blacklist else iter(()),\n",
    "        exclude=iter(()),\n",
)
mut(
    "c20-init-in-parent-again",
    "C20",
    "C20.prov",
    EXU,
    """    init_filepath: str = path.join(
        mod_path if output_dir_is_module else path.dirname(mod_path), INIT_FILENAME
    )
""",
    """    init_filepath: str = path.join(path.dirname(mod_path), INIT_FILENAME)
""",
    mention=["init_filepath"],
)
mut(
    "c20-write-next-to-source",
    "C20",
    "C20.prov",
    EXM,
    """        makedirs(path.dirname(init_filepath), exist_ok=True)
""",
    """        makedirs(path.dirname(init_filepath), exist_ok=True)
        open(path.join(module_root_dir, ".exmod_done"), "a").close()
""",
)
# ------------------------------------------------------------------------------ C11
mut(
    "c11-skip-loop-stationary-again",
    "C11",
    "C11.progress",
    "cdd/docstring/emit.py",
    """            prev_nl = next_nl + 1
            next_nl = candidate_doc_str.find("\\n", prev_nl)
""",
    """            next_nl = candidate_doc_str.find("\\n", prev_nl)
""",
    mention=["next_nl"],
)
mut(
    "c11-increment-under-condition",
    "C11",
    "C11.progress",
    "cdd/docstring/utils/parse_utils.py",
    """                i += 1
        i += 1
    if not union[-1]:""",
    """                i += 1
        if not is_space or union:
            i += 1
    if not union[-1]:""",
)
mut(
    "c11-pop-replaced-by-index",
    "C11",
    "C11.progress",
    "cdd/shared/ast_utils.py",
    "        query = current_search.pop(0)\n        if (\n",
    "        query = current_search[0]\n        if (\n",
)
mut(
    "c11-line-end-not-advanced",
    "C11",
    "C11.progress",
    "cdd/shared/docstring_utils.py",
    """            line_start = line_end
            line_end += 1
""",
    """            line_start = line_end
            if line:
                line_end += 1
""",
)
mut(
    "c11-unbounded-cycle",
    "C11",
    "C11.iter",
    "cdd/function/parse.py",
    "list(islice(cycle((None,)), diff))",
    "list(cycle((None,)))[:diff]",
)
# ------------------------------------------------------------------------------ C10
AU = "cdd/shared/ast_utils.py"
mut(
    "c10-merge-params-set-again",
    "C10",
    "C10.setorder",
    "cdd/shared/parse/utils/parser_utils.py",
    """    for name in other_params:
        if name not in target_params:
            target_params[name] = other_params[name]
""",
    """    for name in other_params.keys() - target_params.keys():
        target_params[name] = other_params[name]
""",
    mention=["merge_params"],
)
mut(
    "c10-all-list-unsorted",
    "C10",
    "C10.setorder",
    AU,
    "map(set_value, (sorted(frozenset(elts)) if unique_sort else elts))",
    "map(set_value, (frozenset(elts) if unique_sort else elts))",
)
mut(
    "c10-import-names-unsorted",
    "C10",
    "C10.setorder",
    AU,
    "                        sorted(frozenset(map(itemgetter(0), mod_names[1]))),\n",
    "                        frozenset(map(itemgetter(0), mod_names[1])),\n",
)
mut(
    "c10-mutable-default-written",
    "C10",
    "C10.mutdefault",
    EXU,
    """        res.update(
            dict(
                map(
                    lambda node: (""",
    """        _result.update(res)
        res.update(
            dict(
                map(
                    lambda node: (""",
)
mut(
    "c10-module-cache",
    "C10",
    "C10.modstate",
    "cdd/shared/pure_utils.py",
    """    counter: count = count()
    deque(zip(iterable, counter), maxlen=0)
    return next(counter)
""",
    """    counter: count = count()
    deque(zip(iterable, counter), maxlen=0)
    simple_types["_last_count"] = next(counter)
    return simple_types["_last_count"]
""",
)
mut(
    "c10-crossmod-different-value",
    "C10",
    "C10.crossmod",
    "cdd/compound/openapi/utils/emit_utils.py",
    '        "int64": "BigInteger",\n',
    '        "int64": "Integer",\n',
)
mut(
    "c10-random-suffix",
    "C10",
    "C10.nondet",
    "cdd/shared/pure_utils.py",
    """    if not s:
        return "_"
    elif iskeyword(s):""",
    """    if not s:
        import random

        return "_{}".format(random.randint(0, 9))
    elif iskeyword(s):""",
)
# ------------------------------------------------------------------------------ C17
PU = "cdd/docstring/utils/parse_utils.py"
mut(
    "c17-word-chars-paren",
    "C17",
    "C17.charset",
    PU,
    """word_chars: str = "{0}{1}`'\\"/|".format(string.digits, string.ascii_letters)""",
    """word_chars: str = "{0}{1}`'\\"/|()".format(string.digits, string.ascii_letters)""",
)
mut(
    "c17-word-chars-underscore",
    "C17",
    "C17.charset",
    PU,
    """word_chars: str = "{0}{1}`'\\"/|".format(string.digits, string.ascii_letters)""",
    """word_chars: str = "{0}{1}_`'\\"/|".format(string.digits, string.ascii_letters)""",
)
mut(
    "c17-eval-doc-directly",
    "C17",
    "C17.exec",
    "cdd/shared/docstring_parsers.py",
    """        if typ is not None:
            try:
                eval(typ, globals(), locals())""",
    """        if typ is None and _param["doc"].startswith("typing."):
            typ = _param["doc"].partition(" ")[0]
        if typ is not None:
            try:
                eval(typ, globals(), locals())""",
)
mut(
    "c17-literal-eval-to-eval",
    "C17",
    "C17.exec",
    "cdd/shared/defaults_utils.py",
    "literal_eval(",
    "eval(",
)
mut(
    "c17-input-eval-guard-dropped",
    "C17",
    "C17.exec",
    "cdd/compound/sync_properties.py",
    "    if input_eval:\n        if input_param.count",
    "    if input_eval or output_param_wrap is None:\n        if input_param.count",
)
mut(
    "c17-doctrans-backup-file",
    "C17",
    "C17.write",
    "cdd/compound/doctrans.py",
    """        with open(filename, "wt") as f:
""",
    """        with open("{}.bak".format(filename), "wt") as bak:
            bak.write(original_source)
        with open(filename, "wt") as f:
""",
)
mut(
    "c17-parser-imports-named-module",
    "C17",
    "C17.exec",
    "cdd/class_/utils/parse_utils.py",
    '__all__ = ["get_source"]',
    'def resolve_base(name):\n    """resolve"""\n    from importlib import import_module as _imp\n\n    return _imp(name.rpartition(".")[0])\n\n\n__all__ = ["get_source"]',
)
mut(
    "c17-phase0-unfiltered-append",
    "C17",
    "C17.charset",
    PU,
    """        elif ch in frozenset((".", ";", ",")) or ch.isspace():
            words[-1] = "".join(words[-1])""",
    """        elif ch == "_" and words[-1]:
            words[-1].append(ch)
        elif ch in frozenset((".", ";", ",")) or ch.isspace():
            words[-1] = "".join(words[-1])""",
)
# ------------------------------------------------------------------------------ C19
GU = "cdd/compound/gen_utils.py"
mut(
    "c19-guard-weakened",
    "C19",
    "C19.guard",
    "cdd/__main__.py",
    "        if path.isfile(args.output_filename) and not (\n",
    "        if path.isfile(args.output_filename) and not args.emit_call and not (\n",
)
mut(
    "c19-gen-file-truncates",
    "C19",
    "C19.append",
    GU,
    '    with open(output_filename, "a") as f:\n',
    '    with open(output_filename, "wt") as f:\n',
)
mut(
    "c19-all-gets-raw-name",
    "C19",
    "C19.names",
    GU,
    "        or global__all__.append(ensure_valid_identifier(name_tpl.format(name=name)))\n",
    "        or global__all__.append(name)\n",
)
mut(
    "c19-all-gets-unsanitised-name",  # regression of the fixed defect bf8c3e0
    "C19",
    "C19.names",
    GU,
    "        or global__all__.append(ensure_valid_identifier(name_tpl.format(name=name)))\n",
    "        or global__all__.append(name_tpl.format(name=name))\n",
)
mut(
    "c19-kwarg-table-entry-dropped",
    "C19",
    "C19.dispatch",
    GU,
    '            "pydantic": {"class_name": _name},\n',
    "",
)
mut(
    "c19-class-name-to-wrong-keyword",
    "C19",
    "C19.dispatch",
    GU,
    """            "class_": {
                "class_name": _name,""",
    """            "class_": {
                "name": _name,""",
)
# ------------------------------------------------------------------------------ C03
mut(
    "c03-parser-table-typo",
    "C03",
    "C03.dispatch",
    "cdd/shared/parse/utils/parser_utils.py",
    '        "sqlalchemy_hybrid": "sqlalchemy",\n',
    '        "sqlalchemy_hybrid": "sqlalchemy_hybrid_",\n',
)
mut(
    "c03-emitter-module-renamed",
    "C03",
    "C03.dispatch",
    "cdd/shared/emit/utils/emitter_utils.py",
    '    emit_name: str = {"class": "class_"}.get(emit_name, emit_name)\n',
    '    emit_name: str = {"class": "class_", "json_schema": "jsonschema"}.get(emit_name, emit_name)\n',
)
mut(
    "c03-ir-extra-key",
    "C03",
    "C03.ir",
    "cdd/function/parse.py",
    '            "returns": None,\n        },\n    )\n\n    intermediate_repr["params"].update',
    '            "returns": None,\n            "decorators": None,\n        },\n    )\n\n    intermediate_repr["params"].update',
)
mut(
    "c03-none-sentinel-diverges",
    "C03",
    "C03.none",
    "cdd/shared/defaults_utils.py",
    'NoneStr = "```(None)```" if PY_GTE_3_9 else "```None```"',
    'NoneStr = "```None```"',
)

# ------------------------------------------------------------------------------ C06
JE = "cdd/json_schema/utils/emit_utils.py"
mut(
    "c06-description-or-none-again",
    "C06",
    "C06.meta",
    "cdd/json_schema/emit.py",
    """            ).lstrip("\\n")
        ),
""",
    """            ).lstrip("\\n")
            or None
        ),
""",
    mention=["description"],
)
mut(
    "c06-optional-also-required",
    "C06",
    "C06.required",
    JE,
    """        if _param["type"].startswith("Optional["):
            _param["type"] = _param["type"][len("Optional[") : -1]
""",
    """        if _param["type"].startswith("Optional["):
            _param["type"] = _param["type"][len("Optional[") : -1]
            if "default" not in _param:
                required.append(name)
""",
)
mut(
    "c06-datetime-not-required",
    "C06",
    "C06.required",
    JE,
    """        _param.update({"type": "string", "format": "date-time"})
        required.append(name)
""",
    """        _param.update({"type": "string", "format": "date-time"})
""",
)
mut(
    "c06-table-float-maps-to-float",
    "C06",
    "C06.tables",
    "cdd/json_schema/utils/parse_utils.py",
    '    "number": "float",\n',
    '    "number": "float",\n    "double": "float",\n',
)
mut(
    "c06-pattern-separator",
    "C06",
    "C06.pattern",
    JE,
    '                    "pattern": "|".join(enum),\n',
    '                    "pattern": "^({})$".format("|".join(enum)),\n',
)
mut(
    "c06-schema-draft",
    "C06",
    "C06.meta",
    "cdd/json_schema/emit.py",
    '"https://json-schema.org/draft/2020-12/schema"',
    '"http://json-schema.org/draft-07/schema#"',
)
# ------------------------------------------------------------------------------ C02
mut(
    "c02-pad-on-the-right",
    "C02",
    "C02.align.parse",
    "cdd/function/parse.py",
    """                list(islice(cycle((None,)), diff))
                + getattr(function_def.args, defaults),""",
    """                getattr(function_def.args, defaults)
                + list(islice(cycle((None,)), diff)),""",
)
mut(
    "c02-pad-by-len-args",
    "C02",
    "C02.align.parse",
    "cdd/function/parse.py",
    """        diff = abs(
            len(getattr(function_def.args, args))
            - len(getattr(function_def.args, defaults))
        )""",
    """        diff = len(getattr(function_def.args, args)) - bool(
            getattr(function_def.args, defaults)
        )""",
)
mut(
    "c02-defaults-skip-none",
    "C02",
    "C02.align.emit",
    "cdd/function/emit.py",
    """                else cdd.shared.ast_utils.set_value(param[1].get("default"))
            ),
            params_no_kwargs,
        )
    )""",
    """                else cdd.shared.ast_utils.set_value(param[1].get("default"))
            ),
            filter(lambda param: "default" in param[1], params_no_kwargs),
        )
    )""",
)
mut(
    "c02-kwonly-defaults-to-positional",
    "C02",
    "C02.align.emit",
    "cdd/function/emit.py",
    "        kwonlyargs, kw_defaults, defaults = args_from_params, defaults_from_params, []\n",
    "        kwonlyargs, kw_defaults, defaults = args_from_params, [], defaults_from_params\n",
)
mut(
    "c02-argparse-name-renamed-on-emit",
    "C02",
    "C02.shape",
    "cdd/shared/ast_utils.py",
    """                Name("argument_parser", Load(), lineno=None, col_offset=None),
                "add_argument",""",
    """                Name("parser", Load(), lineno=None, col_offset=None),
                "add_argument",""",
)
mut(
    "c02-class-parser-drops-assign-arm",
    "C02",
    "C02.shape",
    "cdd/class_/parse.py",
    "        elif isinstance(e, Assign):\n            val = cdd.shared.ast_utils.get_value(e)\n",
    "        elif isinstance(e, Assign) and False:\n            val = cdd.shared.ast_utils.get_value(e)\n",
    expect="analysis-error-or-violation",
)
mut(
    "c02-choices-read-as-choice",
    "C02",
    "C02.keywords",
    "cdd/argparse_function/utils/emit_utils.py",
    '            if keyword.arg == "choices"\n',
    '            if keyword.arg == "choice"\n',
)
mut(
    "c02-optional-depends-on-default",
    "C02",
    "C02.optional",
    "cdd/argparse_function/utils/emit_utils.py",
    '    if not required and "Optional" not in typ:\n',
    '    if not required and default is None and "Optional" not in typ:\n',
)
mut(
    "c02-falsy-default-in-class-emit",
    "C02",
    "C02.falsy",
    "cdd/shared/ast_utils.py",
    '    if "default" in _param:\n',
    '    if _param.get("default"):\n',
)
# ------------------------------------------------------------------------------ C14
mut(
    "c14-argparse-ir-without-doc",
    "C14",
    "C14.shape",
    "cdd/argparse_function/parse.py",
    """        "type": function_type or get_function_type(function_def),
        "doc": "",
        "params": OrderedDict(),
    }""",
    """        "type": function_type or get_function_type(function_def),
        "params": OrderedDict(),
    }""",
    expect="violation-even-if-later-store",
)
mut(
    "c14-sqlalchemy-table-no-doc",
    "C14",
    "C14.shape",
    "cdd/sqlalchemy/parse.py",
    '        {"type": None, "doc": "", "params": OrderedDict()}\n',
    '        {"type": None, "params": OrderedDict()}\n',
)
mut(
    "c14-ir-extra-key",
    "C14",
    "C14.shape",
    "cdd/shared/docstring_parsers.py",
    """        "doc": "",
        "params": OrderedDict(),
        "returns": None,
    }
    if not docstring:""",
    """        "doc": "",
        "style": style.name,
        "params": OrderedDict(),
        "returns": None,
    }
    if not docstring:""",
)
mut(
    "c14-class-parser-keeps-asterisks",
    "C14",
    "C14.names",
    "cdd/class_/parse.py",
    '            target_id: str = e.target.id.lstrip("*")\n',
    "            target_id: str = e.target.id\n",
)
mut(
    "c14-param-entry-extra-key",
    "C14",
    "C14.entry",
    "cdd/class_/parse.py",
    '                {"typ": typ} if val is None else dict(typ=typ, **val)\n',
    '                {"typ": typ} if val is None else dict(typ=typ, annotated=True, **val)\n',
)

# ------------------------------------------------------------------------------ C16
OU = "cdd/compound/openapi/utils/emit_openapi_utils.py"
mut(
    "c16-request-body-flag-never-set",
    "C16",
    "C16.refs",
    OU,
    "        _request_body: bool = True\n",
    "",
    mention=["requestBodies"],
)
mut(
    "c16-body-key-template-differs",
    "C16",
    "C16.refs",
    OU,
    '        components["requestBodies"]["{name}Body".format(name=name)] = {',
    '        components["requestBodies"]["{name}_body".format(name=name)] = {',
)
mut(
    "c16-server-error-not-defined",
    "C16",
    "C16.refs",
    "cdd/compound/openapi/emit.py",
    '            "ServerError": {',
    '            "Error": {',
    mention=["ServerError"],
)
mut(
    "c16-delete-on-collection",
    "C16",
    "C16.crud",
    OU,
    '            paths[_route]["delete"] = {',
    '            paths[route]["delete"] = {',
)
mut(
    "c16-read-template-on-collection",
    "C16",
    "C16.crud",
    "cdd/routes/emit/bottle_constants_utils.py",
    '@{app}.get("{route}/:{id}")',
    '@{app}.get("{route}")',
)
mut(
    "c16-path-param-name-constant",
    "C16",
    "C16.params",
    OU,
    '                    "name": _id,\n',
    '                    "name": "id",\n',
)
mut(
    "c16-schema-store-only-on-create",
    "C16",
    "C16.refs",
    OU,
    """    components["schemas"][name] = {
        k: v for k, v in model.items() if not k.startswith("$")
    }
    if _request_body:""",
    """    if _request_body:
        components["schemas"][name] = {
            k: v for k, v in model.items() if not k.startswith("$")
        }
    if _request_body:""",
)
# ------------------------------------------------------------------------------ C05
SE = "cdd/sqlalchemy/emit.py"
SEU = "cdd/sqlalchemy/utils/emit_utils.py"
mut(
    "c05-table-site-skips-pk",
    "C05",
    "C05.pk",
    SE,
    """                            cdd.sqlalchemy.utils.emit_utils.ensure_has_primary_key(
                                intermediate_repr["params"], force_pk_id
                            ).items(),
                        ),
                    )
                )
            ),
            keywords=list(""",
    """                            intermediate_repr["params"].items(),
                        ),
                    )
                )
            ),
            keywords=list(""",
)
mut(
    "c05-pk-store-outside-absence-test",
    "C05",
    "C05.pk",
    SEU,
    """    if not any(
        filter(
            rpartial(str.startswith, "[PK]"),
            map(
                methodcaller("get", "doc", ""),
                params.values(),
            ),
        )
    ):
        candidate_pks: List[str] = []""",
    """    if force_pk_id and "id" in params:
        params["id"]["doc"] = "[PK] {}".format(params["id"].get("doc", ""))
    if not any(
        filter(
            rpartial(str.startswith, "[PK]"),
            map(
                methodcaller("get", "doc", ""),
                params.values(),
            ),
        )
    ):
        candidate_pks: List[str] = []""",
)
mut(
    "c05-float-parsed-as-number",
    "C05",
    "C05.tables",
    "cdd/sqlalchemy/utils/parse_utils.py",
    '    "Float": "float",\n',
    '    "Float": "number",\n',
)
mut(
    "c05-hybrid-own-parser",
    "C05",
    "C05.funnel",
    "cdd/sqlalchemy/parse.py",
    """    return sqlalchemy(
        class_def=class_def, parse_original_whitespace=parse_original_whitespace
    )""",
    """    return cdd.class_.parse.class_(
        class_def, parse_original_whitespace=parse_original_whitespace
    )""",
)
mut(
    "c05-emitter-writes-index",
    "C05",
    "C05.vocab",
    SEU,
    """    if isinstance(nullable, bool):
        keywords.append(
            ast.keyword(
                arg="nullable",""",
    """    if _param.get("doc", "").startswith("[PK]"):
        keywords.append(
            ast.keyword(arg="index", value=cdd.shared.ast_utils.set_value(True), identifier=None)
        )
    if isinstance(nullable, bool):
        keywords.append(
            ast.keyword(
                arg="nullable",""",
    mention=["index"],
)

# ------------------------------------------------------------------------------ C07
ACU = "cdd/shared/ast_cst_utils.py"
mut(
    "c07-backup-after-write",
    "C07",
    "C07.write",
    "cdd/compound/doctrans.py",
    """            f.write("".join(map(attrgetter("value"), cst_list)))
""",
    """            f.write("".join(map(attrgetter("value"), cst_list)))
        ast_parse("".join(map(attrgetter("value"), cst_list)))
""",
)
mut(
    "c07-join-inside-with-calls-package",
    "C07",
    "C07.write",
    "cdd/compound/doctrans.py",
    """            f.write("".join(map(attrgetter("value"), cst_list)))
""",
    """            doctransify_cst(cst_list, node)
            f.write("".join(map(attrgetter("value"), cst_list)))
""",
)
mut(
    "c07-delete-without-docstr-check",
    "C07",
    "C07.frame",
    ACU,
    "    elif not new_doc_str and existing_doc_str:\n        del cst_list[cst_idx + 1]\n",
    "    elif not new_doc_str:\n        del cst_list[cst_idx + 1]\n",
)
mut(
    "c07-existing-docstr-any-triple-quoted",
    "C07",
    "C07.frame",
    ACU,
    "        isinstance(cur_node_after_func, TripleQuoted) and cur_node_after_func.is_docstr\n",
    "        isinstance(cur_node_after_func, TripleQuoted)\n",
)
mut(
    "c07-mutate-two-after",
    "C07",
    "C07.frame",
    ACU,
    """        cst_list.insert(
            cst_idx + 1,
            formatted_doc_str(new_doc_str),
        )""",
    """        cst_list.insert(
            cst_idx + 2,
            formatted_doc_str(new_doc_str),
        )""",
)
mut(
    "c07-doctrans-clears-decorators",
    "C07",
    "C07.writeset",
    "cdd/compound/doctrans_utils.py",
    "        node.body = list(map(self.visit, node.body))\n",
    "        node.decorator_list = []\n        node.body = list(map(self.visit, node.body))\n",
)
mut(
    "c07-args-filtered",
    "C07",
    "C07.writeset",
    "cdd/compound/doctrans_utils.py",
    "            node.args.args = list(map(set_arg, map(attrgetter(\"arg\"), node.args.args)))\n",
    "            node.args.args = list(map(set_arg, filter(None, map(attrgetter(\"arg\"), node.args.args))))\n",
)
# ------------------------------------------------------------------------------ C12
CF = "cdd/shared/conformance.py"
mut(
    "c12-write-not-gated-by-replaced",
    "C12",
    "C12.gate",
    CF,
    "        if rewrite_at_query.replaced:\n            cdd.shared.emit.file.file(parsed_ast, filename, mode=\"wt\", skip_black=False)\n",
    "        cdd.shared.emit.file.file(parsed_ast, filename, mode=\"wt\", skip_black=False)\n",
)
mut(
    "c12-write-not-gated-by-cmp",
    "C12",
    "C12.gate",
    CF,
    "    if not cmp_ast(original_node, replacement_node):\n",
    "    if original_node is not None:\n",
)
mut(
    "c12-writes-truth-file-name",
    "C12",
    "C12.targets",
    CF,
    "                    filename=filename,\n                    search=search,",
    "                    filename=truth_file if fun_name == args.truth else filename,\n                    search=search,",
)
mut(
    "c12-new-visitor-without-delegation",
    "C12",
    "C12.visitor",
    "cdd/shared/ast_utils.py",
    "    def visit_FunctionDef(self, node):\n        \"\"\"\n        visits the `FunctionDef`, if it's the right one, replace it\n",
    "    def visit_ClassDef(self, node):\n        \"\"\"skip classes\"\"\"\n        return node\n\n    def visit_FunctionDef(self, node):\n        \"\"\"\n        visits the `FunctionDef`, if it's the right one, replace it\n",
    mention=["visit_ClassDef"],
)
# ------------------------------------------------------------------------------ C13
SP = "cdd/compound/sync_properties.py"
mut(
    "c13-default-index-regression",
    "C13",
    "C13.index",
    "cdd/shared/ast_utils.py",
    """                if idx is not None:
                    # `defaults` is right-aligned with `args`; `_idx` does not count `self`/`cls`
                    idx += (
                        int(
                            len(node.args.args) > 0
                            and node.args.args[0].arg in frozenset(("self", "cls"))
                        )
                        + len(node.args.defaults)
                        - len(node.args.args)
                    )
                if idx is not None and 0 <= idx < len(node.args.defaults):""",
    """                if idx is not None and 0 <= idx < len(node.args.defaults):""",
    mention=["visit_FunctionDef"],
)
mut(
    "c13-replace-every-match",
    "C13",
    "C13.once",
    "cdd/shared/ast_utils.py",
    """        if (
            not self.replaced
            and hasattr(node, "_location")
            and node._location == self.search
        ):
            self.replaced = True
            return self.replacement_node
        else:""",
    """        if hasattr(node, "_location") and node._location == self.search:
            self.replaced = True
            return self.replacement_node
        else:""",
)
mut(
    "c13-input-file-touched",
    "C13",
    "C13.io",
    SP,
    '    with open(path.realpath(path.expanduser(input_filename)), "rt") as f:\n',
    '    with open(path.realpath(path.expanduser(input_filename)), "r+") as f:\n',
)
mut(
    "c13-writes-backup",
    "C13",
    "C13.io",
    SP,
    '    cdd.shared.emit.file.file(output_ast, output_filename, mode="wt", skip_black=False)\n',
    '    cdd.shared.emit.file.file(output_ast, output_filename + ".new", mode="wt", skip_black=False)\n',
)
mut(
    "c13-eval-ungated",
    "C13",
    "C13.eval",
    SP,
    "    if input_eval:\n        if input_param.count",
    "    if input_eval or input_param.isupper():\n        if input_param.count",
)

# ------------------------------------------------------------------------------ C08
mut(
    "c08-handle-null-unguarded",
    "C08",
    "C08.growth",
    "cdd/sqlalchemy/utils/parse_utils.py",
    """        if not _param["typ"].startswith("Optional["):
            _param["typ"] = "Optional[{}]".format(_param["typ"])
""",
    """        _param["typ"] = "Optional[{}]".format(_param["typ"])
""",
)
mut(
    "c08-defaults-to-without-has-defaults",
    "C08",
    "C08.growth",
    "cdd/shared/defaults_utils.py",
    '    elif "default" in _param and not has_defaults and emit_default_doc:',
    '    elif "default" in _param and emit_default_doc:',
)
mut(
    "c08-pk-key-not-deleted",
    "C08",
    "C08.growth",
    "cdd/sqlalchemy/utils/parse_utils.py",
    """                else "[{}]".format(shortname)
            )
            del _param[longname]
""",
    """                else "[{}]".format(shortname)
            )
""",
)
mut(
    "c08-strip-partner-removed",
    "C08",
    "C08.growth",
    "cdd/sqlalchemy/utils/emit_utils.py",
    '    rstripped_dot_doc: str = _param.get("doc", "").rstrip(".")\n',
    '    rstripped_dot_doc: str = _param.get("doc", "")\n',
)
mut(
    "c08-optional-doc-unguarded",
    "C08",
    "C08.growth",
    "cdd/shared/docstring_parsers.py",
    """            and "typ" in _param
            and not _param["typ"].startswith("Optional[")
        ):""",
    """            and "typ" in _param
        ):""",
)
# ------------------------------------------------------------------------------ C15
mut(
    "c15-header-stripped",
    "C15",
    "C15.tile",
    "cdd/shared/docstring_utils.py",
    "            original_doc_str[:start_idx_original] if start_idx_original > -1 else None\n        )\n        args_returns_original",
    "            original_doc_str[:start_idx_original].rstrip(\" \") if start_idx_original > -1 else None\n        )\n        args_returns_original",
    mention=["header"],
)
mut(
    "c15-footer-from-start-index",
    "C15",
    "C15.tile",
    "cdd/shared/docstring_utils.py",
    "            original_doc_str[last_idx_original:] if last_idx_original != -1 else None\n",
    "            original_doc_str[start_idx_original:] if last_idx_original != -1 else None\n",
    mention=["footer"],
)

mut(
    "c17-construct-default-by-type-name",
    "C17",
    "C17.exec",
    "cdd/shared/docstring_parsers.py",
    """    if infer_type and _param.get("typ") is None and _param["default"] not in none_types:
        _param["typ"] = type(_param["default"]).__name__
""",
    """    if infer_type and _param.get("typ") is None and _param["default"] not in none_types:
        _param["typ"] = type(_param["default"]).__name__
    elif isinstance(_param.get("typ"), str) and isinstance(_param["default"], str):
        import builtins

        if hasattr(builtins, _param["typ"]):
            _param["default"] = getattr(builtins, _param["typ"])(_param["default"])
""",
)

# ------------------------------------------------------------------------------ C01
DUF = "cdd/shared/docstring_utils.py"
mut(
    "c01-negative-int-as-float-again",
    "C01",
    "C01.numeric",
    "cdd/shared/defaults_utils.py",
    '    elif (default[1:] if default[:1] in frozenset(("-", "+")) else default).isdecimal():\n',
    "    elif default.isdecimal():\n",
)
mut(
    "c01-float-before-int",
    "C01",
    "C01.numeric",
    "cdd/shared/defaults_utils.py",
    """    elif (default[1:] if default[:1] in frozenset(("-", "+")) else default).isdecimal():
        default = int(default)
    elif default in frozenset(("True", "False")):
        default = literal_eval(default)
    else:
        with suppress(ValueError):
            default = float(default)
""",
    """    elif default in frozenset(("True", "False")):
        default = literal_eval(default)
    else:
        with suppress(ValueError):
            default = float(default)
        if isinstance(default, str) and (default[1:] if default[:1] in frozenset(("-", "+")) else default).isdecimal():
            default = int(default)
""",
)
mut(
    "c01-rest-token-removed-from-table",
    "C01",
    "C01.tokens",
    DUF,
    '    (":param", ":cvar", ":ivar", ":var", ":type", ":raises", ":return", ":rtype"),\n',
    '    (":param", ":cvar", ":ivar", ":var", ":type", ":raises", ":returns", ":rtype"),\n',
)
mut(
    "c01-google-token-shadowed-by-rest",
    "C01",
    "C01.precedence",
    DUF,
    '    ("Args:", "Kwargs:", "Raises:", "Returns:"),\n',
    '    ("Args:", "Kwargs:", "Raises:", ":return Returns:"),\n',
)
mut(
    "c01-announce-changed",
    "C01",
    "C01.announce",
    "cdd/shared/defaults_utils.py",
    '            _param["doc"] = "{doc} Defaults to {default}".format(',
    '            _param["doc"] = "{doc} Default = {default}".format(',
)

MUTANTS = M

mut(
    "c19-sanitiser-rewrites-dunder",
    "C19",
    "C19.sanitise",
    "cdd/shared/pure_utils.py",
    "    elif s[0].isdigit():\n        s: str = \"_{}\".format(s)\n    valid",
    "    elif s[0].isdigit() or s.startswith(\"__\"):\n        s: str = \"_{}\".format(s)\n    valid",
)
mut(
    "c19-sanitiser-drops-digits",
    "C19",
    "C19.sanitise",
    "cdd/shared/pure_utils.py",
    "        \"_{}{}\".format(string.ascii_letters, string.digits)\n",
    "        \"_{}\".format(string.ascii_letters)\n",
)
mut(
    "c19-get-emitter-memoised",
    "C19",
    "C19.perentry",
    "cdd/shared/emit/utils/emitter_utils.py",
    "def get_emitter(emit_name):\n",
    "from functools import lru_cache\n\n\n@lru_cache(maxsize=None)\ndef get_emitter(emit_name):\n",
)

mut(
    "c20-emit-even-when-symbol-in-file",
    "C20",
    "C20.srcguard",
    EXU,
    "    if not symbol_in_file and (ir.get(\"name\") or ir[\"params\"] or ir[\"returns\"]):\n",
    "    if ir.get(\"name\") or ir[\"params\"] or ir[\"returns\"]:\n",
)
mut(
    "c20-symbol-in-file-by-substring",
    "C20",
    "C20.srcguard",
    EXU,
    """        symbol_in_file: bool = any(
            filter(
                partial(eq, name),
                map(
                    attrgetter("name"),
                    filter(rpartial(hasattr, "name"), existent_mod.body),
                ),
            )
        )
""",
    """        symbol_in_file: bool = "class {}(".format(name) in emit_filename_contents
""",
)
mut(
    "c20-symbol-in-file-equivalent-genexp",  # behaviour-preserving: must NOT be reported
    "C20",
    "C20.srcguard",
    EXU,
    """        symbol_in_file: bool = any(
            filter(
                partial(eq, name),
                map(
                    attrgetter("name"),
                    filter(rpartial(hasattr, "name"), existent_mod.body),
                ),
            )
        )
""",
    """        symbol_in_file: bool = any(
            node.name == name for node in existent_mod.body if hasattr(node, "name")
        )
""",
    expect="ok",
)
mut(
    "c20-symbol-in-file-equivalent-set",  # behaviour-preserving: must NOT be reported
    "C20",
    "C20.srcguard",
    EXU,
    """        symbol_in_file: bool = any(
            filter(
                partial(eq, name),
                map(
                    attrgetter("name"),
                    filter(rpartial(hasattr, "name"), existent_mod.body),
                ),
            )
        )
""",
    """        symbol_in_file: bool = name in frozenset(
            map(attrgetter("name"), filter(rpartial(hasattr, "name"), existent_mod.body))
        )
""",
    expect="ok",
)

PAU = "cdd/shared/parse/utils/parser_utils.py"
mut(
    "c18-import-time-dispatch-through-get-parser",
    "C18",
    "C18.import",
    PAU,
    "__all__ = [\n    \"_inspect\",\n    \"get_parser\",",
    "_function_parser, _class_parser = map(partial(get_parser, None), (\"function\", \"class\"))\n\n__all__ = [\n    \"_inspect\",\n    \"get_parser\",",
    mention=("get_parser",),
)
mut(
    "c18-import-time-call-harmless",  # a pure helper called at import time after its definition: must NOT be reported
    "C18",
    "C18.import",
    PAU,
    "__all__ = [\n    \"_inspect\",\n    \"get_parser\",",
    "_PLAIN_LIST = lstrip_typings(\"typings.List\")\n\n__all__ = [\n    \"_inspect\",\n    \"get_parser\",",
    expect="ok",
)

mut(
    "c16-item-gate-needs-create",
    "C16",
    "C16.crud",
    OU,
    "    if not frozenset(crud) - frozenset(\"CRUD\"):\n",
    "    if len(crud) > 1:\n",
    mention=("not emitted although requested",),
)
mut(
    "c16-read-arm-also-on-create",
    "C16",
    "C16.crud",
    OU,
    "        if \"R\" in crud:\n",
    "        if \"R\" in crud or \"C\" in crud:\n",
)
mut(
    "c16-memoised-yaml-load",
    "C16",
    "C16.state",
    "cdd/compound/openapi/parse.py",
    "def openapi(openapi_str, routes_dict, summary):\n",
    "from functools import lru_cache\n\n\n@lru_cache(maxsize=None, typed=True)\ndef _load(openapi_str):\n    \"\"\"load\"\"\"\n    return (loads if openapi_str.startswith(\"{\") else safe_load)(openapi_str)\n\n\ndef openapi(openapi_str, routes_dict, summary):\n",
    expect="ok",
)
mut2(
    "c16-memoised-yaml-load-mutated",
    "C16",
    "C16.state",
    [
        {
            "file": "cdd/compound/openapi/parse.py",
            "old": "def openapi(openapi_str, routes_dict, summary):\n",
            "new": "from functools import lru_cache\n\n\n@lru_cache(maxsize=None, typed=True)\ndef _load(openapi_str):\n    \"\"\"load\"\"\"\n    return (loads if openapi_str.startswith(\"{\") else safe_load)(openapi_str)\n\n\ndef openapi(openapi_str, routes_dict, summary):\n",
        },
        {
            "file": "cdd/compound/openapi/parse.py",
            "old": "    openapi_d: dict = (loads if openapi_str.startswith(\"{\") else safe_load)(openapi_str)\n",
            "new": "    openapi_d: dict = _load(openapi_str)\n",
        },
    ],
    mention=("edited in place",),
)
mut(
    "c14-foreign-key-removed-only-when-truthy",
    "C14",
    "C14.entry",
    "cdd/sqlalchemy/utils/parse_utils.py",
    "    if \"nullable\" in _param:\n",
    "    if _param.get(\"nullable\") is not None:\n",
    mention=("nullable",),
)

mut(
    "c11-bracket-repair-loop-overshoots",
    "C11",
    "C11.variant",
    "cdd/shared/emit/utils/emitter_utils.py",
    "    balanced: bool = (s.count(\"[\") + s.count(\"]\")) & 1 == 0\n    return ast.parse(s if balanced else \"{}]\".format(s)).body[0].value\n",
    "    while s.count(\"[\") != s.count(\"]\"):\n        s += \"]\"\n    return ast.parse(s).body[0].value\n",
    mention=("never ends",),
)
mut(
    "c11-bracket-repair-loop-guarded",  # the same loop under a direction guard terminates: must NOT be reported
    "C11",
    "C11.variant",
    "cdd/shared/emit/utils/emitter_utils.py",
    "    balanced: bool = (s.count(\"[\") + s.count(\"]\")) & 1 == 0\n    return ast.parse(s if balanced else \"{}]\".format(s)).body[0].value\n",
    "    if s.count(\"[\") > s.count(\"]\"):\n        while s.count(\"[\") != s.count(\"]\"):\n            s += \"]\"\n    return ast.parse(s).body[0].value\n",
    expect="ok",
)
mut2(
    "c11-exponential-regex",
    "C11",
    "C11.regex",
    [
        {"file": "cdd/shared/defaults_utils.py", "old": "import ast\nfrom ast import literal_eval\n", "new": "import ast\nimport re\nfrom ast import literal_eval\n"},
        {
            "file": "cdd/shared/defaults_utils.py",
            "old": "def ast_parse_fix(s):\n",
            "new": "WORDS = re.compile(r\"^(\\w+\\s*)+$\")\n\n\ndef ast_parse_fix(s):\n",
        },
    ],
)
mut2(
    "c11-linear-regex",  # a linear pattern: must NOT be reported
    "C11",
    "C11.regex",
    [
        {"file": "cdd/shared/defaults_utils.py", "old": "import ast\nfrom ast import literal_eval\n", "new": "import ast\nimport re\nfrom ast import literal_eval\n"},
        {
            "file": "cdd/shared/defaults_utils.py",
            "old": "def ast_parse_fix(s):\n",
            "new": "WORDS = re.compile(r\"^\\w+(?:\\.\\w+)*$\")\n\n\ndef ast_parse_fix(s):\n",
        },
    ],
    expect="ok",
)
mut(
    "c11-loop-until-callee-returns-none",
    "C11",
    "C11.variant",
    "cdd/shared/defaults_utils.py",
    "        _param[\"doc\"] = extract_default(\n            _param[\"doc\"], emit_default_doc=emit_default_doc\n        )[0]\n",
    "        default = _param[\"doc\"]\n        while default is not None:\n            _param[\"doc\"], default = extract_default(\n                _param[\"doc\"], emit_default_doc=emit_default_doc\n            )\n",
    mention=("extract_default",),
)

mut(
    "c04-simple-typed-attr-always-valued",
    "C04",
    "C04.classdefault",
    AU,
    "        return None if val is None else set_value(None if val == NoneStr else val)\n",
    "        return set_value(None if val in (None, NoneStr) else val)\n",
)
mut(
    "c04-defaults-from-other-iterable",
    "C04",
    "C04.align",
    "cdd/function/emit.py",
    "                else cdd.shared.ast_utils.set_value(param[1].get(\"default\"))\n            ),\n            params_no_kwargs,\n",
    "                else cdd.shared.ast_utils.set_value(param[1].get(\"default\"))\n            ),\n            filter(lambda param: \"default\" in param[1], params_no_kwargs),\n",
)
mut(
    "c04-required-excludes-default",  # the repaired form must be accepted (known finding then goes quiet)
    "C04",
    "C04.required",
    AU,
    "                            if required is True\n",
    "                            if required is True and default is None\n",
    expect="ok",
)

CSTU = "cdd/shared/cst_utils.py"
mut(
    "c09-scanner-hops-between-newlines-with-find",
    "C09",
    "C09.bounds",
    CSTU,
    "    for idx, ch in enumerate(source):\n        if ch == \"\\n\":  # in frozenset((\"\\n\", \":\", \";\", '\"\"\"', \"'''\", '#')):\n            cst_scan(scanned, stack)\n        stack.append(ch)\n",
    "    pos = 0\n    while True:\n        nl = source.find(\"\\n\", pos)\n        stack.extend(source[pos:nl])\n        if nl == -1:\n            break\n        cst_scan(scanned, stack)\n        stack.append(\"\\n\")\n        pos = nl + 1\n",
    mention=("source[pos:nl]",),
)
mut(
    "c06-guard-reads-renamed-key",
    "C06",
    "C06.stale",
    JE,
    "    if isinstance(_param.get(\"choices\"), Set):\n",
    "    if isinstance(_param.get(\"default\"), str) and _param.get(\"typ\") != \"str\":\n        _param[\"default\"] = _param[\"default\"].strip()\n    if isinstance(_param.get(\"choices\"), Set):\n",
    mention=("'typ'",),
)
mut(
    "c06-guard-reads-new-key",  # the same guard on the key that exists: must NOT be reported
    "C06",
    "C06.stale",
    JE,
    "    if isinstance(_param.get(\"choices\"), Set):\n",
    "    if isinstance(_param.get(\"default\"), str) and _param.get(\"type\") != \"string\":\n        _param[\"default\"] = _param[\"default\"].strip()\n    if isinstance(_param.get(\"choices\"), Set):\n",
    expect="ok",
)
mut(
    "c05-optional-depends-on-default",
    "C05",
    "C05.optional",
    "cdd/sqlalchemy/utils/parse_utils.py",
    "        not _param[\"nullable\"] or _handle_null()\n",
    "        not _param[\"nullable\"] or \"default\" in _param or _handle_null()\n",
    mention=("default",),
)
mut(
    "c12-truth-file-skipped-by-name-only",
    "C12",
    "C12.targets",
    CF,
    "                lambda filename: _conform_filename(\n                    filename=filename,\n                    search=search,\n                    emit_func=partial(emit_func, word_wrap=args.no_word_wrap is None),\n                    replacement_node_ir=gold_ir,\n                    type_wanted=type_wanted,\n                ),\n",
    "                lambda filename: (truth_file, False) if filename == truth_file else _conform_filename(\n                    filename=filename,\n                    search=search,\n                    emit_func=partial(emit_func, word_wrap=args.no_word_wrap is None),\n                    replacement_node_ir=gold_ir,\n                    type_wanted=type_wanted,\n                ),\n",
    mention=("skipped",),
)
mut(
    "c12-truth-target-skipped-kind-aware",  # skipping exactly (truth kind, truth file) is harmless: must NOT be reported
    "C12",
    "C12.targets",
    CF,
    "                lambda filename: _conform_filename(\n                    filename=filename,\n                    search=search,\n                    emit_func=partial(emit_func, word_wrap=args.no_word_wrap is None),\n                    replacement_node_ir=gold_ir,\n                    type_wanted=type_wanted,\n                ),\n",
    "                lambda filename: (truth_file, False) if (fun_name == args.truth and filename == truth_file) else _conform_filename(\n                    filename=filename,\n                    search=search,\n                    emit_func=partial(emit_func, word_wrap=args.no_word_wrap is None),\n                    replacement_node_ir=gold_ir,\n                    type_wanted=type_wanted,\n                ),\n",
    expect="ok",
)
mut(
    "c07-write-in-place-then-truncate",
    "C07",
    "C07.write",
    "cdd/compound/doctrans.py",
    "        with open(filename, \"wt\") as f:\n            f.write(\"\".join(map(attrgetter(\"value\"), cst_list)))\n",
    "        with open(filename, \"r+t\") as f:\n            f.write(\"\".join(map(attrgetter(\"value\"), cst_list)))\n            f.truncate()\n",
    mention=("r+t",),
)
mut(
    "c02-help-percent-escaped-on-emit-only",
    "C02",
    "C02.escape",
    AU,
    "                                value=set_value((fill if word_wrap else identity)(doc)),\n",
    "                                value=set_value((fill if word_wrap else identity)(doc.replace(\"%\", \"%%\"))),\n",
)
mut(
    "c13-evaluated-namespace-cached-per-file",
    "C13",
    "C13.state",
    SP,
    "def sync_property(\n",
    "_EVALUATED = {}\n\n\ndef _remember(filename, namespace):\n    \"\"\"cache\"\"\"\n    _EVALUATED[filename] = namespace\n    return namespace\n\n\ndef sync_property(\n",
    expect="ok",
)

# ------------------------------------------------------------------ harmless edits that must stay silent
mut(
    "ok-c09-harmless-statement-in-cst_scan",
    "C09",
    "C09",
    CSTU,
    "    statement = \"\".join(stack)\n    statement_stripped = statement.strip()\n",
    "    n_chars = len(stack)\n    del n_chars\n    statement = \"\".join(stack)\n    statement_stripped = statement.strip()\n",
    expect="ok",
)
mut(
    "ok-c09-scanner-loop-without-index",
    "C09",
    "C09",
    CSTU,
    "    for idx, ch in enumerate(source):\n",
    "    for ch in source:\n",
    expect="ok",
)
mut(
    "ok-c18-extra-stdlib-import",
    "C18",
    "C18",
    "cdd/shared/pure_utils.py",
    "import string\n",
    "import json\nimport string\n",
    expect="ok",
)
mut(
    "ok-c20-print-under-dry-run",
    "C20",
    "C20",
    EXU,
    "    if not path.isdir(mod_path):\n        if dry_run:\n",
    "    if dry_run:\n        print(\"# dry run\", file=EXMOD_OUT_STREAM)\n    if not path.isdir(mod_path):\n        if dry_run:\n",
    expect="ok",
)
mut(
    "ok-c17-doctrans-reads-file-once-more",
    "C17",
    "C17",
    "cdd/compound/doctrans.py",
    "    with open(filename, \"rt\") as f:\n",
    "    with open(filename, \"rt\") as f0:\n        _size = len(f0.read())\n    del _size\n    with open(filename, \"rt\") as f:\n",
    expect="ok",
)
mut(
    "ok-c10-sorted-set-kept",
    "C10",
    "C10",
    AU,
    "                        sorted(frozenset(map(itemgetter(0), mod_names[1]))),\n",
    "                        sorted(set(map(itemgetter(0), mod_names[1]))),\n",
    expect="ok",
)
mut(
    "ok-c19-guard-message-reworded",
    "C19",
    "C19",
    "cdd/__main__.py",
    "File exists and this is a destructive operation.",
    "File exists; this is a destructive operation.",
    expect="ok",
)

mut(
    "c15-bare-titles-matched-by-prefix-again",  # regression of the fixed defect 6f98f97
    "C15",
    "C15.tokens",
    DUF,
    "            elif any(filter(line.startswith, NON_NUMPYDOC_TOKENS_SET)):\n",
    "            elif any(filter(line.startswith, TOKENS_SET)):\n",
    mention=("'Returns'",),
)
mut(
    "c15-numpydoc-title-without-underline-test",
    "C15",
    "C15.tokens",
    DUF,
    "                if next_line.count(\"-\") == len(next_line):\n                    return idx - len(stack)\n",
    "                return idx - len(stack)\n",
    mention=("underline",),
)
mut(
    "ok-c15-prefix-test-as-generator",  # behaviour-preserving spelling: must NOT be reported
    "C15",
    "C15.tokens",
    DUF,
    "            elif any(filter(line.startswith, NON_NUMPYDOC_TOKENS_SET)):\n",
    "            elif any(line.startswith(tok) for tok in NON_NUMPYDOC_TOKENS_SET):\n",
    expect="ok",
)


# ------------------------------------------------------------------ breaks applied ON TOP OF a harmless refactoring
# (the refactoring alone is silent — tools/regress_neutral.sh; with the break the check must still report it)
mut2(
    "c17-helper-extracted-then-guard-weakened",
    "C17",
    "C17.exec",
    [{"file": "cdd/compound/sync_properties.py", "old": "    if input_eval:\n", "new": "    if input_eval or input_param.endswith(\"_choices\"):\n"}],
    mention=("input_eval",),
    base="C17_1",
)
mut2(
    "c13-helper-extracted-then-guard-weakened",
    "C13",
    "C13.eval",
    [{"file": "cdd/compound/sync_properties.py", "old": "    if input_eval:\n", "new": "    if input_eval or input_param.endswith(\"_choices\"):\n"}],
    base="C17_1",
)
mut2(
    "c19-refusal-helper-then-only-for-class-emit",
    "C19",
    "C19.guard",
    [{"file": "cdd/__main__.py", "old": "        if not (args.phase > 0 and args.emit_name.startswith(\"sqlalchemy\")):\n", "new": "        if args.emit_name == \"class\" and not (args.phase > 0 and args.emit_name.startswith(\"sqlalchemy\")):\n"}],
    base="C19_4",
)
mut2(
    "c20-gate-helper-then-whitelist-wins",
    "C20",
    "C20.gate",
    [{"file": "cdd/compound/exmod.py", "old": "    return mod_path not in omit and (not only or mod_path in only)\n", "new": "    return mod_path in only if only else mod_path not in omit\n"}],
    base="C20_2",
)
mut2(
    "c05-pk-helper-then-marked-without-absence-test",
    "C05",
    "C05.pk",
    [{"file": "cdd/sqlalchemy/utils/emit_utils.py", "old": "        candidate_pks: List[str] = [\n            param_name\n", "new": "        if force_pk_id and \"id\" in params:\n            _mark_param_as_primary_key(params[\"id\"])\n        candidate_pks: List[str] = [\n            param_name\n"}],
    base="C05_1",
)
mut2(
    "c02-zip-pairing-then-padding-on-the-right",
    "C02",
    "C02.align.parse",
    [{"file": "cdd/function/parse.py", "old": "[None] * diff + cur_defaults", "new": "cur_defaults + [None] * diff"}],
    mention=("LEFT",),
    base="C02_2",
)
mut2(
    "c09-loop-driver-then-skips-blank-chunks",
    "C09",
    "C09.lines",
    [{"file": "cdd/shared/cst_utils.py", "old": "    for statement in scanned:\n        cst_parse_one_node(statement, state=state)\n", "new": "    for statement in scanned:\n        if not statement.strip():\n            continue\n        cst_parse_one_node(statement, state=state)\n"}],
    base="C09_1",
)
mut2(
    "c10-import-initialiser-then-pair-differs-from-owner",
    "C10",
    "C10.crossmod",
    [{"file": "cdd/compound/openapi/utils/emit_utils.py", "old": '    "int64": "BigInteger",\n', "new": '    "int64": "Integer",\n'}],
    base="C18_w3_1",
)
mut2(
    "c10-import-initialiser-then-also-called-from-a-function",
    "C10",
    "C10.modstate",
    [
        {
            "file": "cdd/compound/openapi/utils/emit_utils.py",
            "old": "register_typ2column_type()\n",
            "new": 'register_typ2column_type()\n\n\ndef use_text_for_int():\n    """switch the mapping of `int`"""\n    register_typ2column_type({"int": "Text"})\n',
        }
    ],
    base="C18_w3_1",
)
mut2(
    "c05-table-built-by-helper-then-float-is-integer",
    "C05",
    "C05.tables",
    [{"file": "cdd/sqlalchemy/utils/emit_utils.py", "old": '            "float": "Float",\n', "new": '            "float": "Integer",\n'}],
    base="C18_w3_2",
)
mut2(
    "c17-delegate-helper-then-fed-from-the-output-filename",
    "C17",
    "C17.exec",
    [{"file": "cdd/compound/gen.py", "old": "        imports: str = _imports_from_file(imports_from_file, extra_symbols)\n", "new": "        imports: str = _imports_from_file(imports_from_file or output_filename, extra_symbols)\n"}],
    base="C19_w3_2",
)
mut2(
    "c03-emitter-lookup-modernised-then-wrong-package",
    "C03",
    "C03.dispatch",
    [{"file": "cdd/compound/exmod_utils.py", "old": "        else sanitised_emit_name\n    )\n    emitter = getattr(", "new": "        else emit_name\n    )\n    emitter = getattr("}],
    base="C20_w3_3",
)
mut2(
    "c06-rename-in-helper-then-guard-reads-the-old-key",
    "C06",
    "C06.stale",
    [
        {
            "file": "cdd/json_schema/utils/emit_utils.py",
            "old": '    if isinstance(_param.get("choices"), Set):\n',
            "new": '    if isinstance(_param.get("default"), str) and _param.get("typ") != "str":\n        _param["default"] = ast.literal_eval(_param["default"])\n    if isinstance(_param.get("choices"), Set):\n',
        }
    ],
    base="C06_w3_2",
)
# ------------------------------------------------------------------ the defects repaired in the round-4 session, re-introduced
mut2(
    "c14-nullable-popped-behind-an-or-again",
    "C14",
    "C14.translate",
    [
        {"file": "cdd/json_schema/utils/parse_utils.py", "old": '    nullable: bool = _param.pop("nullable", False)\n', "new": ""},
        {"file": "cdd/json_schema/utils/parse_utils.py", "old": "        or nullable\n", "new": '        or _param.pop("nullable", False)\n'},
    ],
    mention=("nullable",),
)
mut(
    "c19-inferred-imports-splatted-without-none-filter",
    "C19",
    "C19.imports",
    "cdd/compound/gen_utils.py",
    "chain(*filter(None, map(infer_imports, functions_and_classes)))",
    "chain(*map(infer_imports, functions_and_classes))",
    mention=("None",),
)
mut(
    "c19-inferred-imports-joined-by-a-space",
    "C19",
    "C19.imports",
    "cdd/compound/gen_utils.py",
    '            "\\n".join(\n                map(\n                    to_code,\n',
    '            " ".join(\n                map(\n                    to_code,\n',
    mention=("joined",),
)
mut(
    "c05-hybrid-assignment-handed-to-the-table-parser",
    "C05",
    "C05.hybrid",
    "cdd/sqlalchemy/parse.py",
    "        table.value if isinstance(table, Assign) else table\n",
    "        table\n",
    mention=("__table__",),
)
mut(
    "c05-id-column-looked-up-in-the-wrong-mapping",
    "C05",
    "C05.pk",
    "cdd/sqlalchemy/utils/emit_utils.py",
    '        elif "id" in params:\n',
    '        elif "id" in intermediate_repr.get("params", iter(())):\n',
    mention=("mapping",),
)
mut(
    "c03-exmod-pydantic-name-keyword-dropped-from-the-table",
    "C03",
    "C03.dispatch",
    "cdd/compound/exmod_utils.py",
    '                        "pydantic": "class",\n',
    "",
    mention=("pydantic_name",),
)
mut(
    "c16-class-schema-key-recapitalised",
    "C16",
    "C16.keys",
    "cdd/compound/openapi/gen_openapi.py",
    "                                else (node.name, cdd.sqlalchemy.parse.sqlalchemy(node))\n",
    "                                else (node.name.title(), cdd.sqlalchemy.parse.sqlalchemy(node))\n",
    mention=("title",),
)
mut(
    "c16-routes-appended-without-leading-newline",
    "C16",
    "C16.append",
    "cdd/compound/openapi/gen_routes.py",
    '        f.write("\\n\\n")\n',
    "",
    mention=("glued",),
)
mut(
    "c12-missing-file-created-without-name-options",
    "C12",
    "C12.create",
    "cdd/shared/conformance.py",
    "                **_default_options(node=None, search=search, type_wanted=type_wanted)()\n",
    "",
    mention=("_default_options",),
)
mut(
    "c02-default-classified-by-exact-type",
    "C02",
    "C02.exacttype",
    "cdd/shared/ast_utils.py",
    '                        or isinstance(_param["default"], (float, int, str))\n',
    '                        or type(_param["default"]) in (float, int, str)\n',
    mention=("bool",),
)
mut(
    "c13-receiver-added-back-for-self-only",
    "C13",
    "C13.index",
    "cdd/shared/ast_utils.py",
    '                            and node.args.args[0].arg in frozenset(("self", "cls"))\n',
    '                            and node.args.args[0].arg == "self"\n',
    mention=("receiver",),
)
mut(
    "c11-loop-until-a-function-stops-finding-its-marker",
    "C11",
    "C11.progress",
    "cdd/shared/defaults_utils.py",
    """        _param["doc"] = extract_default(
            _param["doc"], emit_default_doc=emit_default_doc
        )[0]
""",
    """        while "Defaults" in _param["doc"] or "defaults" in _param["doc"]:
            _param["doc"] = extract_default(
                _param["doc"], emit_default_doc=emit_default_doc
            )[0]
""",
)
mut(
    "c05-fk-marker-cut-with-a-character-set",
    "C05",
    "C05.strip",
    "cdd/sqlalchemy/utils/emit_utils.py",
    '        fk_val: str = _param["doc"][len("[FK(") : end - len(")]")]\n',
    '        fk_val: str = _param["doc"][: end - len(")]")].lstrip("[FK(")\n',
)
mut(
    "c02-default-membership-in-a-frozenset-again",
    "C02",
    "C02.hashable",
    "cdd/shared/docstring_parsers.py",
    '    was_none = was.get("default") in (cdd.shared.ast_utils.NoneStr, "None")\n',
    '    was_none = was.get("default") in frozenset((cdd.shared.ast_utils.NoneStr, "None"))\n',
    mention=("unhashable",),
)
mut2(
    "c19-refusal-skipped-for-every-later-phase-again",
    "C19",
    "C19.guard",
    [
        {
            "file": "cdd/__main__.py",
            "old": '            args.phase > 0\n            and args.emit_name.startswith("sqlalchemy")\n',
            "new": "            args.phase > 0\n",
        }
    ],
    mention=("--phase",),
)
mut(
    "c16-crud-choices-lose-a-subset",
    "C16",
    "C16.crud",
    "cdd/__main__.py",
    'choices=("CRUD", "CR", "C", "R", "U", "D", "RD", "CU", "CD", "CRD"),',
    'choices=("CRUD", "CR", "C", "R", "U", "D", "CU", "CD", "CRD"),',
    mention=("RD",),
)
mut2(
    "c16-handlers-grouped-without-sorting-again",
    "C16",
    "C16.crud",
    [
        {"file": "cdd/compound/openapi/gen_openapi.py", "old": "                    sorted(\n                        map(\n                            lambda route: (\n", "new": "                    list(\n                        map(\n                            lambda route: (\n"},
        {"file": "cdd/compound/openapi/gen_openapi.py", "old": "                        key=itemgetter(0),\n                    ),\n                    key=itemgetter(0),\n", "new": "                    ),\n                    key=itemgetter(0),\n"},
    ],
    mention=("neighbours",),
)

# ------------------------------------------------------------------------------ input mutation (round 6)
LINE_COPY = "    intermediate_repr = deepcopy(intermediate_repr)\n"
for _mid, _prop, _rule, _file, _anchor, _mention in (
    ("c10-json-schema-emitter-rewrites-the-callers-params-again", "C10", "C10.inputmut", "cdd/json_schema/emit.py", "    if identifier is None:\n", ("param2json_schema_property",)),
    ("c06-json-schema-second-emission-again", "C06", "C06.inputmut", "cdd/json_schema/emit.py", "    if identifier is None:\n", ("param2json_schema_property",)),
    ("c12-class-emitter-moves-returns-of-the-shared-truth-again", "C12", "C12.shared", "cdd/class_/emit.py", '    assert class_name or intermediate_repr["name"], "Class has no name"\n', ("class_",)),
    ("c10-argparse-emitter-setdefaults-on-the-callers-params-again", "C10", "C10.inputmut", "cdd/argparse_function/emit.py", '    function_name: Optional[str] = function_name or intermediate_repr["name"]\n', ("param2argparse_param",)),
    ("c10-docstring-emitter-rewrites-doc-in-place-again", "C10", "C10.inputmut", "cdd/docstring/emit.py", '    params = "\\n{maybe_nl}".format(\n', ("set_default_doc",)),
):
    mut(_mid, _prop, _rule, _file, LINE_COPY + _anchor, _anchor, mention=_mention)
mut(
    "c10-sqlalchemy-table-emitter-adds-the-synthetic-pk-to-the-callers-params-again",
    "C10",
    "C10.inputmut",
    "cdd/sqlalchemy/emit.py",
    LINE_COPY + "    return Assign(\n",
    "    return Assign(\n",
    mention=("ensure_has_primary_key",),
)
mut(
    "c10-shallow-copy-still-shares-the-parameter-mappings",
    "C10",
    "C10.inputmut",
    "cdd/json_schema/emit.py",
    LINE_COPY + "    if identifier is None:\n",
    "    intermediate_repr = dict(intermediate_repr)\n    if identifier is None:\n",
    mention=("param2json_schema_property",),
)
mut(
    "c10-sqlalchemy-class-parser-inserts-into-the-callers-tree-again",
    "C10",
    "C10.inputmut",
    "cdd/sqlalchemy/utils/emit_utils.py",
    """        return Call(
            func=assign.value.func,
            args=[cdd.shared.ast_utils.set_value(assign.targets[0].id)]
            + assign.value.args,
            keywords=assign.value.keywords,
            lineno=None,
            col_offset=None,
        )
""",
    """        assign.value.args.insert(
            0, cdd.shared.ast_utils.set_value(assign.targets[0].id)
        )
        return assign.value
""",
    mention=("insert",),
)
mut(
    "c12-appended-target-glued-to-the-last-line-again",
    "C12",
    "C12.append",
    "cdd/shared/emit/file.py",
    '                    src = "\\n\\n" + src\n',
    "                    pass\n",
    mention=("line of its own",),
)
mut(
    "c06-format-written-but-never-read-again",
    "C06",
    "C06.vocab",
    "cdd/json_schema/utils/parse_utils.py",
    '''    if _param.pop("format", None) == "date-time" and _param.get("type") == "string":
        # what the emitter writes for a `datetime`
        del _param["type"]
        _param["typ"] = "datetime"
    elif _param.get("type"):
''',
    '''    if _param.get("type"):
''',
    mention=("format",),
)
