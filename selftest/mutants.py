"""
Mutant catalogue: behaviour-breaking edits that keep the package importable (and, by construction,
touch paths the 352 baseline tests do not pin). Each entry:
  id, prop, rule (substring that must appear in the report line), mention (fragments naming the
  construct), edits [{file, old, new}]
"""

M = []


def mut(mid, prop, rule, file, old, new, mention=(), expect=None):
    """register a single-edit mutant"""
    M.append(
        {
            "id": mid,
            "prop": prop,
            "rule": rule,
            "mention": list(mention),
            "edits": [{"file": file, "old": old, "new": new}],
            "expect": expect,
        }
    )


def mut2(mid, prop, rule, edits, mention=(), expect=None):
    """register a multi-edit mutant"""
    M.append({"id": mid, "prop": prop, "rule": rule, "mention": list(mention), "edits": edits, "expect": expect})


CST = "cdd/shared/cst_utils.py"
# ------------------------------------------------------------------------------ C09
mut(
    "c09-comment-arm-no-clear",
    "C09",
    "C09.conserve",
    CST,
    """        if is_comment:
            scanned.append(statement)
            stack.clear()
""",
    """        if is_comment:
            scanned.append(statement)
""",
)
mut(
    "c09-no-final-flush-in-scan",
    "C09",
    "C09.conserve.O4",
    CST,
    """            if expression:
                add_and_clear(expression_str, expression, scanned, stack)
""",
    """            if expression:
                pass
""",
)
mut(
    "c09-no-residual-flush",
    "C09",
    "C09.conserve.O4",
    CST,
    """    if stack:
        scanned.append("".join(stack))
    return scanned
""",
    """    return scanned
""",
)
mut(
    "c09-emit-stripped",
    "C09",
    "C09.conserve.O5",
    CST,
    """        else:
            scanned.append(statement)
            stack.clear()
""",
    """        else:
            scanned.append(statement_stripped)
            stack.clear()
""",
)
mut(
    "c09-conditional-push",
    "C09",
    "C09.conserve.O1",
    CST,
    """            cst_scan(scanned, stack)
        stack.append(ch)
""",
    """            cst_scan(scanned, stack)
        if ch != "\\r":
            stack.append(ch)
""",
)
mut(
    "c09-helper-no-stack-clear",
    "C09",
    "C09.conserve",
    CST,
    """                expr.clear()
                the_stack.clear()
""",
    """                expr.clear()
""",
)
mut(
    "c09-value-rstrip",
    "C09",
    "C09.lines",
    CST,
    """        value=statement,
""",
    """        value=statement.rstrip(" "),
""",
)
mut(
    "c09-acc-splitlines",
    "C09",
    "C09.lines",
    CST,
    """    state["acc"] += statement.count("\\n")""",
    """    state["acc"] += len(statement.splitlines()) - 1""",
)
mut(
    "c09-parser-skips-empty",
    "C09",
    "C09.lines",
    CST,
    """deque(map(partial(cst_parse_one_node, state=state), scanned), maxlen=0)""",
    """deque(map(partial(cst_parse_one_node, state=state), filter(None, scanned)), maxlen=0)""",
)
mut(
    "c09-drain-skips-cr",
    "C09",
    "C09.conserve.O1",
    CST,
    """            for idx, ch in enumerate(statement):
                expression.append(ch)
""",
    """            for idx, ch in enumerate(statement):
                if ch == "\\x0c":
                    continue
                expression.append(ch)
""",
)

MUTANTS = M
