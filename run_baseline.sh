#!/bin/bash
# Runs the repository's pinned baseline (guard OFF: there are no hooks) and compares with BASELINE.json stable_pass.
out=${1:-/tmp/cdd_baseline.junit.xml}
cd /repo && /venv/bin/python -m pytest -ra -q -p no:cacheprovider --timeout=900 --continue-on-collection-errors --junitxml="$out" >/tmp/cdd_baseline.log 2>&1
/venv/bin/python - "$out" <<'PY'
import json,sys,xml.etree.ElementTree as ET
base=json.load(open('/root/.vp/BASELINE.json'))
want=set(base['stable_pass'])
t=ET.parse(sys.argv[1])
got=set()
for tc in t.iter('testcase'):
    if not any(c.tag in('failure','error','skipped') for c in tc):
        got.add(tc.get('classname')+'::'+tc.get('name'))
miss=sorted(want-got)
print('stable_pass',len(want),'passing now',len(got),'missing',len(miss))
for m in miss[:20]: print('  MISSING',m)
sys.exit(1 if miss else 0)
PY
