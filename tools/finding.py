#!/venv/bin/python
"""append an entry to known_findings.json:  finding.py PROP STATUS COMMIT RULE MODULE FUNCTION CONSTRUCT WHAT"""
import json, sys, os
p = os.path.join(os.path.dirname(os.path.dirname(os.path.abspath(__file__))), "known_findings.json")
d = json.load(open(p))
prop, status, commit, rule, module, function, construct, what = sys.argv[1:9]
e = {"property": prop, "status": status, "rule": rule, "module": module, "function": function, "construct": construct, "what": what}
if commit and commit != "-":
    e["commit"] = commit
    e["what"] = "fixed: property={} {} {}".format(prop, commit, what)
d["findings"].append(e)
json.dump(d, open(p, "wt"), indent=1)
open(p, "a").write("\n")
print("added", prop, status, rule)
