#!/bin/bash
# tools/try_neutral.sh <dir with change_i/patch.diff> : apply each behaviour-preserving patch to /repo, run ALL checks, revert
base=$1
for d in $base/change_*; do
  [ -f $d/patch.diff ] || continue
  if ! git -C /repo apply --check $d/patch.diff 2>/dev/null; then echo "$(basename $base)/$(basename $d) DOES-NOT-APPLY"; continue; fi
  git -C /repo apply $d/patch.diff
  tmp=$(mktemp -d)
  res=""
  for P in C01 C02 C03 C04 C05 C06 C07 C08 C09 C10 C11 C12 C13 C14 C15 C16 C17 C18 C19 C20; do
    ( /verif/check $P --quiet --evidence-dir $tmp/ev > $tmp/$P.out 2>&1; echo $? > $tmp/$P.rc ) &
  done
  wait
  for P in C01 C02 C03 C04 C05 C06 C07 C08 C09 C10 C11 C12 C13 C14 C15 C16 C17 C18 C19 C20; do
    rc=$(cat $tmp/$P.rc)
    if [ "$rc" != "0" ]; then res="$res $P=$rc"; echo "---- $(basename $base)/$(basename $d) $P exit $rc"; grep -v "^KNOWN" $tmp/$P.out | cut -c1-400 | head -6; fi
  done
  echo "$(basename $base)/$(basename $d) alarms:${res:- none}"
  rm -rf $tmp
  git -C /repo checkout -- .
done
