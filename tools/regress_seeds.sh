#!/bin/bash
# re-run every packaged seed against its property's check; prints one line per seed
for d in /verif/seeded/*; do
  id=$(basename $d); p=${id%%_*}
  if grep -q neutralised_by_fix $d/meta.json 2>/dev/null; then echo "$id neutralised by a fix: no longer breaks the property"; continue; fi
  out=$(/verif/tools/try_seed.sh $d/patch.diff $p 2>&1 | head -1)
  echo "$id ${out:-exit 0 (missed)}"
done
