#!/bin/bash
# usage: try_seed.sh <patch.diff> [prop ...]   -- apply a seeded change to /repo, run checks, undo
patch=$1; shift
props=${@:-$(/venv/bin/python -c "import json;print(' '.join(c['property_id'] for c in json.load(open('/verif/MANIFEST.json'))['checks']))")}
cd /repo || exit 2
if [ -n "$(git status --short)" ]; then echo "/repo not clean"; exit 2; fi
git apply "$patch" || { echo "patch does not apply"; exit 2; }
evd=$(mktemp -d)
for p in $props; do
  out=$(/verif/check $p --evidence-dir $evd --quiet 2>&1); rc=$?
  if [ $rc -ne 0 ]; then echo "== $p exit $rc"; echo "$out" | grep -v "^KNOWN-FINDING" | head -8 | cut -c1-400; fi
done
rm -rf $evd
git checkout -- . ; git status --short
