#!/bin/bash
# confirm_neutral.sh <ID>: in worktree /tmp/wtn_<ID> apply each neutral patch, run the pinned suite, compare with stable_pass
P=$1; wt=${WT:-/tmp/wtn_}$P
for d in ${OUT:-/tmp/neutral_out}/$P/change_*; do
  i=$(basename $d)
  git -C $wt checkout -q -- . ; git -C $wt apply $d/patch.diff || { echo "$P $i DOES-NOT-APPLY"; continue; }
  (cd $wt && PYTHONPATH=$wt /venv/bin/python -m pytest -q -p no:cacheprovider --timeout=900 --continue-on-collection-errors --junitxml=${OUT:-/tmp/neutral_out}/${P}_$i.xml >/dev/null 2>&1)
  /venv/bin/python - ${OUT:-/tmp/neutral_out}/${P}_$i.xml "$P $i" <<'PY'
import json,sys,xml.etree.ElementTree as ET
want=set(json.load(open('/root/.vp/BASELINE.json'))['stable_pass'])
got=set()
for tc in ET.parse(sys.argv[1]).iter('testcase'):
    if not any(c.tag in('failure','error','skipped') for c in tc): got.add(tc.get('classname')+'::'+tc.get('name'))
print(sys.argv[2], "baseline_tests_missing=%d"%len(want-got))
PY
  git -C $wt checkout -q -- .
done
