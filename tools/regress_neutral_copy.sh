#!/bin/bash
# like regress_neutral.sh but on a scratch copy of /repo/cdd (so /repo stays free for other work): every packaged
# behaviour-preserving change is applied to a copy, ALL checks run with --root <copy>; any non-zero exit is a false alarm
fail=0
for d in ${NEUTRAL_GLOB:-/verif/neutral/*}; do
  [ -f $d/patch.diff ] || continue
  id=$(basename $d)
  tmp=$(mktemp -d /tmp/nrc_XXXXXX)
  git -C /repo archive HEAD cdd setup.py requirements.txt | tar -x -C $tmp
  if ! (cd $tmp && git apply --unsafe-paths $d/patch.diff 2>/dev/null); then echo "$id does not apply (skipped)"; rm -rf $tmp; continue; fi
  res=""
  for P in ${CHECKS:-C01 C02 C03 C04 C05 C06 C07 C08 C09 C10 C11 C12 C13 C14 C15 C16 C17 C18 C19 C20}; do
    ( /verif/check $P --quiet --root $tmp --evidence-dir $tmp/ev > $tmp/$P.out 2>&1; echo $? > $tmp/$P.rc ) &
  done
  wait
  for P in ${CHECKS:-C01 C02 C03 C04 C05 C06 C07 C08 C09 C10 C11 C12 C13 C14 C15 C16 C17 C18 C19 C20}; do
    rc=$(cat $tmp/$P.rc); [ "$rc" != "0" ] && { res="$res $P=$rc"; fail=1; grep -v "^KNOWN" $tmp/$P.out | head -3 | cut -c1-300 | sed "s/^/    /"; }
  done
  echo "$id alarms:${res:- none}"
  rm -rf $tmp
done
exit $fail
