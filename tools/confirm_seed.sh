#!/bin/bash
# usage: confirm_seed.sh <ID>   -- confirms every $OUT/<ID>/change_*/ in worktree /tmp/wt_<ID>
# For each change: demo on clean tree must exit 0; with patch non-zero; baseline stable_pass tests must all still pass.
ID=$1
OUT=${SEED_OUT:-/tmp/seed_out}
WT=${SEED_WT:-/tmp/wt_}$ID
cd $WT || exit 2
git checkout -q -- . ; git clean -fdq
for d in $OUT/$ID/change_*; do
  [ -f $d/patch.diff ] || continue
  n=$(basename $d)
  cp $d/demo.py $WT/_demo_seed.py
  ( cd $WT && PYTHONPATH=$WT timeout 300 /venv/bin/python _demo_seed.py >$OUT/$ID/$n.clean.out 2>&1 ); rc_clean=$?
  git apply $d/patch.diff || { echo "$ID $n PATCH-DOES-NOT-APPLY"; rm -f $WT/_demo_seed.py; continue; }
  ( cd $WT && PYTHONPATH=$WT timeout 300 /venv/bin/python _demo_seed.py >$OUT/$ID/$n.patched.out 2>&1 ); rc_patched=$?
  rm -f $WT/_demo_seed.py
  ( cd $WT && PYTHONPATH=$WT /venv/bin/python -m pytest -q -p no:cacheprovider --timeout=900 --continue-on-collection-errors --junitxml=$OUT/$ID/$n.junit.xml >$OUT/$ID/$n.suite.log 2>&1 )
  miss=$(/venv/bin/python - $OUT/$ID/$n.junit.xml <<'PY'
import json,sys,xml.etree.ElementTree as ET
want=set(json.load(open('/root/.vp/BASELINE.json'))['stable_pass'])
got=set()
for tc in ET.parse(sys.argv[1]).iter('testcase'):
    if not any(c.tag in('failure','error','skipped') for c in tc): got.add(tc.get('classname')+'::'+tc.get('name'))
print(len(want-got))
PY
)
  git checkout -q -- . ; git clean -fdq
  echo "$ID $n demo_clean=$rc_clean demo_patched=$rc_patched baseline_tests_missing=$miss"
done
