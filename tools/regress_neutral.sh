#!/bin/bash
# apply every packaged behaviour-preserving change to /repo in turn, run ALL checks, revert; any non-zero exit is a false alarm
fail=0
for d in /verif/neutral/*; do
  [ -f $d/patch.diff ] || continue
  id=$(basename $d)
  if ! git -C /repo apply --check $d/patch.diff 2>/dev/null; then echo "$id does not apply to the current tree (skipped)"; continue; fi
  git -C /repo apply $d/patch.diff
  tmp=$(mktemp -d); res=""
  for P in C01 C02 C03 C04 C05 C06 C07 C08 C09 C10 C11 C12 C13 C14 C15 C16 C17 C18 C19 C20; do
    ( /verif/check $P --quiet --evidence-dir $tmp/ev > $tmp/$P.out 2>&1; echo $? > $tmp/$P.rc ) &
  done
  wait
  for P in C01 C02 C03 C04 C05 C06 C07 C08 C09 C10 C11 C12 C13 C14 C15 C16 C17 C18 C19 C20; do
    rc=$(cat $tmp/$P.rc); [ "$rc" != "0" ] && { res="$res $P=$rc"; fail=1; }
  done
  echo "$id alarms:${res:- none}"
  rm -rf $tmp; git -C /repo checkout -- .
done
exit $fail
