#!/bin/bash
# for each detected seed S and each neutral patch N touching a common file: apply N then S (if both apply), run S's property check
out=${1:-/tmp/cross.txt}; : > $out
for sd in /verif/seeded/*; do
  sid=$(basename $sd); p=${sid%%_*}
  grep -q neutralised_by_fix $sd/meta.json && continue
  grep -q '"check_result": "== C[0-9]* exit 1' $sd/meta.json || continue
  sfiles=$(grep '^+++ b/' $sd/patch.diff | sed 's#+++ b/##' | sort -u)
  for nd in /verif/neutral/*; do
    nid=$(basename $nd)
    common=0
    for f in $sfiles; do grep -q "^+++ b/$f" $nd/patch.diff && common=1; done
    [ $common = 1 ] || continue
    git -C /repo apply --check $nd/patch.diff 2>/dev/null || continue
    git -C /repo apply $nd/patch.diff
    if git -C /repo apply --check $sd/patch.diff 2>/dev/null; then
      git -C /repo apply $sd/patch.diff
      tmp=$(mktemp -d)
      /verif/check $p --quiet --evidence-dir $tmp > $tmp/out 2>&1; rc=$?
      echo "$sid + $nid -> $p exit $rc" >> $out
      rm -rf $tmp
    fi
    git -C /repo checkout -- .
  done
done
echo done >> $out
