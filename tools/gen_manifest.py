#!/venv/bin/python
"""Regenerates /verif/MANIFEST.json from the table below (single source of truth)."""

import json
import os

HERE = os.path.dirname(os.path.dirname(os.path.abspath(__file__)))

# property id -> (technique, level text, level note, design ref)
CLAIMED = {}

NOT_APPLICABLE = {}

PENDING = "not claimed (yet): the static rule set for this property is designed in DESIGN.md §2 but no check is registered"


def claim(pid, technique, text, note, ref):
    """register"""
    CLAIMED[pid] = (technique, text, note, ref)


claim(
    "C18",
    "abstract interpretation of the CPython import protocol over import-time events extracted from "
    "every module body (ast), including the bodies of repository functions called at import time "
    "(constant-folded arguments); exhaustive over start modules and ordered pairs",
    "Decides, from source alone, whether `import m` in a fresh interpreter raises ImportError / "
    "AttributeError because of circular imports, for every non-test start module (exhaustive) and for "
    "ordered pairs (quick: all pairs touching an import cycle + seeded sample; thorough: all N x N), and "
    "that both orders bind the same names. Complete for the modelled protocol; reports the failing "
    "statement, import stack and error. Plus: third-party module-level imports are declared or guarded.",
    "Assumes external (non-cdd) modules import; walks all arms of module-level if/try; models "
    "sys.modules, partially-initialised modules, from-import submodule fallback and "
    "bind-child-on-parent-at-completion; function bodies run when a module-level statement calls them "
    "(local imports, module attribute chains, globals of a loading module, nested calls to depth 6, "
    "import_module of a folded name); other exceptions are not modelled.",
    "DESIGN.md §2 C18",
)

claim(
    "C20",
    "may-write least fixpoint over the resolved reference graph + guard-dominance walk "
    "(dry_run / proceed, truth table of the gate) + def-use path provenance with a depth abstraction + "
    "recognition of the already-in-file guard that protects a source module",
    "Decides 'no file-system mutation of the sink inventory can execute when dry_run is true': every "
    "write site in every function reachable from exmod is dominated by dry_run == False or forwards the "
    "caller's dry_run into a callee that is checked the same way (complete for the inventory). Decides "
    "the blacklist/whitelist gate dominance in exmod_single_folder. Necessary part of containment: every "
    "write path is rooted at exmod's output_directory and never climbs above it (join +n / dirname -1 "
    "abstraction, guard-sensitive). C20.srcguard: emission into an existing file (for a package outside "
    "site-packages that file is the source module) is dominated by `no top-level node of that file has the "
    "symbol's name`.",
    "Trusted: the sink inventory in sa/effects.py; third-party callees (find_packages, black) do not "
    "write; import-system side effects (__pycache__ via find_spec) are outside the inventory. Not "
    "decided: later path components being absolute or '..' (run-time strings); validity of generated "
    "files; __all__ contents.",
    "DESIGN.md §2 C20",
)

claim(
    "C11",
    "while-loop progress analysis (exit-relevant vs iteration-constant names on every back-edge path), "
    "ranking-idiom recognition, divergence of != tests against monotone updates, delegated-termination "
    "detection, infinite-iterator bounding, unchanged-argument recursion, parse-tree check of regex literals "
    "for exponential backtracking",
    "Sound detector of loops that cannot make progress: for every `while` in the package (complete "
    "enumeration), on every path to the back edge some exit-relevant, non-iteration-constant name must be "
    "updated; otherwise the loop repeats one state forever. Loops with a recognised ranking idiom are "
    "proved terminating; the rest are listed as unproved (not reported). Infinite iterators must be "
    "bounded; self-recursion must change an argument. A `!=` exit test against a one-directional update "
    "without a direction guard, and a loop whose termination is delegated to a repository callee, are "
    "reported. Every pattern handed to `re` is folded and checked (re._parser, nothing matched) for nested "
    "unbounded repeats with optional surroundings.",
    "Assumes loop tests/guards are side-effect free (allow-list checked), library calls terminate, and "
    "Python's recursion limit bounds recursion. 'Time proportional to input size' is NOT decided. "
    "Value-level non-termination (an update that happens to be zero) is not decided.",
    "DESIGN.md §2 C11",
)

claim(
    "C10",
    "hash-order taint analysis (set-typed expression inference, inter-procedural parameter/return "
    "propagation, context classification), mutable-default write-through, module-state writes, "
    "constant-folded cross-module table writes, non-deterministic API inventory, inter-procedural input-mutation "
    "analysis (views (parameter, nesting level, fresh copy depth) through subscripts, items(), map/lambda, partial, "
    "shallow and deep copies; least-fixpoint mutation and return summaries)",
    "Decides, for the three sources the property names (hash seed, call count, call history): no set / "
    "keys()-algebra iteration order reaches an ordered result (taint with order-free contexts enumerated); "
    "no mutable default argument is written through; no function writes module-level state; import-time "
    "writes into another module's table are idempotent w.r.t. the owner's own table; no random/time/uuid/"
    "id/hash API on any path; no public emitter mutates the interface description it is handed and no public parser "
    "mutates the syntax tree it is handed (a second call with the same object, or another conversion run on it "
    "afterwards, would see a different input). Complete for the recognised set-typed sources; a set reaching the code "
    "through an opaque value (e.g. a parameter never passed a set inside the package) is not seen.",
    "Trusted: the order-free context table in sa/setorder.py; one symbol-wide suppression "
    "(_join_non_none: key order inside a ParamVal is never observed). Environment variables read at "
    "import are configuration. File-system listing order is reported as a note only.",
    "DESIGN.md §2 C10",
)

claim(
    "C17",
    "complete EXEC/FSWRITE sink inventory on resolved callees with per-sink discharge (closed constant, "
    "dispatch shape, opt-in guard dominance, who-may-call table), reference-graph reachability from every "
    "entry point, character-set abstract interpretation of the doc-derived eval argument, def-use path roots",
    "Decides 'no execution / import / spawn / network / stray write' for the sink inventory: every sink in "
    "non-test code is enumerated on each run and must be discharged; parsers/emitters/doctrans/sync reach only "
    "the justified ones; parsers and AST emitters reach no write sink; commands write only paths rooted at "
    "their output parameters. Decides that the one doc-derived string handed to eval is confined to an "
    "alphabet without ( ) _ = : @ { } \\ (flow-insensitive, guard-refined charset interpretation of "
    "parse_adhoc_doc_for_typ and helpers) — a necessary and, under the stated assumption, sufficient "
    "condition for the eval not to call or import anything.",
    "Trusted: the sink inventory (sa/effects.py); third-party callees are not analysed; an expression over "
    "the bounded alphabet can only look names/attributes/subscripts up. exmod is outside the property's entry "
    "list. Reference graph over-approximates calls (mentions count).",
    "DESIGN.md §2 C17",
)

claim(
    "C19",
    "guard-fact dominance, write-mode inventory over the reference graph, def-use equality of the "
    "templated name, three-valued branch evaluation of the identifier sanitiser, module-state rules on the "
    "per-entry slice, partial evaluation (constant folding) of the dispatch helpers per CLI kind with "
    "signature checks",
    "Decides: the refuse-if-exists test dominates the call to gen in main and its true arm raises; every "
    "write reachable from gen outside the phase>0 arm is append-mode (together: gen never truncates an "
    "existing file); __all__ receives exactly the expression handed to the emitter (sanitiser included), once "
    "per input element; the sanitiser is the identity on every ASCII identifier that is not a hard keyword; no "
    "function of the per-entry pipeline keeps module-level state or memoises; for each of the 8 CLI emit kinds the emitter resolves, get_emit_kwarg has the key, the "
    "keywords are parameters of the resolved emitter and its required parameters are supplied (exhaustive "
    "over the finite kind set); the keyword carrying the templated name is the one that names the emitted "
    "symbol; `__future__` imports are ordered first (sorted / list.sort key and direction, or partition order); the "
    "per-symbol results of infer_imports (None for an import-free symbol) pass a None filter before they are "
    "iterated, and the rendered import statements are joined by a statement separator; the invocations for which main "
    "skips the refusal are exactly those for which gen takes its update arm (both conditions folded over phase x emit kind); the "
    "mapping main splats into gen hands output_filename through unchanged (the path written is the path the refusal tested); no "
    "local cache in the gen pipeline is keyed by a lossy projection (type(v), an attribute) of the object its value is computed from.",
    "NOT decided: that the written module compiles for every input, that each generated symbol re-parses "
    "to its source entry, completeness of import inference (value level). Trusted: folding of the repo's "
    "own tables from source.",
    "DESIGN.md §2 C19",
)

claim(
    "C03",
    "partial evaluation (constant folding) of dispatch-by-name for every CLI kind and every infer() result; "
    "table/choices set comparison; IR literal vocabulary; folded None sentinels",
    "Decides necessary conditions only: every kind the CLI admits (and every constant infer can return) "
    "dispatches to a parser/emitter module and attribute that exist (exhaustive over the finite kind set); "
    "`sync --truth` choices are keys of the conformance table; every IR dict literal in the parsers uses "
    "only IntermediateRepr keys; the three None sentinels agree in every version branch; for every exmod emit kind "
    "the keyword under which _emit_symbol passes the symbol's name (folded per kind) is a parameter of the resolved "
    "emitter; single-hop conditions shared with C02 (Optional decision, truthiness of defaults, escape pairs, exact "
    "type tests on defaults). A conversion chain cannot preserve anything through a hop whose dispatch raises.",
    "NOT decided: commutation of conversions and equality of the interface after several hops (value "
    "level, quantified over histories) — no static argument in reach bounds it.",
    "DESIGN.md §2 C03",
)

claim(
    "C09",
    "typestate abstract interpretation (buffer conservation) of the scanner on all paths + structural line "
    "accounting of the parser + guard dominance of find()-derived slice bounds in the scanner",
    "Proves, from the shape of the code on every path, the invariant concat(scanned) + ''.join(stack) == "
    "source[:i] for cst_scanner/cst_scan (push-all, no loss, no duplication, final flush, output purity; "
    "helper summary derived from add_and_clear; loop-head fixpoint; derived all-or-nothing summary of "
    "cst_scan), and that node texts are exactly the scanner's chunks with line ranges that start at 1 and "
    "advance by the chunk's newline count, for every scanned chunk in order. Together: losslessness and "
    "tiling for every input string, which the scanner never inspects to compute output text.",
    "Assumes Python list/str semantics (appending characters and joining reproduces text) and that the "
    "strip()/balanced_parentheses predicates are pure (they only choose branches; output purity is checked). "
    "A restructured scanner yields exit 2.",
    "DESIGN.md §2 C09",
)

claim(
    "C14",
    "abstract interpretation of dict shapes (must-key analysis with inter-procedural return / ensures / "
    "returns-own-parameter summaries) over every public parser; provenance of parameter-entry dicts; "
    "ast.arguments field coverage",
    "Decides, on every return path of the nine public parsers (and the helpers whose result they return), "
    "that the IR certainly has name, doc and params and no key outside the IntermediateRepr TypedDict; that "
    "constant keys written into parameter entries are in {typ, doc, default, x_typ}; that a parameter entry "
    "adopted from a foreign-vocabulary object (Column keywords, JSON property) passes a whitelist and that a "
    "foreign key such a producer translates away is removed whenever present (not whenever truthy) and is "
    "certainly absent at EVERY exit once it is removed on some path (inter-procedural must-be-absent key "
    "typestate: callee / nested-helper summaries, literal loops unrolled, short-circuit aware); that "
    "names taken from source are stripped of leading asterisks; that function.parse reads every "
    "parameter-carrying field of ast.arguments; that the one type string made up from prose (the result of "
    "parse_adhoc_doc_for_typ) passes eval / ast.parse / compile before it is stored as an entry's typ; that a "
    "description taken out of a syntax node with get_value(E) is guarded by isinstance(E, Constant) (directly or "
    "through the predicate functions guarding the arm).",
    "NOT decided: that every other typ string parses as a Python expression, uniqueness of names coming out of free "
    "text, that description values are str on every path (value level). Keys added inside loops/try bodies "
    "are not counted as certainly present (may under-approximate must-keys -> exit 1 only when a key is "
    "missing on a straight-line path).",
    "DESIGN.md §2 C14",
)

claim(
    "C06",
    "constant folding of the JSON type tables; path enumeration with guard facts of the required/Optional "
    "logic; local type inference of the top-level schema literal; separator constant agreement; "
    "must-be-absent typestate of constant dict keys (stale guards)",
    "Decides necessary parts: typ2json_type (a comprehension inverse, folded) maps every JSON-representable "
    "domain type to one of the seven JSON-Schema type names and json_type2typ maps it back; on every one of "
    "the paths of param2json_schema_property a property is appended to `required` exactly once when typed "
    "and not Optional and never when Optional; the top-level literal has $schema = draft 2020-12 URI, type "
    "object, properties dict, required list and a description that is a str on every path (never None); the "
    "Literal<->pattern separator constant agrees between emitter and parser and members are sorted; no test in "
    "the property translators reads a key (e.g. `typ` after it was renamed to `type`) that is certainly absent "
    "where it is read — such a guard is constant; no function of the JSON-schema emit/parse pipeline keeps module-level "
    "state, memoises or shares a mutable default (C10's call-history rules on that slice).",
    "NOT decided: validation of arbitrary defaults against their property schema; that parsing the emitted "
    "schema back yields the same interface (value level).",
    "DESIGN.md §2 C06",
)

claim(
    "C02",
    "structural recognisers on resolved names and def-use chains; vocabulary extraction by syntactic role "
    "(writer/reader agreement); truthiness-context lint on default values",
    "Decides necessary parts that the suite's all-defaults / no-defaults mocks never distinguish: left "
    "padding of defaults by len(args)-len(defaults) and a common pairing index in function.parse; common "
    "source iterable and joint routing of args/defaults in function.emit; constants of the emitted argparse "
    "call equal those the recognisers test; node classes built by param2ast are handled by the class parser; "
    "the six interface-carrying add_argument keywords are written and read under the same names; the "
    "reader's Optional decision depends only on what the writer encodes; no parameter default is tested by "
    "truthiness, directly or through filter(None, ...) over keyword values (0 / False / '' are values); a writer "
    "that escapes characters (.replace(A, B)) has a reader that un-escapes them; no default is classified by an "
    "exact type test that names int but not bool (keyword reads are recognised in place, through lookup helpers and "
    "through dicts keyed by keyword names); no membership test hashes a parameter's default (the class parser keeps {} / [] as objects); "
    "no function of the four emit/parse pipelines keeps module-level state, memoises, or writes through / hands back a mutable default (C10's call-history rules on that slice).",
    "NOT decided: equality of the re-parsed interface for all parameter lists; nothing about types, "
    "descriptions or default values (value level). One symbol-wide exemption of the truthiness rule "
    "(function.emit's return default is code text).",
    "DESIGN.md §2 C02",
)

claim(
    "C05",
    "constant folding of the column type tables (incl. the cross-module import-time update); Column keyword "
    "vocabulary comparison; must-pass-through of ensure_has_primary_key on def-use chains; guard-fact "
    "dominance and arm exclusivity of the primary-key stores; return-path funnel of the parsers; conditions "
    "on the way to the Optional-wrapping store; must-be-absent typestate of constant dict keys",
    "Decides necessary parts: the type tables are mutually inverse on {int, float, str, bool, dict}; every "
    "Column keyword the emitters can write is read and removed by column_call_to_param; every column-emission "
    "site iterates ensure_has_primary_key(...).items() (at least one PK); each store introducing a PK marker "
    "is dominated by the absence test and the stores are mutually exclusive (at most one more than the input "
    "had); the hybrid and class parsers return exactly the table parser's result on the class-to-table "
    "normal form, so the three variants cannot disagree on parsing; the Column reader wraps a type in Optional "
    "depending on `nullable` only (what the emitter encodes); no guard reads a key that was translated away; "
    "the hybrid `__table__ = Table(name, ...)` reaches the Table parser as the Table call (not as an assignment the "
    "parser would name `__table__` and reject); the test whether a column `id` exists looks at the mapping the "
    "synthetic `id` column is stored into; the [PK]/[FK(..)] markers are not cut with strip-family calls (character "
    "sets); the tables are inverse in both import states (with and without the OpenAPI module's update); the test that no "
    "column carries [PK] yet ranges over all parameters of the mapping the stores write to, unfiltered.",
    "NOT decided: round-trip equality for all column lists (names, order, defaults, descriptions) — value level.",
    "DESIGN.md §2 C05",
)

claim(
    "C16",
    "def/use closure of $ref templates against components stores with guard-fact implication; two "
    "independently derived CRUD tables (emitter arms vs gen_routes -> bottle -> template decorator lines); "
    "exhaustive folding of each arm's path condition over all CRUD values; placeholder / path-parameter "
    "pairing; module-state / memoisation rules on the pipeline slice",
    "Decides for cdd.compound.openapi.emit.openapi: every $ref is a constant template whose target is stored "
    "under the same key template whenever the reference is written (requestBodies through the _request_body "
    "flag, schemas unconditionally, ServerError in the initial literal) — i.e. the document is closed for "
    "every model name and CRUD subset; the operations produced are exactly C->POST collection, R->GET item, "
    "D->DELETE item, both in the OpenAPI emitter and in the generated routes, and each arm executes exactly when "
    "its letter is requested (all 15 orderings of the non-empty subsets folded); the item path's template "
    "parameter is declared as a path parameter; no function of the pipeline memoises or keeps module state "
    "(operation objects are not shared between models or documents). For openapi_bulk: the schema of a class "
    "model is filed under the class's own name, unchanged (no case-changing or renaming call on the key — the "
    "name routes refer to); routes appended to an existing routes file start on a line of their own; the column "
    "entries that become schema properties come from a producer with a whitelist (else AST-valued keywords such "
    "as server_default=Identity() make the document non-serialisable: known finding); every non-empty subset of {C,R,D} is a "
    "--crud choice; handlers are grouped per path over an iterable sorted by that path (groupby merges neighbours only); the body-name "
    "suffix is taken off at the end, not at its first occurrence.",
    "NOT decided: closure of openapi_bulk's output beyond the key rule (references come out of route docstrings at "
    "run time); JSON serialisability of arbitrary models beyond the producer rule; routes fed back describe the "
    "same model.",
    "DESIGN.md §2 C16",
)

claim(
    "C12",
    "path enumeration of visit_X methods against generic_visit's replacement rule (sibling agreement); "
    "guard-fact dominance of the writes; write-path roots and open modes over the reference graph; CLI "
    "choices vs table",
    "Decides necessary parts: every specialised visit_X of the replacing NodeTransformer applies the "
    "replacement rule or delegates to generic_visit on every non-replacing path (else targets of that node "
    "type can never be synchronised); the truncating write of an existing target is dominated by `not "
    "cmp_ast(...)` and `rewrite_at_query.replaced` (second run = no write) and creation writes by the file / "
    "node being absent; every write reachable from ground_truth goes to the loop's target filename through "
    "cdd.shared.emit.file.file, the truth file is opened read-only; every listed (kind, file) pair reaches "
    "_conform_filename (no skip that ignores the kind); nothing reachable from ground_truth memoises or keeps "
    "module state; --truth choices are table keys; every call of the emitter in _conform_filename (directly or "
    "through a **kwargs-forwarding helper) passes the name options of the requested target (_default_options), so "
    "a missing file is created under the listed name; no emitter of the conformance table mutates the interface "
    "description it is handed (sync hands the ONE parsed truth to every target in turn).",
    "NOT decided: equivalence of the re-parsed interface with the truth; idempotence of black (value level).",
    "DESIGN.md §2 C12",
)

claim(
    "C13",
    "write inventory with exact-parameter path and open modes; guard-fact dominance; replaced-flag typestate "
    "at every replacement site; index-space classification of every .defaults subscript (belief contradiction)",
    "Decides necessary parts: sync_properties performs exactly one write, to exactly output_filename, and "
    "opens the input read-only; the eval of the input module is dominated by input_eval; every replacement "
    "site of RewriteAtQuery is dominated by `not self.replaced` and raises the flag (exactly one location is "
    "replaced); every subscript of `.defaults` in the package uses a default index (argument index corrected "
    "by len(defaults) - len(args)), the belief encoded by function.parse's left padding — parameter/default "
    "alignment is preserved; annotate_ancestry and RewriteAtQuery agree on the receiver names whose position `_idx` does "
    "not count (also when the enumeration lives in a helper); a node's `_location` is compared with the whole query, "
    "never with a suffix of it; nothing reachable from sync_properties memoises or keeps module-level state (the value "
    "written is the input's current value).",
    "NOT decided: node-by-node equality of the rest of the output AST (value level).",
    "DESIGN.md §2 C13",
)

claim(
    "C07",
    "position of the single write relative to package calls; index/guard analysis of every CST-list "
    "mutation; inventory of AST attribute stores in DocTrans; ast.arguments field coverage of header "
    "re-rendering",
    "Decides necessary parts: doctrans() has one write, it is last, it opens the file in a truncating text mode "
    "and uses the handle for exactly one write() of the plain concatenation of the CST nodes' values, and nothing "
    "in the package runs once the file is truncated (so a failing conversion leaves the file byte-identical); every mutation of the CST "
    "list is at cst_idx (the def/class header located by find_cst_at_ast) or cst_idx+1, deletion/overwrite "
    "there only when that node is an existing docstring and insertion only when it is not (with C09: every "
    "other line is byte-identical); DocTrans assigns only annotations, type comments, returns, visited bodies "
    "and an arity-preserving re-map of args.args; a function that re-renders the parameter list reads all "
    "parameter-carrying fields of ast.arguments or delegates to to_code.",
    "NOT decided: that the text spliced into a header/docstring denotes the intended annotation for every "
    "program; comment preservation inside a re-rendered header (value level).",
    "DESIGN.md §2 C07",
)

claim(
    "C15",
    "def-use shape analysis of the three returned parts (plain slices at token boundaries of the same string); "
    "constant folding of the token sets the section-start scan matches by prefix / as a whole line",
    "Decides two necessary parts. (1) Every token matched by PREFIX in _get_token_start_idx is marked (':x' or "
    "'X:'), bare-word numpydoc titles are matched only as a whole, underlined line — else a header sentence starting "
    "with `Returns` / `Parameters` and all prose after it is lost in every conversion (this was a genuine defect, "
    "repaired). (2) Of the exact-concatenation clause: in "
    "parse_docstring_into_header_args_footer the header, args/returns and footer returned for one docstring "
    "must each be an untransformed slice of it, at boundaries produced by _get_token_start_idx / "
    "_get_token_last_idx of that same string; any text transformation applied to a part before the return "
    "(indent, strip, replace ...) breaks header + args + footer == original.",
    "NOT decided: that the token indices land on the right lines for every combination of blank lines and "
    "indentation; that header prose survives a style conversion and is not absorbed into a type/default "
    "(value level).",
    "DESIGN.md §2 C15",
)

claim(
    "C08",
    "enumeration of store-back growth sites over interface slots with a per-site discharge by guard-fact "
    "dominance, verified strip partner, type change, or trigger consumption",
    "Decides a necessary part: every statement that reads an interface slot (typ / doc / default), wraps it "
    "with a normalisation artefact (Optional[..], List[..], terminal full stop, ' Defaults to ', back-tick "
    "quoting, [PK]/[FK(..)] markers) and stores it back is either dominated by an atomic test that the "
    "artefact is absent, paired with a sibling that strips it (frozen table, re-verified each run), only "
    "reachable for AST-valued input (type changes to str), or removes its own trigger in the same block. An "
    "undischarged growth site is exactly what makes round n+1 differ from round n.",
    "NOT decided: idempotence of the value-level normalisers (parse_adhoc_doc_for_typ's prose heuristics, "
    "quoting of arbitrary defaults) — the equality of round n and n+1 itself. Emission templates and values "
    "freshly derived from source syntax are not growth sites.",
    "DESIGN.md §2 C08",
)

claim(
    "C01",
    "constant folding of the token / announce tables and comparison with what the emitters write; substring "
    "check across the style-detection order; shape of the if-chain classifying an untyped default",
    "Decides four NECESSARY clauses only: every field/section token the emitter writes for a style is in the "
    "table the scanner of that style keys on; no token of a style contains a token of a style that "
    "derive_docstring_format tests earlier; the ' Defaults to ' announce is one of DEFAULTS_TO_VARIANTS; an "
    "untyped default text is classified int before float with a sign-aware integer test (an int stays an int, "
    "a negative number stays negative). The first three are also exercised by the suite's mock comparisons; "
    "the fourth is not (a genuine defect there was repaired). Plus: no function of the docstring emit/parse pipeline "
    "keeps module-level state (incl. attributes on module-level functions), memoises or shares a mutable default.",
    "NOT decided — and this is most of the property: the round-trip equality itself (names, order, type "
    "strings, default values and their Python types, descriptions, return entry) over all interfaces x 3 styles "
    "x 8 flag combinations; these are run-time strings produced by index arithmetic over the input text and no "
    "structural argument in reach bounds them. The claim must not be read as covering the behaviour.",
    "DESIGN.md §2 C01 and §7.7",
)

claim(
    "C04",
    "def-use shape of the emitted function's argument/default lists; constant folding of the branch that "
    "builds a parameter's default node, evaluated for an entry without a `default` key (function and class "
    "emitters, helper calls and applied lambdas inlined); syntactic entailment between the conditions under "
    "which the argparse emitter writes `required=True` and `default=`",
    "Decides four NECESSARY clauses only: arguments and defaults of the emitted function come from one iterable "
    "and are routed to the same side of arguments(...) (else inspect.signature pairs a default with the wrong "
    "parameter); a parameter described without a default gets no default node in the emitted function, and no "
    "value in the emitted annotated class attribute; the argparse emitter never writes required=True together "
    "with default= (else parse_args([]) exits instead of yielding the described default). Three of these fail "
    "on today's tree by upstream convention pinned by the suite's mocks — each is hand-confirmed by executing the "
    "emitted code once and listed in known_findings.json. Plus: no default is classified by an exact type test that forgets "
    "bool; a writer that escapes characters has a reader that un-escapes them; the emitters keep no state between calls.",
    "NOT decided — and this is most of the property: that the emitted program compiles and, executed by CPython, "
    "has the described attributes, signature and ArgumentParser for every interface description (the oracle is the "
    "interpreter itself); type conversion (`type=bool` turns the text 'False' into True), choices, help text; "
    "unparse/re-parse equality. The claim must not be read as covering the behaviour.",
    "DESIGN.md §2 C04 and §7.9",
)


# clauses added in the last build round (DESIGN.md §7.15, §7.16), appended to the level text
EXTRA = {
    "C01": " Also decided: the docstring emitter leaves the interface description it is handed unmutated (inter-procedural "
    "input-mutation analysis, shared with C10.inputmut); needs_quoting traverses the whole type expression (ast.walk, or a "
    "recursion over every node class a type can be built from).",
    "C02": " Also decided: the class / function / argparse emitters leave the interface description they are handed unmutated "
    "(input-mutation analysis); needs_quoting traverses the whole type expression.",
    "C04": " Also decided: the class / function / argparse emitters leave the interface description they are handed unmutated; "
    "needs_quoting traverses the whole type expression.",
    "C05": " Also decided: none of the three emitters mutates the interface description it is handed (the variants are emitted one "
    "after the other from one description), and the class parser leaves the syntax tree it is handed alone.",
    "C06": " Also decided: the emitter leaves the interface description unmutated (second emission lists the same required "
    "properties); every JSON-schema keyword the property emitter writes is looked at by the property parser; no default is "
    "tested by truthiness on the way to the schema.",
    "C08": " An absence flag discharges a growth site only if the flag's own definition tests for the artefact.",
    "C11": " Steps whose sign is unknown (the value of an unknown call, a variable not computed as a length / count / find "
    "result on the path) earn no progress credit; numeric counters and str-typed parameters are not changed by being "
    "handed to a callee.",
    "C12": " Also decided: a target appended to an existing file starts on a line of its own (the file need not end in a newline).",
    "C15": " Also decided: no slice `S[:-N]` in the splitters / parsers uses an N computed in the function that may be 0 "
    "(`S[:-0]` keeps nothing).",
    "C16": " Also decided: no reader of a routes module keys a mapping by the handler's name (the templates name every handler "
    "by its CRUD verb only, so names repeat per model and per app).",
}


def main():
    """write MANIFEST.json"""
    props = [json.loads(l)["id"] for l in open(os.path.join(HERE, "properties.jsonl"))]
    checks = []
    for pid in props:
        if pid not in CLAIMED:
            continue
        technique, text, note, ref = CLAIMED[pid]
        text = text + EXTRA.get(pid, "")
        checks.append(
            {
                "property_id": pid,
                "quick_cmd": "./check {} --tier quick".format(pid),
                "thorough_cmd": "./check {} --tier thorough".format(pid),
                "evidence_file": "/verif/evidence/{}.json".format(pid),
                "replay_cmd_template": "./check {} --tier quick".format(pid),
                "engine": "sa",
                "level_claimed": {"category": "other", "text": text, "design_ref": ref},
                "level_note": note,
                "technique": "static analysis: " + technique,
            }
        )
    na = []
    for pid in props:
        if pid in CLAIMED:
            continue
        na.append({"property_id": pid, "reason": NOT_APPLICABLE.get(pid, PENDING)})
    manifest = {
        "version": 1,
        "setup_cmd": "/venv/bin/python -c \"import ast, sys; sys.exit(0)\"",
        "hooks": {
            "guard": "CDD_VERIF_HOOKS",
            "enable": "no hooks: the checks read /repo's source with the ast module and never run it; "
            "the guard variable is unused",
            "baseline_off_cmd": "/verif/run_baseline.sh",
            "source_commits": [],
            "add_only": True,
        },
        "engines": [
            {
                "name": "sa",
                "path": "/verif/sa",
                "serves_properties": sorted(CLAIMED),
                "kind_free_text": "repository-specific static analysis on the Python ast: resolver + "
                "reference graph, guard-fact path walker, effect inventory, constant folder, import "
                "protocol abstract interpreter, dict-shape abstract interpreter",
            }
        ],
        "checks": checks,
        "not_applicable": na,
        "notes": "Technique family: static analysis only. Exit codes: 0 ok, 1 VIOLATION, 2 ANALYSIS-ERROR "
        "(vanished anchor / unrecognised shape). Genuine defects: /verif/known_findings.json.",
    }
    with open(os.path.join(HERE, "MANIFEST.json"), "wt") as f:
        json.dump(manifest, f, indent=1)
        f.write("\n")
    print("claimed", sorted(CLAIMED), "n/a", [x["property_id"] for x in na])


if __name__ == "__main__":
    main()
