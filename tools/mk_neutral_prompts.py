#!/venv/bin/python
"""mk_neutral_prompts.py <wave-tag> <N> <emphasis-file> [ID ...]: writes /tmp/neutral_out<tag>/<ID>_prompt.txt and creates worktrees /tmp/wtn<tag>_<ID>"""
import json, os, subprocess, sys
tag, n, emph = sys.argv[1], sys.argv[2], open(sys.argv[3]).read().strip()
out = "/tmp/neutral_out%s" % tag
os.makedirs(out, exist_ok=True)
tpl = open("/verif/tools/prompts/neutral_template.txt").read()
only = set(sys.argv[4:])
for l in open("/verif/properties.jsonl"):
    d = json.loads(l); P = d["id"]
    if only and P not in only: continue
    wt = "/tmp/wtn%s_%s" % (tag, P)
    prop = "%s: %s\n\nSTATEMENT: %s\n\nQUANTIFIER: %s" % (P, d["title"], d["statement"], d["quantifier"]["text"])
    txt = (tpl.replace("__WT__", wt).replace("__PROPERTY__", prop).replace("__N__", n).replace("__EMPHASIS__", emph)
           .replace("__OUT__", out).replace("__ID__", P).replace("__FILES__", ", ".join(d["anchors"]["files"])))
    open("%s/%s_prompt.txt" % (out, P), "w").write(txt)
    if not os.path.isdir(wt):
        subprocess.run(["git", "-C", "/repo", "worktree", "add", "-q", "--detach", wt, "main"], check=True)
print("ok", out)
