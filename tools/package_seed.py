#!/venv/bin/python
"""package a confirmed seeded change: package_seed.py <ID> <i> <prop-to-check> ["needs" text]"""
import json, os, shutil, subprocess, sys
pid, i, needs = sys.argv[1], sys.argv[2], (sys.argv[3] if len(sys.argv) > 3 else "")
OUT = os.environ.get("SEED_OUT", "/tmp/seed_out")
TAG = os.environ.get("SEED_TAG", "")
src = "{}/{}/change_{}".format(OUT, pid, i)
dst = "/verif/seeded/{}_{}{}".format(pid, TAG, i)
os.makedirs(dst, exist_ok=True)
for fn in ("patch.diff", "demo.py", "notes.md"):
    shutil.copy(os.path.join(src, fn), os.path.join(dst, fn))
conf = [l.strip() for l in open("{}/confirm_{}.log".format(OUT, pid)) if " change_{} ".format(i) in l]
out = subprocess.run(["/verif/tools/try_seed.sh", os.path.join(dst, "patch.diff"), pid], capture_output=True, text=True).stdout
lines = [l.strip() for l in out.splitlines() if l.startswith("  ")]
exitline = [l for l in out.splitlines() if l.startswith("== ")]
meta = {
    "property": pid,
    "source": "independent sub-agent given only the property text and a scratch worktree",
    "needs_to_manifest": needs,
    "confirmed_by_me": conf[0] if conf else "NOT CONFIRMED",
    "confirmation_commands": [
        "cd /tmp/wt8_{p} && PYTHONPATH=/tmp/wt8_{p} /venv/bin/python demo.py   # clean: exit 0".format(p=pid),
        "git apply patch.diff && PYTHONPATH=/tmp/wt8_{p} /venv/bin/python demo.py   # patched: exit != 0".format(p=pid),
        "PYTHONPATH=/tmp/wt8_{p} /venv/bin/python -m pytest -q -p no:cacheprovider --timeout=900 --continue-on-collection-errors --junitxml=...   # all 352 stable_pass tests still pass".format(p=pid),
    ],
    "check_result": exitline[0] if exitline else "exit 0 (MISSED)",
    "detected_by": [l[:400] for l in lines[:3]],
}
json.dump(meta, open(os.path.join(dst, "meta.json"), "wt"), indent=1)
print(dst, meta["check_result"], (lines[0][:120] if lines else ""))
