#!/venv/bin/python
"""
Parallel regression on scratch copies of the COMMITTED /repo tree (git archive HEAD), so /repo's working copy is
never touched:

  regress_parallel.py seeds   [--jobs 12] [id ...]   every /verif/seeded/<id>: apply patch, run the property's check
  regress_parallel.py neutral [--jobs 4]  [id ...]   every /verif/neutral/<id>: apply patch, run ALL checks (4 at a time)

Copies live under $(mktemp -d) and are removed as soon as the patch has been analysed.
"""
import concurrent.futures as cf
import json
import os
import shutil
import subprocess
import sys
import tempfile

VERIF = os.path.dirname(os.path.dirname(os.path.abspath(__file__)))
PROPS = ["C%02d" % i for i in range(1, 21)]


def make_copy():
    tmp = tempfile.mkdtemp(prefix="cddreg_")
    ar = subprocess.Popen(["git", "-C", "/repo", "archive", "HEAD", "cdd", "setup.py", "requirements.txt"], stdout=subprocess.PIPE)
    subprocess.run(["tar", "-x", "-C", tmp], stdin=ar.stdout, check=True)
    ar.wait()
    return tmp


def run_check(prop, root, tmp):
    r = subprocess.run(
        [os.path.join(VERIF, "check"), prop, "--quiet", "--root", root, "--evidence-dir", os.path.join(tmp, "ev_" + prop)],
        capture_output=True,
        text=True,
    )
    first = [l for l in (r.stdout + r.stderr).splitlines() if l.startswith("  ") or l.startswith("ANALYSIS-ERROR")]
    return r.returncode, (first[0][:260] if first else "")


def one_seed(sid):
    d = os.path.join(VERIF, "seeded", sid)
    prop = sid.split("_")[0]
    try:
        meta = json.load(open(os.path.join(d, "meta.json")))
    except Exception:
        meta = {}
    if "neutralised_by_fix" in meta:
        return sid, "neutralised by a fix: no longer breaks the property"
    tmp = make_copy()
    try:
        a = subprocess.run(["git", "apply", "--unsafe-paths", os.path.join(d, "patch.diff")], cwd=tmp, capture_output=True, text=True)
        if a.returncode != 0:
            return sid, "PATCH DOES NOT APPLY"
        rc, line = run_check(prop, tmp, tmp)
        return sid, ("== {} exit {} {}".format(prop, rc, line) if rc else "exit 0 (missed)")
    finally:
        shutil.rmtree(tmp, ignore_errors=True)


def one_neutral(nid):
    d = os.path.join(VERIF, "neutral", nid)
    tmp = make_copy()
    try:
        a = subprocess.run(["git", "apply", "--unsafe-paths", os.path.join(d, "patch.diff")], cwd=tmp, capture_output=True, text=True)
        if a.returncode != 0:
            return nid, "does not apply (skipped)", []
        alarms, details = [], []
        with cf.ThreadPoolExecutor(4) as ex:
            for prop, (rc, line) in zip(PROPS, ex.map(lambda p: run_check(p, tmp, tmp), PROPS)):
                if rc:
                    alarms.append("{}={}".format(prop, rc))
                    details.append("    {} {}".format(prop, line))
        return nid, "alarms: " + (" ".join(alarms) if alarms else "none"), details
    finally:
        shutil.rmtree(tmp, ignore_errors=True)


def main():
    what = sys.argv[1]
    jobs = int(sys.argv[sys.argv.index("--jobs") + 1]) if "--jobs" in sys.argv else (12 if what == "seeds" else 4)
    only = [a for a in sys.argv[2:] if not a.startswith("--") and not a.isdigit()]
    if what == "seeds":
        ids = sorted(x for x in os.listdir(os.path.join(VERIF, "seeded")) if os.path.isfile(os.path.join(VERIF, "seeded", x, "patch.diff")))
        ids = [i for i in ids if not only or i in only]
        with cf.ThreadPoolExecutor(jobs) as ex:
            for sid, res in ex.map(one_seed, ids):
                print(sid, res, flush=True)
    else:
        ids = sorted(x for x in os.listdir(os.path.join(VERIF, "neutral")) if os.path.isfile(os.path.join(VERIF, "neutral", x, "patch.diff")))
        ids = [i for i in ids if not only or i in only]
        bad = 0
        with cf.ThreadPoolExecutor(jobs) as ex:
            for nid, res, details in ex.map(one_neutral, ids):
                print(nid, res, flush=True)
                for l in details:
                    print(l, flush=True)
                bad += res != "alarms: none" and "skipped" not in res
        sys.exit(1 if bad else 0)


if __name__ == "__main__":
    main()
