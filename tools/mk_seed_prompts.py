#!/venv/bin/python
"""mk_seed_prompts.py <round-tag> <N> <emphasis-file>: writes /tmp/seed_out<tag>/<ID>_prompt.txt for every property and creates worktrees /tmp/wt<tag>_<ID>"""
import json, os, subprocess, sys
tag, n, emph = sys.argv[1], sys.argv[2], open(sys.argv[3]).read().strip()
out = "/tmp/seed_out%s" % tag
os.makedirs(out, exist_ok=True)
tpl = open("/verif/tools/prompts/seed_template.txt").read()
only = set(sys.argv[4:])
for l in open("/verif/properties.jsonl"):
    d = json.loads(l); P = d["id"]
    if only and P not in only: continue
    wt = "/tmp/wt%s_%s" % (tag, P)
    prop = "%s: %s\n\nSTATEMENT: %s\n\nQUANTIFIER: %s\n\nWHY TESTS CANNOT SETTLE IT: %s" % (
        P, d["title"], d["statement"], d["quantifier"]["text"], d["why_tests_cant"])
    txt = (tpl.replace("__WT__", wt).replace("__PROPERTY__", prop).replace("__N__", n)
           .replace("__EMPHASIS__", emph).replace("__OUT__", out).replace("__ID__", P))
    open("%s/%s_prompt.txt" % (out, P), "w").write(txt)
    if not os.path.isdir(wt):
        subprocess.run(["git", "-C", "/repo", "worktree", "add", "-q", "--detach", wt, "main"], check=True)
print("ok", out)
