"""
Partial evaluation of the repository's dispatch-by-name helpers for constant kinds (E6).

`peval(index, env, func, consts)` interprets the straight-line body of a small function with the
constant folder: assignments of closed expressions, `if` on foldable tests, and a final `return`.
Returns a Result describing what the function would return:
  ("attr", module dotted, attribute)  for  getattr(import_module(<str>), <str>) / getattr chains on cdd
  ("value", python value)             for a foldable value
  ("keyerror", message)               when a table lookup with the constant key is missing
  ("unknown", why)
"""

import ast

from .core import iter_own
from .fold import LookupFailed, Unknown, fold


def _resolver(env, m, local):
    base = env._resolver(m, local)

    def res(chain):
        if chain[0] in local:
            if len(chain) == 1:
                return local[chain[0]]
            raise Unknown(".".join(chain))
        return base(chain)

    return res


def eval_return(index, env, f, e, local):
    """classify a return expression"""
    m = f.mod
    res = _resolver(env, m, local)
    # getattr(import_module(S), A)
    if isinstance(e, ast.Call) and isinstance(e.func, ast.Name) and e.func.id == "getattr" and len(e.args) == 2:
        tgt, attr = e.args
        try:
            a = fold(attr, local, res)
        except LookupFailed as x:
            return ("keyerror", str(x))
        except Unknown as x:
            return ("unknown", "attribute name: {}".format(x))
        if isinstance(tgt, ast.Call) and index.callee(m, tgt, f) == "importlib.import_module":
            try:
                s = fold(tgt.args[0], local, res)
            except LookupFailed as x:
                return ("keyerror", str(x))
            except Unknown as x:
                return ("unknown", "module name: {}".format(x))
            return ("attr", s, a)
        inner = eval_return(index, env, f, tgt, local)
        if inner[0] == "attr":
            return ("attr", inner[1] + "." + inner[2], a)
        if inner[0] == "module":
            return ("attr", inner[1], a)
        return inner
    if isinstance(e, ast.Name) and e.id == "cdd" and e.id not in local:
        return ("module", "cdd")
    # (lambda p: BODY)(ARG)
    if isinstance(e, ast.Call) and isinstance(e.func, ast.Lambda):
        lam = e.func
        names = [a.arg for a in lam.args.args]
        loc2 = dict(local)
        for nme, a in zip(names, e.args):
            try:
                loc2[nme] = fold(a, local, res)
            except LookupFailed as x:
                return ("keyerror", str(x))
            except Unknown:
                loc2.pop(nme, None)
                loc2[nme] = _UNBOUND
        loc2 = {k: v for k, v in loc2.items() if v is not _UNBOUND}
        return eval_return(index, env, f, lam.body, loc2)
    try:
        return ("value", fold(e, local, res))
    except LookupFailed as x:
        return ("keyerror", str(x))
    except Unknown as x:
        if isinstance(e, ast.Subscript):
            # table[key] where only the lookup matters
            try:
                table = fold(e.value, local, res)
                key = fold(e.slice, local, res)
                if isinstance(table, dict) and key not in table:
                    return ("keyerror", "KeyError({!r}) — table keys: {}".format(key, sorted(map(str, table))))
            except Unknown:
                pass
        return ("unknown", str(x))


_UNBOUND = object()


def peval(index, env, f, consts):
    """partially evaluate function f with the given constant parameters"""
    local = dict(consts)
    m = f.mod

    def run(stmts):
        for s in stmts:
            if isinstance(s, ast.Expr) and isinstance(s.value, ast.Constant):
                continue
            if isinstance(s, (ast.Assign, ast.AnnAssign)) and s.value is not None:
                tg = s.targets if isinstance(s, ast.Assign) else [s.target]
                for t in tg:
                    if isinstance(t, ast.Name):
                        try:
                            local[t.id] = fold(s.value, local, _resolver(env, m, local))
                        except LookupFailed as x:
                            return ("keyerror", str(x))
                        except Unknown:
                            local.pop(t.id, None)
                continue
            if isinstance(s, ast.If):
                try:
                    t = fold(s.test, local, _resolver(env, m, local))
                except Unknown as x:
                    return ("unknown", "if-test {}: {}".format(ast.unparse(s.test)[:40], x))
                r = run(s.body if t else s.orelse)
                if r is not None:
                    return r
                continue
            if isinstance(s, ast.Return):
                return eval_return(index, env, f, s.value, local)
            if isinstance(s, (ast.Assert, ast.Pass, ast.Delete)):
                continue
            if isinstance(s, ast.Expr):
                continue
            return ("unknown", "statement {}".format(type(s).__name__))
        return None

    r = run(f.node.body)
    return r if r is not None else ("value", None)


def exists(index, module, attr):
    """does module define attr at top level? returns (ok, message)"""
    m = index.modules.get(module)
    if m is None:
        return False, "no module {}".format(module)
    if attr not in m.top:
        return False, "module {} has no top-level {}".format(module, attr)
    return True, ""


def underlying_function(index, module, attr, depth=0):
    """the Func behind module.attr (following `x = partial(f, ...)` aliases and imports)"""
    dotted = index._resolve_dotted(module + "." + attr)
    if dotted in index.funcs:
        return index.funcs[dotted], {}
    mv = index.module_var(dotted)
    if mv is not None and depth < 4:
        m, stmts = mv
        v = getattr(stmts[-1], "value", None)
        if isinstance(v, ast.Call) and index.callee(m, v, None) == "functools.partial" and v.args:
            r = index.resolve(m, v.args[0], None)
            if r in index.funcs:
                bound = {k.arg for k in v.keywords if k.arg}
                return index.funcs[r], bound
    return None, {}


def cli_choices(index, env):
    """{(subcommand, dest): tuple of choices} read from cdd.__main__._build_parser"""
    f = index.func("cdd.__main__._build_parser")
    m = f.mod
    sub = {}
    out = {}
    for n in iter_own(f.node):
        if isinstance(n, (ast.Assign, ast.AnnAssign)) and isinstance(n.value, ast.Call):
            c = n.value
            if isinstance(c.func, ast.Attribute) and c.func.attr == "add_parser" and c.args:
                t = n.targets[0] if isinstance(n, ast.Assign) else n.target
                if isinstance(t, ast.Name) and isinstance(c.args[0], ast.Constant):
                    sub[t.id] = c.args[0].value
    for n in iter_own(f.node):
        if (
            isinstance(n, ast.Call)
            and isinstance(n.func, ast.Attribute)
            and n.func.attr == "add_argument"
            and isinstance(n.func.value, ast.Name)
            and n.func.value.id in sub
        ):
            kws = {k.arg: k.value for k in n.keywords}
            if "choices" in kws and n.args and isinstance(n.args[0], ast.Constant):
                flag = n.args[-1].value if isinstance(n.args[-1], ast.Constant) else n.args[0].value
                try:
                    val = tuple(env.in_module(m, kws["choices"]))
                except Unknown as x:
                    val = ("<unfoldable: {}>".format(x),)
                out[(sub[n.func.value.id], flag)] = val
    return out
