"""
C01 — docstring <-> interface round trip (ReST, Google, NumPy): NECESSARY PARTS ONLY.

The round-trip equality itself is value level and is not decided. Four structural clauses are:

C01.tokens     : every section / field token the emitter can write for a style is in the table the
                 scanner of that style keys on (ReST field names are constants of emit_param_str; Google
                 and NumPy section headers must be taken from ARG_TOKENS / RETURN_TOKENS themselves).
C01.precedence : derive_docstring_format tests ReST, then Google, else NumPy: no token of a style may
                 contain (as a substring) a token of a style tested earlier, else an emitted docstring is
                 detected as the wrong style.
C01.announce   : the " Defaults to " announce spliced in by set_default_doc, case-folded, is one of
                 DEFAULTS_TO_VARIANTS (what extract_default searches for).
C01.numeric    : the untyped default text is classified int before float, and the int test is
                 sign-aware ("-5" is an int): an int stays an int, a negative number stays negative.
"""

import ast

from ..core import iter_own, norm, short
from ..fold import ModuleEnv, Unknown

DU = "cdd.shared.docstring_utils."


def run(ctx):
    """entry"""
    index = ctx.index
    env = ModuleEnv(index)
    ctx.explanation = (
        "Constant folding of TOKENS / ARG_TOKENS / RETURN_TOKENS / DEFAULTS_TO_VARIANTS; extraction of the "
        "field-name constants emit_param_str formats into ReST lines and of the section-header expressions the "
        "docstring emitter uses; substring comparison across the detection order; shape of the if-chain that "
        "classifies an untyped default text (int test sign-aware, int before float)."
    )
    ctx.assumptions += [
        "NOT decided: the round-trip equality itself — names, order, type strings, default values and their Python "
        "types, descriptions — for all interfaces x 3 styles x 8 flag combinations (run-time strings produced by index "
        "arithmetic over the input text). Only the four necessary clauses above are decided.",
    ]
    try:
        tokens = env.value(DU + "TOKENS")
        arg_tokens = env.value(DU + "ARG_TOKENS")
        ret_tokens = env.value(DU + "RETURN_TOKENS")
        variants = env.value("cdd.shared.defaults_utils.DEFAULTS_TO_VARIANTS")
    except Unknown as x:
        ctx.need(False, "cannot fold the docstring token tables: {}".format(x))
    ctx.need(len(tokens) == 3 and all(isinstance(t, (tuple, list)) and t for t in tokens), "TOKENS is not a 3-style table")
    rest, google, numpydoc = (tuple(t) for t in tokens)
    ctx.count("tokens_folded", sum(len(t) for t in tokens))
    # ---------------------------------------------------------------- tokens
    eps = index.func(DU + "emit_param_str")
    written = set()
    for n in iter_own(eps.node):
        if isinstance(n, ast.Constant) and isinstance(n.value, str):
            v = n.value
            # field names formatted into ":{key}:" / ":{key_typ}:" templates
            if v in ("return", "rtype", "param", "cvar", "ivar", "var"):
                written.add(":" + v)
            elif v.startswith("type {"):
                written.add(":type")
            elif v.startswith("{var} {") or v.startswith("param {") or v.startswith("cvar {"):
                pass
    ctx.need({":return", ":rtype", ":type"} <= written, "cannot read the ReST field names emit_param_str writes: {}".format(sorted(written)))
    for tok in sorted(written):
        ok = tok in rest
        ctx.ob(
            "C01.tokens",
            eps,
            "ReST field {} is a scanner token".format(tok),
            ok,
            "" if ok else "emit_param_str writes `{}` but TOKENS.rest = {} does not contain it: the ReST scanner will not see the field".format(tok, rest),
            line=eps.node.lineno,
        )
    de = index.func("cdd.docstring.emit.docstring")
    from ..core import RefGraph as _RG
    from ..region import Region as _Region

    heads = [
        n
        for _g, n in _Region(index, _RG(index), de, allow_passed=True).nodes()
        if isinstance(n, ast.Call) and norm(n.func) == "getattr" and len(n.args) == 2 and norm(n.args[0]) in ("ARG_TOKENS", "RETURN_TOKENS")
    ]
    ok = {norm(h.args[0]) for h in heads} == {"ARG_TOKENS", "RETURN_TOKENS"}
    ctx.ob(
        "C01.tokens",
        de,
        "Google / NumPy section headers are taken from ARG_TOKENS / RETURN_TOKENS",
        ok,
        "" if ok else "the docstring emitter no longer takes its section headers from the scanner's own tables",
        line=de.node.lineno,
    )
    for nm, tbl in (("ARG_TOKENS", arg_tokens), ("RETURN_TOKENS", ret_tokens)):
        for style, full, part in zip(("rest", "google", "numpydoc"), (rest, google, numpydoc), tbl):
            ok = set(part) <= set(full) and len(part) >= 1
            ctx.ob(
                "C01.tokens",
                eps.mod,
                "{}.{} is drawn from TOKENS.{}".format(nm, style, style),
                ok,
                "" if ok else "{}.{} = {} is not a subset of TOKENS.{}".format(nm, style, part, style),
                line=1,
            )
    # ------------------------------------------------------------ precedence
    ddf = index.func(DU + "derive_docstring_format")
    order = []
    for n in iter_own(ddf.node):
        if isinstance(n, ast.If):
            t = norm(n.test)
            for s in ("rest", "google", "numpydoc"):
                if "TOKENS." + s in t and s not in order:
                    order.append(s)
    ctx.need(order[:2] == ["rest", "google"], "derive_docstring_format no longer tests ReST then Google: {}".format(order))
    earlier = {"google": rest, "numpydoc": rest + google}
    for style, toks in (("google", google), ("numpydoc", numpydoc)):
        for tok in toks:
            clash = [e for e in earlier[style] if e in tok]
            ctx.ob(
                "C01.precedence",
                ddf,
                "{} token {!r} contains no earlier-tested token".format(style, tok),
                not clash,
                "" if not clash else "a {} docstring containing {!r} is detected as another style because it contains {!r}, which is tested first".format(style, tok, clash[0]),
                line=ddf.node.lineno,
            )
    # -------------------------------------------------------------- announce
    sdd = index.func("cdd.shared.defaults_utils.set_default_doc")
    import re as _re

    # the template that splices the announce between the description and the default: a format template with (at
    # least) two fields and the word "efault" in its literal text, whatever the fields are called
    tpl = [
        n.func.value.value
        for n in iter_own(sdd.node)
        if isinstance(n, ast.Call)
        and isinstance(n.func, ast.Attribute)
        and n.func.attr == "format"
        and isinstance(n.func.value, ast.Constant)
        and isinstance(n.func.value.value, str)
        and "efault" in _re.sub(r"\{[^{}]*\}", "", n.func.value.value)
        and len(_re.findall(r"(?<!\{)\{[^{}]*\}(?!\})", n.func.value.value)) >= 2
    ]
    ctx.need(len(tpl) == 1, "cannot find the default announce template in set_default_doc: {}".format(tpl))
    announce = _re.sub(r"\{[^{}]*\}", "", tpl[0]).lstrip()
    low = announce.casefold()
    ok = any(low == v.casefold() or low.startswith(v.casefold()) or v.casefold().startswith(low) and low.strip() for v in variants)
    exact = low in {v.casefold() for v in variants}
    ctx.ob(
        "C01.announce",
        sdd,
        "announce {!r} is a DEFAULTS_TO_VARIANTS entry".format(announce),
        exact or ok,
        "" if (exact or ok) else "set_default_doc announces defaults with {!r}, which extract_default does not search for ({})".format(announce, variants),
        line=sdd.node.lineno,
    )
    ctx.section(numeric_rule, ctx, index)
    from . import c02

    ctx.section(c02._typewalk, ctx, index, "C01.typewalk")

    def _sec_inputmut():
        # the second rendering of one interface description must see what the first saw: the docstring emitter does not
        # rewrite the caller's parameter docs ("Defaults to ..." appended in place would be taken for prose next time)
        from . import c10

        f_ = index.func("cdd.docstring.emit.docstring")
        c10.inputmut_rule(ctx, "C01.inputmut", [(f_, f_.params[0])], "a second rendering of the same object starts from descriptions the first one rewrote")

    ctx.section(_sec_inputmut)
    # "rendering ... and parsing back" is quantified over interfaces, not over processes: one parse must not leave
    # anything behind for the next (a memo, a flag on a module-level function, a shared default). C10's call-history
    # rules on the docstring emitter / parser slice.
    from . import c10

    ctx.section(
        c10.state_slice,
        ctx,
        "C01.state",
        ["cdd.docstring.emit.docstring", "cdd.docstring.parse.docstring", "cdd.shared.docstring_parsers.parse_docstring"],
    )


def numeric_rule(ctx, index, rule="C01.numeric"):
    """the untyped default text is classified int before float, with a sign-aware integer test (also a single-hop
    necessary condition of C03: an int default must leave the docstring hop as an int)"""
    # --------------------------------------------------------------- numeric
    pod = index.func("cdd.shared.defaults_utils._parse_out_default_and_doc")
    # the classification may live in _parse_out_default_and_doc itself or in a private helper it calls
    from ..core import RefGraph
    from ..defuse import expand_aliases
    from ..region import Region

    int_tests, float_sites = [], []
    for g, n in Region(index, RefGraph(index), pod).nodes():
        if isinstance(n, ast.If):
            yields_int = any(
                isinstance(s, (ast.Assign, ast.Return)) and isinstance(s.value, ast.Call) and norm(s.value.func) == "int" and len(s.value.args) == 1 and isinstance(s.value.args[0], ast.Name)
                for s in n.body
            )
            if yields_int:
                int_tests.append((g, n))
        if isinstance(n, ast.Call) and norm(n.func) == "float" and len(n.args) == 1 and isinstance(n.args[0], ast.Name):
            float_sites.append((g, n))
    ctx.need(len(int_tests) == 1 and float_sites, "the int / float classification of an untyped default vanished")
    pod, it = int_tests[0]
    float_sites = [n for g, n in float_sites if g is pod]
    ctx.need(float_sites, "the int test and the float() fallback are no longer in one function")
    consts = {c.value for c in ast.walk(expand_aliases(pod, it.test)) if isinstance(c, ast.Constant) and isinstance(c.value, str)}
    sign_aware = "-" in consts or any("-" in c for c in consts)
    ctx.ob(
        rule,
        pod,
        "if " + short(it.test, 80),
        sign_aware,
        ""
        if sign_aware
        else "the integer test does not account for a sign: `Defaults to -5` is not recognised as an int and falls "
        "through to float() — a negative int comes back as a float",
        line=it.lineno,
    )
    ok = it.lineno < min(f.lineno for f in float_sites)
    ctx.ob(rule, pod, "int is tried before float", ok, "" if ok else "float() is tried before the integer test: every int default comes back as a float", line=it.lineno)
