"""
C20 — exmod --dry-run writes nothing; a real run stays inside the output directory.

C20.dryrun : every file-system mutation reachable from `exmod` is dominated by `dry_run` being
             false, or is a call into a function that takes `dry_run` and is handed the caller's.
C20.gate   : in exmod_single_folder every such site is dominated by `proceed`; find_packages gets
             include/exclude derived from whitelist/blacklist.
C20.prov   : the path of every write reachable from exmod is rooted (def-use) at the output
             directory parameters, with a depth abstraction (join +n, dirname -1) that must never go
             above the output directory.
C20.srcguard : emission into an existing file (which for a package outside site-packages is the source
             module itself) happens only when no top-level node of that file has the symbol's name.
"""

import ast

from ..core import RefGraph, attr_chain, iter_own, norm, short
from ..effects import Effects
from ..walker import GuardWalker, assigned_names
from ..writes import WriteModel

ENTRY = "cdd.compound.exmod.exmod"
FLAG = "dry_run"


def site_list(index, wm, f):
    """
    All constructs inside f that may mutate the file system:
    (node, kind, target, callnode) with kind in prim | wrapper | call | partial | mention
    """
    out = []
    seen = set()
    for e in wm.direct.get(f.qual, ()):
        out.append((e.call, "prim", e.callee + ":" + e.sub, e.call))
        seen.add(id(e.call))
    for node, wq, mode in wm.wrapper_write_sites.get(f.qual, ()):
        if id(node) in seen:
            continue
        seen.add(id(node))
        out.append((node, "wrapper", "{}(mode={!r})".format(wq, mode), node if isinstance(node, ast.Call) else None))
    par = f.mod.parents
    for n in iter_own(f.node):
        if not isinstance(n, (ast.Name, ast.Attribute)) or not isinstance(
            getattr(n, "ctx", None), ast.Load
        ):
            continue
        p = par.get(n)
        if isinstance(p, ast.Attribute) and p.value is n:
            continue
        r = index.resolve(f.mod, n, f)
        if r is None or r not in wm.may or r in wm.wrappers or r not in index.funcs:
            continue
        if isinstance(p, ast.Call) and p.func is n:
            out.append((p, "call", r, p))
        elif (
            isinstance(p, ast.Call)
            and p.args
            and p.args[0] is n
            and index.callee(f.mod, p, f) == "functools.partial"
        ):
            out.append((p, "partial", r, p))
        else:
            out.append((n, "mention", r, None))
    return out


def passes_flag(call, target, skip_first=0):
    """does `call` hand the caller's own `dry_run` (or constant True) to target's dry_run?"""
    for k in call.keywords:
        if k.arg == FLAG:
            v = k.value
            if isinstance(v, ast.Name) and v.id == FLAG:
                return True, ""
            if isinstance(v, ast.Constant) and v.value is True:
                return True, ""
            return False, "dry_run={} is not the caller's dry_run".format(short(v, 40))
    if any(k.arg is None for k in call.keywords):
        return False, "**kwargs: cannot see whether dry_run is forwarded"
    params = target.params
    if FLAG in params:
        pos = params.index(FLAG) - skip_first
        args = call.args
        if not any(isinstance(a, ast.Starred) for a in args[: pos + 1]) and len(args) > pos >= 0:
            v = args[pos]
            if isinstance(v, ast.Name) and v.id == FLAG:
                return True, ""
            return False, "positional dry_run argument is {}".format(short(v, 40))
    return False, "dry_run not forwarded"


class _NotBoolean(Exception):
    """the gate expression uses something outside the boolean abstraction"""


def _coll(e):
    """'blacklist' / 'whitelist' when `e` denotes that collection: the name itself, frozenset(X) / set / tuple / list of
    it, or `X or ()` / `X or iter(())` / `X or []` (an absent list is an empty one)"""
    if isinstance(e, ast.Name) and e.id in ("blacklist", "whitelist"):
        return e.id
    if isinstance(e, ast.Call) and isinstance(e.func, ast.Name) and e.func.id in ("frozenset", "set", "tuple", "list") and len(e.args) == 1 and not e.keywords:
        return _coll(e.args[0])
    if isinstance(e, ast.BoolOp) and isinstance(e.op, ast.Or) and len(e.values) == 2:
        empty = e.values[1]
        is_empty = (isinstance(empty, (ast.Tuple, ast.List)) and not empty.elts) or norm(empty) in ("iter(())", "frozenset()", "set()", "tuple()")
        if is_empty:
            return _coll(e.values[0])
    return None


def _function_as_expression(h, expand):
    """
    the value returned by a small predicate function as ONE expression: `if C: return A` followed by `return B`
    becomes `A if C else B`; single-definition locals are expanded. None when the body has any other shape.
    """
    body = [st for st in h.node.body if not (isinstance(st, ast.Expr) and isinstance(st.value, ast.Constant))]

    def fold_block(stmts):
        if not stmts:
            return None
        st, rest = stmts[0], stmts[1:]
        if isinstance(st, (ast.Assign, ast.AnnAssign)):
            return fold_block(rest)
        if isinstance(st, ast.Return) and st.value is not None:
            return expand(h, st.value)
        if isinstance(st, ast.If):
            a = fold_block(st.body)
            b = fold_block(st.orelse + rest) if st.orelse else fold_block(rest)
            if a is None or b is None:
                return None
            return ast.IfExp(test=expand(h, st.test), body=a, orelse=b)
        return None

    return fold_block(body)


def _beval(e, a):
    """
    evaluate the gate expression under truth assignment `a` of the atoms
      B  = mod_path in blacklist     W  = mod_path in whitelist
      eB = blacklist is empty        eW = whitelist is empty
    """
    t = norm(e)
    if isinstance(e, ast.BoolOp):
        vals = [_beval(v, a) for v in e.values]
        return all(vals) if isinstance(e.op, ast.And) else any(vals)
    if isinstance(e, ast.UnaryOp) and isinstance(e.op, ast.Not):
        return not _beval(e.operand, a)
    if isinstance(e, ast.IfExp):
        return _beval(e.body, a) if _beval(e.test, a) else _beval(e.orelse, a)
    if isinstance(e, ast.Constant) and isinstance(e.value, bool):
        return e.value
    if isinstance(e, ast.Call) and isinstance(e.func, ast.Name) and e.func.id in ("any", "all") and len(e.args) == 1:
        arg = e.args[0]
        if isinstance(arg, (ast.Tuple, ast.List)):
            vals = [_beval(v, a) for v in arg.elts]
            return any(vals) if e.func.id == "any" else all(vals)
        raise _NotBoolean(t)
    if isinstance(e, ast.Call) and isinstance(e.func, ast.Name) and e.func.id == "bool" and len(e.args) == 1:
        return _beval(e.args[0], a)
    if _coll(e) is not None:
        return not a["eB" if _coll(e) == "blacklist" else "eW"]
    if isinstance(e, ast.Compare) and len(e.ops) == 1:
        left, op, right = norm(e.left), e.ops[0], norm(e.comparators[0])
        if _coll(e.comparators[0]) is not None:
            right = _coll(e.comparators[0])
        if left == a.get("subject", "mod_path") and right in ("blacklist", "whitelist") and isinstance(op, (ast.In, ast.NotIn)):
            v = a["B" if right == "blacklist" else "W"]
            return v if isinstance(op, ast.In) else not v
        if isinstance(op, (ast.Eq, ast.NotEq)) and right == "0":
            both = {"sum(map(len, (blacklist, whitelist)))": a["eB"] and a["eW"],
                    "sum(map(len, (whitelist, blacklist)))": a["eB"] and a["eW"],
                    "len(blacklist) + len(whitelist)": a["eB"] and a["eW"],
                    "len(blacklist)": a["eB"], "len(whitelist)": a["eW"]}
            if left in both:
                return both[left] if isinstance(op, ast.Eq) else not both[left]
    raise _NotBoolean(t)


def _gate_truth_table(ctx, esf, assign, subject="mod_path"):
    """decide the gate: proceed must imply (not blacklisted) and (whitelisted or no whitelist)"""
    import itertools

    rows = 0
    bad = []
    try:
        for B, W, eB, eW in itertools.product((False, True), repeat=4):
            if (B and eB) or (W and eW):
                continue  # a member of an empty collection: infeasible
            rows += 1
            a = {"B": B, "W": W, "eB": eB, "eW": eW, "subject": subject}
            if _beval(assign.value, a) and not ((not B) and (W or eW)):
                bad.append({k: v for k, v in a.items() if k != "subject"})
    except _NotBoolean as x:
        ctx.need(False, "the blacklist/whitelist gate uses a construct outside the boolean abstraction: {}".format(x))
    ctx.count("gate_truth_table_rows", rows)
    ctx.ob(
        "C20.gate",
        esf,
        "truth table of the blacklist/whitelist gate",
        not bad,
        ""
        if not bad
        else "the gate lets a module through that is blacklisted / not whitelisted, e.g. when {}".format(
            ", ".join(
                "{}={}".format(
                    {"B": "in blacklist", "W": "in whitelist", "eB": "blacklist empty", "eW": "whitelist empty"}[k], v
                )
                for k, v in bad[0].items()
            )
        ),
        line=assign.lineno,
    )


def _is_names_of_body(e, modvar, depth=0):
    """`e` enumerates exactly the `.name` of every top-level node of `modvar` that has one"""
    if depth > 6:
        return False
    if isinstance(e, ast.Call) and norm(e.func) in ("set", "frozenset", "list", "tuple", "iter") and len(e.args) == 1:
        return _is_names_of_body(e.args[0], modvar, depth + 1)
    if isinstance(e, ast.Call) and norm(e.func) == "map" and len(e.args) == 2:
        fn, src = e.args
        getter = (
            isinstance(fn, ast.Call) and norm(fn.func).rpartition(".")[2] == "attrgetter" and len(fn.args) == 1 and isinstance(fn.args[0], ast.Constant) and fn.args[0].value == "name"
        ) or (isinstance(fn, ast.Lambda) and len(fn.args.args) == 1 and norm(fn.body) == fn.args.args[0].arg + ".name")
        return bool(getter) and _is_named_nodes(src, modvar, depth + 1)
    if isinstance(e, (ast.GeneratorExp, ast.ListComp, ast.SetComp)) and len(e.generators) == 1:
        g = e.generators[0]
        if not isinstance(g.target, ast.Name) or norm(e.elt) != g.target.id + ".name":
            return False
        if not all(_is_hasattr_name(i, g.target.id) for i in g.ifs):
            return False
        return _is_named_nodes(g.iter, modvar, depth + 1) or norm(g.iter) == modvar + ".body" and bool(g.ifs)
    return False


def _is_hasattr_name(test, var):
    return isinstance(test, ast.Call) and norm(test.func) == "hasattr" and len(test.args) == 2 and norm(test.args[0]) == var and isinstance(test.args[1], ast.Constant) and test.args[1].value == "name"


def _is_named_nodes(e, modvar, depth=0):
    """`e` enumerates every top-level node of `modvar` that has a `.name`"""
    if isinstance(e, ast.Call) and norm(e.func) == "filter" and len(e.args) == 2 and norm(e.args[1]) == modvar + ".body":
        fn = e.args[0]
        if isinstance(fn, ast.Call) and norm(fn.func).rpartition(".")[2] == "rpartial" and len(fn.args) == 2 and norm(fn.args[0]) == "hasattr":
            return isinstance(fn.args[1], ast.Constant) and fn.args[1].value == "name"
        if isinstance(fn, ast.Lambda) and len(fn.args.args) == 1:
            return _is_hasattr_name(fn.body, fn.args.args[0].arg)
    return False


def _exists_node_named(e, namevar, modvar):
    """
    True  : `e` is recognisably  "some top-level node of modvar is named namevar"
    False : `e` does not even look at the names of modvar's top-level nodes
    None  : it does, in a shape this recogniser does not know
    """
    ok = False
    if isinstance(e, ast.Call) and norm(e.func) == "any" and len(e.args) == 1:
        a = e.args[0]
        if isinstance(a, ast.Call) and norm(a.func) in ("filter", "map") and len(a.args) == 2:
            fn, src = a.args
            eq_name = (
                isinstance(fn, ast.Call) and norm(fn.func).rpartition(".")[2] == "partial" and len(fn.args) == 2 and norm(fn.args[0]).rpartition(".")[2] == "eq" and norm(fn.args[1]) == namevar
            ) or norm(fn) == namevar + ".__eq__"
            ok = bool(eq_name) and _is_names_of_body(src, modvar)
        elif isinstance(a, ast.GeneratorExp) and len(a.generators) == 1 and isinstance(a.elt, ast.Compare) and len(a.elt.ops) == 1 and isinstance(a.elt.ops[0], ast.Eq):
            g = a.generators[0]
            if isinstance(g.target, ast.Name):
                sides = {norm(a.elt.left), norm(a.elt.comparators[0])}
                ok = sides == {namevar, g.target.id + ".name"} and all(_is_hasattr_name(i, g.target.id) for i in g.ifs) and (
                    _is_named_nodes(g.iter, modvar) or (norm(g.iter) == modvar + ".body" and bool(g.ifs))
                )
    elif isinstance(e, ast.Compare) and len(e.ops) == 1 and isinstance(e.ops[0], ast.In) and norm(e.left) == namevar:
        ok = _is_names_of_body(e.comparators[0], modvar)
    if ok:
        return True
    looks = any(norm(x) == modvar + ".body" for x in ast.walk(e)) and any(
        (isinstance(x, ast.Attribute) and x.attr == "name") or (isinstance(x, ast.Constant) and x.value == "name") for x in ast.walk(e)
    )
    return None if looks else False


def _srcguard(ctx, index):
    """
    C20.srcguard. For a package that is NOT under site-packages `relative_filename` leaves the absolute
    path of the source module, and path.join(output_directory, <absolute>) is that absolute path: the file
    emit_file_on_hierarchy is about to emit into IS the source module. What keeps "the source package is
    not modified" true is that emission is skipped when the existing file already has a top-level node of
    the symbol's name (always the case for the module the symbol was read from). Decided here:
      (1) the call that writes (_emit_symbol) is dominated by `not symbol_in_file`;
      (2) every definition of symbol_in_file is `isfile(emit_filename)` (no file, nothing to modify) or
          recognisably "some top-level node of the existing file is named `name`".
    """
    f = index.func("cdd.compound.exmod_utils.emit_file_on_hierarchy")
    calls = [n for n in iter_own(f.node) if isinstance(n, ast.Call) and index.callee(f.mod, n, f) == "cdd.compound.exmod_utils._emit_symbol"]
    ctx.need(len(calls) >= 1, "emit_file_on_hierarchy no longer calls _emit_symbol")
    facts_at = {}
    GuardWalker(on_expr=lambda n, facts: facts_at.__setitem__(id(n), facts)).walk_function(f.node)
    flags = set()
    for c in calls:
        facts = facts_at.get(id(c))
        ctx.need(facts is not None, "_emit_symbol call not visited by the walker")
        falsy = sorted(k for k, v in facts.items() if v is False and isinstance(k, str) and k.isidentifier())
        # the flag: a local that is false here and is the name passed neither as dry_run nor as a parameter
        cand = [k for k in falsy if k not in f.params]
        ok = bool(cand)
        ctx.ob(
            "C20.srcguard",
            f,
            c if not ok else "_emit_symbol(...) only when not {}".format(" / ".join(cand)),
            ok,
            "" if ok else "_emit_symbol is reached without a test that the symbol is not already in the target file: for a "
            "package outside site-packages the target file is the source module itself, which is then rewritten",
            line=c.lineno,
        )
        flags.update(cand)
    n_defs = 0
    for flag in sorted(flags):
        for n in iter_own(f.node):
            if isinstance(n, (ast.Assign, ast.AnnAssign)) and n.value is not None:
                tg = n.targets if isinstance(n, ast.Assign) else [n.target]
                if not any(isinstance(t, ast.Name) and t.id == flag for t in tg):
                    continue
                from ..defuse import expand_aliases as _expand

                v = _expand(f, n.value, keep={flag})
                n_defs += 1
                if isinstance(v, ast.Call) and norm(v.func).rpartition(".")[2] == "isfile" and len(v.args) == 1:
                    ctx.ob("C20.srcguard", f, n, True, line=n.lineno)
                    continue
                if isinstance(v, ast.Constant) and isinstance(v.value, bool):
                    # the loop spelling: `flag = False; for node in existent_mod.body: ... if name == node.name ...: flag = True; break`
                    loop = f.mod.parents.get(n)
                    while loop is not None and loop is not f.node and not isinstance(loop, ast.For):
                        loop = f.mod.parents.get(loop)
                    if v.value is True:
                        namevar_ = next(
                            (norm(a_) for c in calls for p_, a_ in index.bound_args(f.mod, c, f).items() if p_ == "name" and isinstance(a_, ast.Name)),
                            "name",
                        )
                        good = False
                        if isinstance(loop, ast.For) and isinstance(loop.target, ast.Name) and norm(loop.iter).endswith(".body"):
                            lv = loop.target.id
                            cur, conds = n, []
                            while cur is not loop:
                                par = f.mod.parents.get(cur)
                                if isinstance(par, ast.If) and cur in par.body:
                                    conds.append(par.test)
                                cur = par
                            for t_ in conds:
                                for c_ in ast.walk(t_):
                                    if isinstance(c_, ast.Compare) and len(c_.ops) == 1 and isinstance(c_.ops[0], ast.Eq) and {norm(c_.left), norm(c_.comparators[0])} == {namevar_, lv + ".name"}:
                                        good = True
                        ctx.need(good, "the 'symbol already in file' flag is raised in a shape the recogniser does not know: {}".format(short(loop if loop is not None else n, 100)))
                        ctx.ob("C20.srcguard", f, n, True, line=n.lineno)
                    else:
                        raised = any(
                            isinstance(m_, (ast.Assign, ast.AnnAssign)) and m_ is not n and isinstance(getattr(m_, "value", None), ast.Constant) and m_.value.value is True
                            and any(isinstance(t, ast.Name) and t.id == flag for t in (m_.targets if isinstance(m_, ast.Assign) else [m_.target]))
                            for m_ in iter_own(f.node)
                        )
                        ctx.ob("C20.srcguard", f, n, raised, "" if raised else "`{}` is set to False and never raised: a source module that defines the symbol is judged not to contain it and is overwritten".format(flag), line=n.lineno)
                    continue
                modvars = sorted({x.value.id for x in ast.walk(v) if isinstance(x, ast.Attribute) and x.attr == "body" and isinstance(x.value, ast.Name)})
                # the symbol's name: what emit_file_on_hierarchy hands to _emit_symbol as `name=`
                namevar = next(
                    (norm(a_) for c in calls for p_, a_ in index.bound_args(f.mod, c, f).items() if p_ == "name" and isinstance(a_, ast.Name)),
                    "name",
                )
                r = None
                for mv in modvars or ["existent_mod"]:
                    r = _exists_node_named(v, namevar, mv)
                    if r:
                        break
                ctx.need(
                    r is not None,
                    "the 'symbol already in file' test of emit_file_on_hierarchy looks at the names of the existing file's "
                    "top-level nodes in a shape the recogniser does not know: {}".format(short(v, 120)),
                )
                ctx.ob(
                    "C20.srcguard",
                    f,
                    n,
                    bool(r),
                    ""
                    if r
                    else "`{}` is no longer decided by the names of the existing file's top-level nodes: a source module that "
                    "defines the symbol can be judged not to contain it and is then overwritten with generated code "
                    "(package outside site-packages: the emit target is the source file)".format(flag),
                    line=n.lineno,
                )
    ctx.need(n_defs >= 1, "no definition of the already-in-file flag found")
    ctx.count("srcguard_flag_definitions", n_defs)


def _sharednode(ctx, index, reach):
    """
    C20.sharednode — "every generated file is valid Python whose __all__ names symbols it defines or imports" when ONE
    syntax node built in a function is placed into TWO emitted modules (`_emit_symbol` puts the same `__all__ = [name]`
    statement into the generated module and into the `__init__.py` written after it). Between the two emissions the
    module that holds the node is handed to helpers (merge_modules, infer_imports, merge_assignment_lists, ...); if one
    of them mutates what it is given BELOW the statement list (levels >= 2: a statement or something inside it), the
    second file is emitted from a node that is no longer the one built for it. Instances are discovered: a local bound
    once to a constructor call and loaded at >= 2 places; the holders are the locals whose value expression mentions it
    (transitively, re-bindings included). Decided through the input-mutation summaries (sa/inputmut.py); replacing the
    statement list or appending to it (levels 0 and 1) is what the merge helpers are for and is accepted.
    """
    from .c10 import input_mutation

    im = input_mutation(index)
    n_shared = n_calls = 0
    for q in reach:
        f = index.funcs.get(q)
        if f is None or not f.mod.name.startswith("cdd.compound.exmod"):
            continue
        binds, loads = {}, {}
        for n in iter_own(f.node):
            if isinstance(n, (ast.Assign, ast.AnnAssign)):
                tg = n.targets if isinstance(n, ast.Assign) else [n.target]
                for t in tg:
                    if isinstance(t, ast.Name) and n.value is not None:
                        binds.setdefault(t.id, []).append(n.value)
            elif isinstance(n, ast.Name) and isinstance(n.ctx, ast.Load):
                loads[n.id] = loads.get(n.id, 0) + 1
        shared = sorted(
            v
            for v, vals in binds.items()
            if len(vals) == 1
            and isinstance(vals[0], ast.Call)
            and isinstance(vals[0].func, ast.Name)
            and hasattr(ast, vals[0].func.id)
            and isinstance(getattr(ast, vals[0].func.id), type)
            and issubclass(getattr(ast, vals[0].func.id), ast.stmt)
            and loads.get(v, 0) >= 2
        )
        for S in shared:
            n_shared += 1
            holders, changed = {S}, True
            while changed:
                changed = False
                for v, vals in binds.items():
                    if v in holders:
                        continue
                    if any(isinstance(x, ast.Name) and x.id in holders for val in vals for x in ast.walk(val)):
                        holders.add(v)
                        changed = True
            for c in iter_own(f.node):
                if not isinstance(c, ast.Call):
                    continue
                tq = index.callee(f.mod, c, f)
                g = index.funcs.get(tq) if tq else None
                if g is None:
                    continue
                params = [a.arg for a in g.node.args.posonlyargs + g.node.args.args]
                pairs = [(params[i], a) for i, a in enumerate(c.args) if i < len(params)] + [
                    (k.arg, k.value) for k in c.keywords if k.arg
                ]
                for pname, a in pairs:
                    if not (isinstance(a, ast.Name) and a.id in holders):
                        continue
                    n_calls += 1
                    floor_level = 0 if a.id == S else 2
                    m = {L: w for L, w in im.mutates(g.qual, pname).items() if L >= floor_level}
                    ok = not m
                    ctx.ob(
                        "C20.sharednode",
                        f,
                        "`{}` (holds `{}`, emitted twice) handed to {}({})".format(a.id, S, g.node.name, pname),
                        ok,
                        ""
                        if ok
                        else "`{}` is put into two emitted modules; {} mutates the module it is given at nesting level {} "
                        "(a statement or below): {} — the file emitted second is written from a changed node".format(
                            S, g.node.name, min(m), im.chain(g.qual, pname, min(m))
                        ),
                        line=c.lineno,
                    )
    ctx.count("nodes_emitted_twice", n_shared)
    ctx.count("hand_overs_of_their_holders", n_calls)
    ctx.floor("syntax nodes placed into two emitted modules (exmod_utils._emit_symbol.__all___node)", n_shared, 1)
    ctx.floor("hand-overs of a module holding such a node to a package helper", n_calls, 4)


def run(ctx):
    """entry"""
    index = ctx.index
    graph = RefGraph(index)
    effects = Effects(index)
    wm = WriteModel(index, graph, effects)
    entry = index.func(ENTRY)
    for q in (
        "cdd.compound.exmod.exmod_single_folder",
        "cdd.compound.exmod_utils.emit_file_on_hierarchy",
        "cdd.compound.exmod_utils._emit_symbol",
        "cdd.compound.exmod_utils.emit_files_from_module_and_return_imports",
        "cdd.shared.emit.file.file",
    ):
        index.func(q)
    ctx.need(FLAG in entry.params, "exmod no longer has a dry_run parameter")
    reach = sorted(q for q in graph.reachable([ENTRY]) if q in index.funcs)
    writers = [q for q in reach if q in wm.may]
    ctx.count("functions_reachable_from_exmod", len(reach))
    ctx.count("may_write_functions_reachable", len(writers))
    ctx.floor("may-write functions reachable from exmod", len(writers), 3)
    ctx.explanation = (
        "May-write least fixpoint over the reference graph (primitive sinks: open with a write mode, "
        "os.mkdir/makedirs/remove/..., shutil.*, Path.write_*; inferred open-mode wrappers classified "
        "per call site). For every function reachable from exmod that has a dry_run parameter, every "
        "site that may write is checked with the guard-fact walker: dominated by dry_run == False "
        "(if/elif/else, conditional expression, early return) or a call/partial that forwards the "
        "caller's own dry_run to a callee that takes it. Writers without a dry_run parameter must be "
        "guarded at each reference. C20.gate: sites in exmod_single_folder dominated by `proceed`. "
        "C20.prov: path provenance with a depth abstraction."
    )
    ctx.assumptions += [
        "third-party callees (setuptools.find_packages, black.format_str) do not mutate the file system",
        "effects of the import system itself (importlib.util.find_spec importing parent packages, "
        "__pycache__) are outside the inventory",
        "the sink inventory of sa/effects.py is the definition of 'file-system mutation'",
    ]
    n_sites = 0
    guarded = forwarded = 0
    gate_sites = []
    for q in reach:
        f = index.funcs[q]
        if FLAG not in f.params:
            continue
        sites = site_list(index, wm, f)
        if not sites:
            continue
        rebound = FLAG in assigned_names(f.node.body)
        if rebound:
            ctx.ob(
                "C20.dryrun",
                f,
                "dry_run rebound",
                False,
                "the dry_run parameter is reassigned inside the function; guards on it prove nothing",
            )
        facts_at = {}

        def on_expr(n, facts, _fa=facts_at):
            _fa[id(n)] = facts

        GuardWalker(on_expr=on_expr).walk_function(f.node)
        # local aliases created by partial(G, ..., dry_run=dry_run)
        aliases = {}
        for n in iter_own(f.node):
            if (
                isinstance(n, ast.Assign)
                and len(n.targets) == 1
                and isinstance(n.targets[0], ast.Name)
                and isinstance(n.value, ast.Call)
            ):
                for node, kind, target, call in sites:
                    if node is n.value and kind == "partial":
                        aliases[n.targets[0].id] = target
        for node, kind, target, call in sites:
            n_sites += 1
            facts = facts_at.get(id(node))
            if facts is None:
                ctx.need(False, "site not visited by the walker: {} in {}".format(short(node), q))
            is_guarded = facts.get(FLAG) is False and not rebound
            ok, why = is_guarded, ""
            if not ok and kind in ("call", "partial"):
                tf = index.funcs[target]
                if FLAG in tf.params:
                    ok, why = passes_flag(call if kind == "call" else ast.Call(func=call.args[0], args=call.args[1:], keywords=call.keywords), tf)
                    if ok:
                        forwarded += 1
                else:
                    why = "{} writes ({}) and takes no dry_run".format(
                        target, " -> ".join(wm.path(target)[-2:])
                    )
            elif ok:
                guarded += 1
            if not ok and not why:
                why = "not dominated by `not dry_run`"
            ctx.ob(
                "C20.dryrun",
                f,
                node,
                ok,
                ""
                if ok
                else "file-system mutation possible under --dry-run: {} [{}] {}".format(
                    kind, target, why
                ),
            )
            if q == "cdd.compound.exmod.exmod_single_folder":
                gate_sites.append((f, node, kind, target, facts))
        # calls through aliases must not override dry_run
        dict_flag_values = [
            v
            for n in iter_own(f.node)
            if isinstance(n, ast.Dict)
            for k, v in zip(n.keys, n.values)
            if isinstance(k, ast.Constant) and k.value == FLAG
        ]
        for n in iter_own(f.node):
            if isinstance(n, ast.Call) and isinstance(n.func, ast.Name) and n.func.id in aliases:
                n_sites += 1
                bad = [
                    k
                    for k in n.keywords
                    if k.arg == FLAG and not (isinstance(k.value, ast.Name) and k.value.id == FLAG)
                ]
                star = any(k.arg is None for k in n.keywords)
                bad_dict = [
                    v
                    for v in dict_flag_values
                    if not (isinstance(v, ast.Name) and v.id == FLAG)
                ]
                ok = not bad and not (star and bad_dict)
                if facts_at.get(id(n), {}).get(FLAG) is False:
                    ok = True
                ctx.ob(
                    "C20.dryrun",
                    f,
                    n,
                    ok,
                    ""
                    if ok
                    else "call through alias of {} overrides dry_run".format(aliases[n.func.id]),
                )
    ctx.count("write_sites_checked", n_sites)
    ctx.count("sites_guarded_by_not_dry_run", guarded)
    ctx.count("sites_forwarding_dry_run", forwarded)
    ctx.floor("write sites checked", n_sites, 9)
    # --------------------------------------------------------------- gate
    esf = index.func("cdd.compound.exmod.exmod_single_folder")
    ctx.need(gate_sites, "no write sites found in exmod_single_folder")
    # the gate, in one of two spellings:
    #  (a) the one local whose (single) definition tests membership in both the blacklist and the whitelist
    #      parameters, whatever it is called; the subject of the membership tests is the module being considered
    #  (b) a predicate function of this module that is handed the module, the blacklist and the whitelist and whose
    #      return paths test membership in both — the fact is then the call itself
    from ..defuse import expand_aliases

    def membership(expr):
        mem = [
            c
            for c in ast.walk(expr)
            if isinstance(c, ast.Compare) and len(c.ops) == 1 and isinstance(c.ops[0], (ast.In, ast.NotIn)) and _coll(c.comparators[0]) in ("blacklist", "whitelist")
        ]
        return {_coll(c.comparators[0]) for c in mem}, {norm(c.left) for c in mem}

    pa = []
    for n in iter_own(esf.node):
        if isinstance(n, (ast.Assign, ast.AnnAssign)) and n.value is not None:
            t = n.targets[0] if isinstance(n, ast.Assign) else n.target
            if isinstance(t, ast.Name):
                colls, subjects = membership(n.value)
                if colls == {"blacklist", "whitelist"}:
                    pa.append((t.id, n.value, subjects, n.lineno))
        elif isinstance(n, ast.Call):
            h = index.funcs.get(index.callee(esf.mod, n, esf) or "")
            if h is None or h.mod is not esf.mod:
                continue
            bound = {}
            for i, a in enumerate(n.args):
                if i < len(h.params):
                    bound[h.params[i]] = a
            for k in n.keywords:
                if k.arg:
                    bound[k.arg] = k.value
            roles = {p_: norm(a) for p_, a in bound.items() if norm(a) in ("blacklist", "whitelist")}
            if set(roles.values()) != {"blacklist", "whitelist"}:
                continue
            # the predicate as one expression: fold the early returns of the helper into nested conditionals
            body = _function_as_expression(h, expand_aliases)
            if body is None:
                continue

            class Ren(ast.NodeTransformer):
                def visit_Name(self, x):
                    if x.id in bound and isinstance(x.ctx, ast.Load):
                        import copy

                        return copy.deepcopy(bound[x.id])
                    return x

            expr = Ren().visit(body)
            colls, subjects = membership(expr)
            if colls == {"blacklist", "whitelist"}:
                pa.append((" ".join(norm(n).split()), expr, subjects, n.lineno))
    ctx.need(len(pa) == 1, "expected exactly one definition of the blacklist/whitelist gate in exmod_single_folder, found {}".format(len(pa)))
    gate_var, gate_expr, subjects, gate_line = pa[0]
    ctx.need(len(subjects) == 1, "the gate tests different subjects against the two lists: {}".format(sorted(subjects)))
    for f, node, kind, target, facts in gate_sites:
        ok = facts.get(gate_var) is True
        ctx.ob(
            "C20.gate",
            f,
            node,
            ok,
            "" if ok else "write site not dominated by the blacklist/whitelist gate",
        )
    ctx.ob("C20.gate", esf, "the gate depends on blacklist, whitelist and the module path", True, line=gate_line)
    _gate_truth_table(ctx, esf, ast.Assign(targets=[], value=gate_expr, lineno=gate_line), subject=next(iter(subjects)))
    fp = [
        n
        for n in iter_own(entry.node)
        if isinstance(n, ast.Call) and index.callee(entry.mod, n, entry) == "setuptools.find_packages"
    ]
    ctx.need(fp, "find_packages call vanished from exmod")
    for c in fp:
        kws = {k.arg: k.value for k in c.keywords}
        for kw, src in (("include", "whitelist"), ("exclude", "blacklist")):
            v = kws.get(kw)
            ok = v is not None and src in {x.id for x in ast.walk(v) if isinstance(x, ast.Name)}
            ctx.ob(
                "C20.gate",
                entry,
                "find_packages({}=...)".format(kw),
                ok,
                "" if ok else "find_packages {} is not derived from {}".format(kw, src),
                line=c.lineno,
            )
    from . import c20_prov

    ctx.section(c20_prov.run, ctx, index, graph, effects, wm, reach)
    ctx.section(_srcguard, ctx, index)
    ctx.section(_sharednode, ctx, index, reach)
    # note on find_spec
    fmf = index.funcs.get("cdd.shared.pure_utils.find_module_filepath")
    if fmf is not None and fmf.qual in reach:
        ctx.note(
            "exmod unconditionally calls find_module_filepath -> importlib.util.find_spec, which "
            "imports parent packages of the analysed module (may write __pycache__ even under "
            "--dry-run); outside the inventory, not claimed either way"
        )

