"""
C11 — every parse, emit and doctrans call terminates.

C11.progress : every `while` loop makes progress on every back-edge path (sound detector of a
               loop that repeats the same state forever).
C11.variant  : ranking idioms (counter against a bound not modified in the body, unconditional
               pop on the tested container); loops matching none are listed as *unproved*.
C11.iter     : infinite iterators (count/cycle/repeat) are only consumed through
               islice/zip/takewhile/next; no `for x in L` body grows L.
C11.rec      : recursive calls do not pass the function's own parameters unchanged.
C11.regex    : no regular expression literal handed to `re` can backtrack exponentially (parse-tree check).
"""

import ast

from ..core import iter_own, short, stored_names
from ..walker import names_in

MUTATORS = frozenset(
    "pop append clear extend insert remove update add discard popitem setdefault sort reverse "
    "popleft appendleft rotate".split()
)
PURE_CALLS = frozenset(
    "len isspace find rfind count startswith endswith strip lstrip rstrip join isinstance min max "
    "index isdigit isalpha isidentifier lower upper get keys values items hasattr getattr "
    "frozenset tuple str int abs any all bool partial rpartial takewhile dropwhile map filter zip "
    "enumerate reversed sorted list dict set sum iter chain islice itemgetter attrgetter repr format "
    "splitlines split rsplit partition rpartition replace title capitalize count_iter_items".split()
)
NONNEG_CALLS = frozenset(("count_iter_items", "len"))


def call_name(c):
    """trailing name of a call's callee"""
    f = c.func
    return f.id if isinstance(f, ast.Name) else f.attr if isinstance(f, ast.Attribute) else None


def simple_updates(s):
    """names (re)assigned or mutated by simple statement s"""
    out = set()
    if isinstance(s, (ast.Assign, ast.AnnAssign, ast.AugAssign)):
        for t in s.targets if isinstance(s, ast.Assign) else [s.target]:
            out.update(stored_names(t))
            if isinstance(t, (ast.Subscript, ast.Attribute)):
                root = t
                while isinstance(root, (ast.Subscript, ast.Attribute)):
                    root = root.value
                if isinstance(root, ast.Name):
                    out.add(root.id)
    if isinstance(s, ast.Delete):
        for t in s.targets:
            root = t
            while isinstance(root, (ast.Subscript, ast.Attribute)):
                root = root.value
            if isinstance(root, ast.Name):
                out.add(root.id)
    for n in ast.walk(s):
        if isinstance(n, ast.Call):
            if (
                isinstance(n.func, ast.Attribute)
                and n.func.attr in MUTATORS
                and isinstance(n.func.value, ast.Name)
            ):
                out.add(n.func.value.id)
            if (
                isinstance(n.func, ast.Name)
                and n.func.id == "next"
                and n.args
                and isinstance(n.args[0], ast.Name)
            ):
                out.add(n.args[0].id)
        elif isinstance(n, ast.NamedExpr):
            out.update(stored_names(n.target))
    return out


class PathFact(ast.Expr):
    """an `if` test taken with a known truth value on this path (behaves like Expr(test))"""

    def __init__(self, test, truth):
        ast.Expr.__init__(self, value=test)
        self.truth = truth


def body_paths(stmts, upd=(), inline=None, _depth=0):
    """
    yield (kind, tuple of simple statements executed) for each path through stmts.
    kind: fall | back (continue) | break | exit (return/raise)
    Inner loops contribute nothing (they may run zero times) except their return/raise exits.

    :param inline: optional callable(call node) -> list of statements | None. When a statement is a bare call
        `h(...)` and `inline` returns the body of h (parameters already renamed to the arguments), the paths of that
        body are spliced in: a `return` inside it ends the helper, not the caller.
    """
    if not stmts:
        yield ("fall", upd)
        return
    s, rest = stmts[0], stmts[1:]
    if inline is not None and _depth < 3 and isinstance(s, ast.Expr) and not isinstance(s, PathFact) and isinstance(s.value, ast.Call):
        hbody = inline(s.value)
        if hbody is not None:
            for k, u in body_paths(hbody, upd, inline, _depth + 1):
                returned = k == "exit" and u and isinstance(u[-1], ast.Return)
                if k == "fall" or returned:
                    for x in body_paths(rest, u[:-1] if returned else u, inline, _depth):
                        yield x
                else:
                    yield (k, u)
            return
    if inline is not None:
        # same enumeration, carrying the inliner along
        for x in _body_paths_inl(s, rest, upd, inline, _depth):
            yield x
        return
    if isinstance(s, ast.If):
        for br, truth in ((s.body, True), (s.orelse, False)):
            for k, u in body_paths(br, upd + (PathFact(s.test, truth),)):
                if k == "fall":
                    for x in body_paths(rest, u):
                        yield x
                else:
                    yield (k, u)
    elif isinstance(s, (ast.For, ast.While, ast.AsyncFor)):
        if any(isinstance(n, (ast.Return, ast.Raise)) for n in ast.walk(s)):
            yield ("exit", upd)
        for x in body_paths(rest, upd):
            yield x
    elif isinstance(s, ast.Break):
        yield ("break", upd)
    elif isinstance(s, ast.Continue):
        yield ("back", upd)
    elif isinstance(s, (ast.Return, ast.Raise)):
        yield ("exit", upd + (s,))
    elif isinstance(s, (ast.With, ast.AsyncWith)):
        for k, u in body_paths(s.body, upd):
            if k == "fall":
                for x in body_paths(rest, u):
                    yield x
            else:
                yield (k, u)
    elif isinstance(s, ast.Try):
        alts = [s.body + s.orelse] + [h.body for h in s.handlers]
        for alt in alts:
            for k, u in body_paths(alt + s.finalbody, upd):
                if k == "fall":
                    for x in body_paths(rest, u):
                        yield x
                else:
                    yield (k, u)
    elif isinstance(s, (ast.FunctionDef, ast.AsyncFunctionDef, ast.ClassDef)):
        for x in body_paths(rest, upd):
            yield x
    else:
        for x in body_paths(rest, upd + (s,)):
            yield x


def _body_paths_inl(s, rest, upd, inline, depth):
    """body_paths' case analysis with the inliner passed down (kept apart so that the plain enumeration stays as it was)"""

    def bp(stmts, u):
        return body_paths(stmts, u, inline, depth)

    if isinstance(s, ast.If):
        for br, truth in ((s.body, True), (s.orelse, False)):
            for k, u in bp(br, upd + (PathFact(s.test, truth),)):
                if k == "fall":
                    for x in bp(rest, u):
                        yield x
                else:
                    yield (k, u)
    elif isinstance(s, (ast.For, ast.While, ast.AsyncFor)):
        if any(isinstance(n, (ast.Return, ast.Raise)) for n in ast.walk(s)):
            yield ("exit", upd)
        for x in bp(rest, upd):
            yield x
    elif isinstance(s, ast.Break):
        yield ("break", upd)
    elif isinstance(s, ast.Continue):
        yield ("back", upd)
    elif isinstance(s, (ast.Return, ast.Raise)):
        yield ("exit", upd + (s,))
    elif isinstance(s, (ast.With, ast.AsyncWith)):
        for k, u in bp(s.body, upd):
            if k == "fall":
                for x in bp(rest, u):
                    yield x
            else:
                yield (k, u)
    elif isinstance(s, ast.Try):
        alts = [s.body + s.orelse] + [h.body for h in s.handlers]
        for alt in alts:
            for k, u in bp(alt + s.finalbody, upd):
                if k == "fall":
                    for x in bp(rest, u):
                        yield x
                else:
                    yield (k, u)
    elif isinstance(s, (ast.FunctionDef, ast.AsyncFunctionDef, ast.ClassDef)):
        for x in bp(rest, upd):
            yield x
    else:
        for x in bp(rest, upd + (s,)):
            yield x


def helper_inliner(index, graph, root):
    """
    an `inline` callback for body_paths: the body of a private helper of root's Region, with the helper's parameters
    renamed to the argument expressions of the call (arguments must be plain names / constants / subscripts)
    """
    import copy

    from ..region import Region

    reg = Region(index, graph, root)

    def inline(call):
        h = index.funcs.get(index.callee(root.mod, call, root) or "")
        if h is None:
            for g in reg.funcs[1:]:
                if isinstance(call.func, ast.Name) and call.func.id == g.node.name:
                    h = g
        if h is None or h not in reg.funcs[1:]:
            return None
        bound = {}
        for i, a in enumerate(call.args):
            if isinstance(a, ast.Starred) or i >= len(h.params):
                return None
            bound[h.params[i]] = a
        for k in call.keywords:
            if k.arg is None:
                return None
            bound[k.arg] = k.value

        class Ren(ast.NodeTransformer):
            def visit_Name(self, x):
                if x.id in bound and isinstance(x.ctx, ast.Load):
                    return ast.copy_location(copy.deepcopy(bound[x.id]), x)
                if x.id in bound and isinstance(bound[x.id], ast.Name):
                    return ast.copy_location(ast.Name(id=bound[x.id].id, ctx=x.ctx), x)
                return x

        body = [st for st in h.node.body if not (isinstance(st, ast.Expr) and isinstance(st.value, ast.Constant))]
        return [Ren().visit(copy.deepcopy(st)) for st in body]

    return inline


MAYBE_ZERO_CALLS = frozenset(("count_iter_items", "len", "count", "find", "index", "rfind"))


def _maybe_zero(e):
    """an increment whose value may be zero (no guaranteed progress)"""
    if isinstance(e, ast.Constant):
        return e.value == 0
    if isinstance(e, ast.Call) and call_name(e) in MAYBE_ZERO_CALLS:
        return True
    if isinstance(e, ast.BinOp) and isinstance(e.op, (ast.Sub, ast.Add)):
        if any(isinstance(x, ast.Call) and call_name(x) in MAYBE_ZERO_CALLS for x in (e.left, e.right)):
            return True
    return False


def _method_fact(path_stmts, upto, base, idx_name, method):
    """
    Is it a fact on this path (before statement `upto`) that `<base>[<idx_name>].<method>()` is true,
    with idx_name not updated in between?  Recognises  ch = S[i]; flag = ch.m(); ... if flag: / elif flag:
    """
    alias_of_elem = set()
    flag_names = set()
    established = False
    for s in path_stmts:
        if s is upto:
            break
        if isinstance(s, PathFact):
            for n in ast.walk(s.value):
                pass
            t = s.value
            if s.truth and (
                (isinstance(t, ast.Name) and t.id in flag_names)
                or _is_method_call_on(t, alias_of_elem, base, idx_name, method)
            ):
                established = True
            elif not s.truth and isinstance(t, ast.UnaryOp) and isinstance(t.op, ast.Not):
                t2 = t.operand
                if (isinstance(t2, ast.Name) and t2.id in flag_names) or _is_method_call_on(t2, alias_of_elem, base, idx_name, method):
                    established = True
            continue
        if isinstance(s, (ast.Assign, ast.AnnAssign)) and s.value is not None:
            tg = s.targets if isinstance(s, ast.Assign) else [s.target]
            for t in tg:
                if isinstance(t, ast.Name):
                    alias_of_elem.discard(t.id)
                    flag_names.discard(t.id)
                    v = s.value
                    if (
                        isinstance(v, ast.Subscript)
                        and isinstance(v.value, ast.Name)
                        and v.value.id == base
                        and isinstance(v.slice, ast.Name)
                        and v.slice.id == idx_name
                    ):
                        alias_of_elem.add(t.id)
                    elif _is_method_call_on(v, alias_of_elem, base, idx_name, method):
                        flag_names.add(t.id)
                    if t.id == idx_name:
                        established = False
                        alias_of_elem.clear()
                        flag_names.clear()
        elif isinstance(s, ast.AugAssign) and isinstance(s.target, ast.Name) and s.target.id == idx_name:
            established = False
            alias_of_elem.clear()
            flag_names.clear()
    return established


def _is_method_call_on(e, aliases, base, idx_name, method):
    if not (isinstance(e, ast.Call) and isinstance(e.func, ast.Attribute) and e.func.attr == method and not e.args):
        return False
    r = e.func.value
    if isinstance(r, ast.Name) and r.id in aliases:
        return True
    return (
        isinstance(r, ast.Subscript)
        and isinstance(r.value, ast.Name)
        and r.value.id == base
        and isinstance(r.slice, ast.Name)
        and r.slice.id == idx_name
    )


def _step_bounds(e, path_stmts, stmt, target, refine=None):
    """(lower, upper) bound of a numeric step expression; None = unknown on that side; 'credit' = opaque"""
    if isinstance(e, ast.Constant) and isinstance(e.value, (int, float)) and not isinstance(e.value, bool):
        return (e.value, e.value)
    if isinstance(e, ast.UnaryOp) and isinstance(e.op, ast.USub):
        b = _step_bounds(e.operand, path_stmts, stmt, target, refine)
        if b == "credit":
            return b
        return (None if b[1] is None else -b[1], None if b[0] is None else -b[0])
    if isinstance(e, ast.BinOp) and isinstance(e.op, (ast.Add, ast.Sub)):
        a, b = _step_bounds(e.left, path_stmts, stmt, target, refine), _step_bounds(e.right, path_stmts, stmt, target, refine)
        if a == "credit" or b == "credit":
            return "credit"
        if isinstance(e.op, ast.Sub):
            b = (None if b[1] is None else -b[1], None if b[0] is None else -b[0])
        return (
            None if a[0] is None or b[0] is None else a[0] + b[0],
            None if a[1] is None or b[1] is None else a[1] + b[1],
        )
    if isinstance(e, ast.Call) and call_name(e) in MAYBE_ZERO_CALLS:
        lo = 0
        # count_iter_items(takewhile(str.M, S[i:])) >= 1 when S[i].M() is a fact on this path
        if call_name(e) == "count_iter_items" and e.args and isinstance(e.args[0], ast.Call) and call_name(e.args[0]) == "takewhile":
            tw = e.args[0]
            if len(tw.args) == 2:
                pred, seq = tw.args
                if (
                    isinstance(pred, ast.Attribute)
                    and isinstance(pred.value, ast.Name)
                    and pred.value.id == "str"
                    and isinstance(seq, ast.Subscript)
                    and isinstance(seq.value, ast.Name)
                    and isinstance(seq.slice, ast.Slice)
                    and isinstance(seq.slice.lower, ast.Name)
                    and seq.slice.upper is None
                    and seq.slice.lower.id == target
                ):
                    if _method_fact(path_stmts, stmt, seq.value.id, target, pred.attr):
                        lo = 1
        if call_name(e) in ("find", "index", "rfind"):
            return (-1, None)
        return (lo, None)
    if isinstance(e, ast.Call):
        # the value of any other call is an integer of unknown sign: a helper that measures a run of characters
        # (`num_of_spaces(s, start_idx=i)`) answers 0 when the character under the cursor is not of its kind
        return (None, None)
    if isinstance(e, ast.IfExp):
        # `len(rest) if k == -1 else k` with k = rest.find(c): in the arm where the not-found sentinel is excluded, k >= 0
        lo_b, lo_o = dict(refine or {}), dict(refine or {})
        t = e.test
        if isinstance(t, ast.Compare) and len(t.ops) == 1 and isinstance(t.left, ast.Name):
            try:
                rhs = ast.literal_eval(t.comparators[0])
            except Exception:
                rhs = None
            if rhs == -1 and isinstance(t.ops[0], ast.Eq) or rhs == 0 and isinstance(t.ops[0], ast.Lt):
                lo_o[t.left.id] = 0
            if rhs == -1 and isinstance(t.ops[0], (ast.NotEq, ast.Gt)) or rhs == 0 and isinstance(t.ops[0], ast.GtE):
                lo_b[t.left.id] = 0
        a, b = _step_bounds(e.body, path_stmts, stmt, target, lo_b), _step_bounds(e.orelse, path_stmts, stmt, target, lo_o)
        if a == "credit" or b == "credit":
            return "credit"
        return (
            None if a[0] is None or b[0] is None else min(a[0], b[0]),
            None if a[1] is None or b[1] is None else max(a[1], b[1]),
        )
    if isinstance(e, ast.Name):
        # a plain variable as (part of) a step: what was computed into it on this path — a length or a count (>= 0),
        # the result of find / index (>= -1, or >= 0 where the not-found sentinel has been excluded), a constant;
        # otherwise its sign is unknown
        last = None
        for s_ in path_stmts:
            if s_ is stmt:
                break
            if isinstance(s_, (ast.Assign, ast.AnnAssign)) and s_.value is not None:
                for t_ in s_.targets if isinstance(s_, ast.Assign) else [s_.target]:
                    if isinstance(t_, ast.Name) and t_.id == e.id:
                        last = s_.value
            elif isinstance(s_, ast.AugAssign) and isinstance(s_.target, ast.Name) and s_.target.id == e.id:
                last = False
        if last is not None and last is not False:
            b = _step_bounds(last, path_stmts, stmt, target, refine) if not isinstance(last, ast.Name) else (None, None)
            if b != "credit":
                lo = b[0]
                if refine and e.id in refine and (lo is None or lo < refine[e.id]) and isinstance(last, ast.Call) and call_name(last) in ("find", "index", "rfind"):
                    lo = refine[e.id]
                return (lo, b[1])
        return (None, None)
    return "credit"


def _maybe_identity(target_text, v):
    """
    `T = <expr over T>` that may return T unchanged: strip family, slices starting at T.find(..)+k,
    replace(); a slice with a positive constant lower bound really shrinks T
    """
    cur = v
    seen_self = False
    while True:
        if norm_text(cur) == target_text:
            seen_self = True
            break
        if isinstance(cur, ast.Call) and isinstance(cur.func, ast.Attribute) and cur.func.attr in (
            "strip lstrip rstrip replace lower upper title expandtabs removeprefix removesuffix".split()
        ):
            cur = cur.func.value
            continue
        if isinstance(cur, ast.Subscript) and isinstance(cur.slice, ast.Slice):
            lo = cur.slice.lower
            if isinstance(lo, ast.Constant) and isinstance(lo.value, int) and lo.value >= 1:
                return False  # T = T[1:] really shrinks
            cur = cur.value
            continue
        if isinstance(cur, ast.Subscript) and isinstance(cur.slice, ast.Constant):
            cur = cur.value  # h(T)[0]: an element of what h returns
            continue
        if isinstance(cur, ast.Call) and not isinstance(cur.func, ast.Attribute) or (
            isinstance(cur, ast.Call) and isinstance(cur.func, ast.Attribute) and isinstance(cur.func.value, (ast.Name, ast.Attribute)) and norm_text(cur.func.value) != target_text
        ):
            # T = h(T, ...): a function handed T may hand it back unchanged (extract_default on a doc without a default,
            # a normaliser on normalised text); nothing in the loop says it cannot
            if any(norm_text(a) == target_text for a in list(cur.args) + [k.value for k in cur.keywords]):
                seen_self = True
                break
            return False
        return False
    return seen_self


def norm_text(e):
    """normalised source text"""
    try:
        return ast.unparse(e)
    except Exception:  # pragma: no cover
        return ""


def really_changed(path_stmts, local_names=None):
    """
    Names whose value after one trip along this path may differ from their value after the
    previous trip along it (structural progress):
      * mutated objects (pop/append/..., del, subscript store, next(), passed to an impure call);
      * `x += step` with a step that is not possibly zero;
      * names whose last assignment on the path is self-referential, directly (`x = f(x)`) or
        through a loop-carried cycle (`p = n + 1; n = s.find(c, p)`);
      * names whose last assignment reads any of the above.
    `q = xs[0]` with xs untouched on the path is NOT progress: next time round it yields the same q.
    """
    changed = set()
    last_def = {}
    aug_steps = {}
    plain_seen = set()
    maybe_same = set()
    for s in path_stmts:
        for n in ast.walk(s):
            if isinstance(n, ast.Call):
                if (
                    isinstance(n.func, ast.Attribute)
                    and n.func.attr in MUTATORS
                    and isinstance(n.func.value, ast.Name)
                ):
                    changed.add(n.func.value.id)
                elif (
                    isinstance(n.func, ast.Name)
                    and n.func.id == "next"
                    and n.args
                    and isinstance(n.args[0], ast.Name)
                ):
                    changed.add(n.args[0].id)
                elif call_name(n) not in PURE_CALLS and call_name(n) not in MAYBE_ZERO_CALLS:
                    for a in list(n.args) + [k.value for k in n.keywords]:
                        # an object handed to an unknown callee may be mutated by it; module-level
                        # names (imported functions, constants) are not loop state
                        if isinstance(a, ast.Name) and (local_names is None or a.id in local_names):
                            changed.add(a.id)
                    # an unknown method may change its receiver's state (f.readline(), it.__next__(), q.get())
                    if isinstance(n.func, ast.Attribute):
                        root = n.func.value
                        while isinstance(root, (ast.Attribute, ast.Subscript)):
                            root = root.value
                        if isinstance(root, ast.Name) and (local_names is None or root.id in local_names):
                            changed.add(root.id)
            elif isinstance(n, ast.NamedExpr):
                changed.update(stored_names(n.target))
        if isinstance(s, ast.Delete):
            for t in s.targets:
                root = t
                while isinstance(root, (ast.Subscript, ast.Attribute)):
                    root = root.value
                if isinstance(root, ast.Name):
                    changed.add(root.id)
        if isinstance(s, (ast.Assign, ast.AnnAssign, ast.AugAssign)) and s.value is not None:
            flat_targets = []
            for t in s.targets if isinstance(s, ast.Assign) else [s.target]:
                if isinstance(t, (ast.Tuple, ast.List)) and any(isinstance(x, (ast.Subscript, ast.Attribute)) for x in t.elts):
                    # `d["k"], v = f(...)`: each element is a target of its own
                    flat_targets.extend(t.elts)
                else:
                    flat_targets.append(t)
            for t in flat_targets:
                if isinstance(t, (ast.Subscript, ast.Attribute)):
                    root = t
                    while isinstance(root, (ast.Subscript, ast.Attribute)):
                        root = root.value
                    if isinstance(root, ast.Name):
                        if not isinstance(s, ast.AugAssign) and len(flat_targets) == 1 and _maybe_identity(norm_text(t), s.value):
                            maybe_same.add(root.id)
                        else:
                            changed.add(root.id)
                    continue
                for nm in stored_names(t):
                    last_def[nm] = s
                    aug_steps.setdefault(nm, [])
                    if isinstance(s, ast.AugAssign) and isinstance(s.op, (ast.Add, ast.Sub)):
                        if aug_steps[nm] is not None:  # None: plainly assigned earlier on this path (see plain_seen)
                            aug_steps[nm].append(s)
                    else:
                        aug_steps[nm] = None if not isinstance(s, ast.AugAssign) else aug_steps[nm]
                        if not isinstance(s, ast.AugAssign):
                            plain_seen.add(nm)
    reads = {}
    for nm, s in last_def.items():
        r = set(names_in(s.value))
        if isinstance(s, ast.AugAssign):
            steps = aug_steps.get(nm)
            if steps and nm not in plain_seen and all(isinstance(x.op, (ast.Add, ast.Sub)) for x in steps):
                # net step of all `nm += e` / `nm -= e` on this path, as an interval
                lo, hi, credit = 0, 0, False
                for x in steps:
                    b = _step_bounds(x.value, path_stmts, x, nm)
                    if b == "credit":
                        credit = True
                        break
                    if isinstance(x.op, ast.Sub):
                        b = (None if b[1] is None else -b[1], None if b[0] is None else -b[0])
                    lo = None if lo is None or b[0] is None else lo + b[0]
                    hi = None if hi is None or b[1] is None else hi + b[1]
                if credit or (lo is not None and lo >= 1) or (hi is not None and hi <= -1):
                    changed.add(nm)
                # else: the net step may be zero -> no credit
            elif not _maybe_zero(s.value):
                changed.add(nm)
        else:
            if nm in r and not _maybe_identity(nm, s.value):
                changed.add(nm)
        reads[nm] = r
    # loop-carried cycles among plainly assigned names
    plain = {nm for nm, s in last_def.items() if not isinstance(s, ast.AugAssign)}
    for nm in plain:
        seen = set()
        # a direct self-reference was judged above (it may be a maybe-identity update)
        work = [x for x in reads[nm] if x in plain and x != nm]
        while work:
            x = work.pop()
            if x == nm:
                changed.add(nm)
                break
            if x in seen:
                continue
            seen.add(x)
            work.extend(y for y in reads[x] if y in plain)
    progress = True
    while progress:
        progress = False
        for nm in last_def:
            if nm not in changed and (reads[nm] & changed):
                changed.add(nm)
                progress = True
    return changed


def _immutable_locals(f, w):
    """
    local names that hold immutable values, so that handing them to an unknown callee (or calling a method on them)
    cannot change the loop's state: numeric counters of the loop (`i += 1`, `i += h(...) - 1`) and parameters the
    function's own docstring types as str / int / bool
    """
    from ..inputmut import immutable_params

    out = set()
    g = f
    while g is not None:
        out |= set(immutable_params(g.node))
        g = g.outer
    for n in ast.walk(w):
        if (
            isinstance(n, ast.AugAssign)
            and isinstance(n.target, ast.Name)
            and isinstance(n.op, (ast.Add, ast.Sub))
            and any(isinstance(x, ast.Constant) and isinstance(x.value, int) and not isinstance(x.value, bool) for x in ast.walk(n.value))
            and not any(isinstance(x, (ast.List, ast.Tuple, ast.ListComp, ast.JoinedStr)) or (isinstance(x, ast.Constant) and isinstance(x.value, str)) for x in ast.walk(n.value))
        ):
            out.add(n.target.id)
    return out


def walk_body(w):
    """all nodes of the loop test and body (not the `else` clause, which runs after the loop)"""
    yield w.test
    for n in ast.walk(w.test):
        yield n
    for st in w.body:
        for n in ast.walk(st):
            yield n


def exit_relevant(w):
    """names the loop exit depends on: test + guards of break/return/raise, closed over body defs"""
    rel = set(names_in(w.test))
    guards_exprs = [w.test]

    def rec(stmts, guards, gexprs):
        for s in stmts:
            if isinstance(s, ast.If):
                g = guards | names_in(s.test)
                rec(s.body, g, gexprs + [s.test])
                rec(s.orelse, g, gexprs + [s.test])
            elif isinstance(s, (ast.Break, ast.Return, ast.Raise)):
                rel.update(guards)
                guards_exprs.extend(gexprs)
            elif isinstance(s, (ast.For, ast.While, ast.AsyncFor)):
                if any(isinstance(n, (ast.Return, ast.Raise)) for n in ast.walk(s)):
                    rel.update(guards | names_in(s.iter if not isinstance(s, ast.While) else s.test))
                    for n in ast.walk(s):
                        if isinstance(n, ast.If):
                            rel.update(names_in(n.test))
            elif isinstance(s, (ast.With, ast.AsyncWith)):
                rec(s.body, guards, gexprs)
            elif isinstance(s, ast.Try):
                rec(s.body + s.orelse + s.finalbody, guards, gexprs)
                for h in s.handlers:
                    rec(h.body, guards, gexprs)

    rec(w.body, set(), [])
    changed = True
    while changed:
        changed = False
        for n in walk_body(w):
            if isinstance(n, (ast.Assign, ast.AnnAssign, ast.AugAssign)) and n.value is not None:
                tn = set()
                for t in n.targets if isinstance(n, ast.Assign) else [n.target]:
                    tn.update(stored_names(t))
                if tn & rel:
                    add = names_in(n.value) - rel
                    if add:
                        rel |= add
                        changed = True
            elif isinstance(n, (ast.For, ast.comprehension)):
                tn = set(stored_names(n.target))
                if tn & rel:
                    add = names_in(n.iter) - rel
                    if add:
                        rel |= add
                        changed = True
    return rel, guards_exprs


def pure_expr(e):
    """only allow-listed calls"""
    for n in ast.walk(e):
        if isinstance(n, ast.Call) and call_name(n) not in PURE_CALLS:
            return False
        if isinstance(n, (ast.Await, ast.Yield, ast.YieldFrom, ast.NamedExpr)):
            return False
    return True


def analyse_while(w, local_names=None):
    """returns dict describing the loop"""
    rel, gexprs = exit_relevant(w)
    body_assigned = set()
    mutated = set()
    defs = {}
    for n in walk_body(w):
        if isinstance(n, (ast.Assign, ast.AnnAssign, ast.AugAssign)):
            for t in n.targets if isinstance(n, ast.Assign) else [n.target]:
                for nm in stored_names(t):
                    body_assigned.add(nm)
                    defs.setdefault(nm, []).append(n)
                if isinstance(t, (ast.Subscript, ast.Attribute)):
                    root = t
                    while isinstance(root, (ast.Subscript, ast.Attribute)):
                        root = root.value
                    if isinstance(root, ast.Name):
                        mutated.add(root.id)
        elif isinstance(n, (ast.For, ast.AsyncFor, ast.comprehension)):
            for nm in stored_names(n.target):
                body_assigned.add(nm)
                defs.setdefault(nm, []).append(n)
        elif isinstance(n, ast.Call):
            if (
                isinstance(n.func, ast.Attribute)
                and n.func.attr in MUTATORS
                and isinstance(n.func.value, ast.Name)
            ):
                mutated.add(n.func.value.id)
            if (
                isinstance(n.func, ast.Name)
                and n.func.id == "next"
                and n.args
                and isinstance(n.args[0], ast.Name)
            ):
                mutated.add(n.args[0].id)
        elif isinstance(n, ast.Delete):
            for t in n.targets:
                root = t
                while isinstance(root, (ast.Subscript, ast.Attribute)):
                    root = root.value
                if isinstance(root, ast.Name):
                    mutated.add(root.id)
        elif isinstance(n, ast.NamedExpr):
            for nm in stored_names(n.target):
                body_assigned.add(nm)
                defs.setdefault(nm, []).append(n)
    const = {x for x in rel if x not in body_assigned and x not in mutated}
    changed = True
    while changed:
        changed = False
        for v in sorted((body_assigned & rel) - const - mutated):
            ds = defs.get(v, [])
            if ds and all(
                isinstance(d, (ast.Assign, ast.AnnAssign))
                and d.value is not None
                and pure_expr(d.value)
                and all(
                    (x in const) or (x not in body_assigned and x not in mutated)
                    for x in names_in(d.value)
                )
                for d in ds
            ):
                const.add(v)
                changed = True
    prog = rel - const
    tests_pure = all(pure_expr(g) for g in gexprs)
    bad = []
    n_paths = 0
    for k, path_stmts in body_paths(w.body):
        if k in ("fall", "back"):
            n_paths += 1
            ch = really_changed(path_stmts, local_names)
            if not (ch & prog):
                bad.append(sorted(ch))
    return {
        "exit_relevant": sorted(rel),
        "iteration_constant": sorted(const & rel),
        "progress_capable": sorted(prog),
        "tests_pure": tests_pure,
        "back_edge_paths": n_paths,
        "stuck_paths": bad,
    }


# loops whose termination is delegated to a callee, read and argued by hand: (function, "while <test>") -> argument
TERMINATION_ARGUMENTS = {}


def delegated(index, f, w, info):
    """
    Names of repository functions the loop's termination is delegated to: every progress-capable
    exit-relevant name is (re)bound in the body only from the result of a call to a repository function
    (iterating a function until it returns a sentinel), and no counter / container bound takes part.
    """
    prog = set(info["progress_capable"])
    if not prog:
        return None
    callees = set()
    seen = set()
    for n in walk_body(w):
        if isinstance(n, (ast.Assign, ast.AnnAssign, ast.AugAssign, ast.NamedExpr)):
            tg = n.targets if isinstance(n, ast.Assign) else [n.target]
            stored = set()
            for t in tg:
                stored.update(stored_names(t))
            hit = stored & prog
            if not hit:
                continue
            seen.update(hit)
            v = n.value
            if isinstance(n, ast.AugAssign) or not isinstance(v, ast.Call):
                return None
            q = index.callee(f.mod, v, f)
            if q not in index.funcs:
                return None
            callees.add(index.funcs[q].node.name)
        elif isinstance(n, (ast.For, ast.AsyncFor, ast.comprehension)):
            if set(stored_names(n.target)) & prog:
                return None
        elif isinstance(n, ast.Call) and isinstance(n.func, ast.Attribute) and n.func.attr in MUTATORS and isinstance(n.func.value, ast.Name) and n.func.value.id in prog:
            return None
        elif isinstance(n, ast.Delete):
            return None
    if seen != prog:
        return None
    return callees


def variant(w):
    """recognised ranking idiom or None"""
    body_mut = set()
    for n in ():
        pass
    assigned = set()
    for s in walk_body(w):
        if isinstance(s, ast.stmt) and s is not w:
            assigned |= simple_updates(s) if not isinstance(
                s, (ast.If, ast.For, ast.While, ast.With, ast.Try)
            ) else set()
    del body_mut
    tests = w.test.values if isinstance(w.test, ast.BoolOp) and isinstance(w.test.op, ast.And) else [w.test]
    for t in tests:
        # container drained by an unconditional pop
        cont = None
        if isinstance(t, ast.Call) and call_name(t) == "len" and t.args and isinstance(t.args[0], ast.Name):
            cont = t.args[0].id
        elif isinstance(t, ast.Name):
            cont = t.id
        if cont is not None:
            for s in w.body:
                for n in ast.walk(s) if not isinstance(s, (ast.If, ast.For, ast.While, ast.Try)) else []:
                    if (
                        isinstance(n, ast.Call)
                        and isinstance(n.func, ast.Attribute)
                        and n.func.attr in ("pop", "popleft", "popitem")
                        and isinstance(n.func.value, ast.Name)
                        and n.func.value.id == cont
                    ):
                        grows = any(
                            isinstance(m, ast.Call)
                            and isinstance(m.func, ast.Attribute)
                            and m.func.attr in ("append", "extend", "insert", "appendleft")
                            and isinstance(m.func.value, ast.Name)
                            and m.func.value.id == cont
                            for m in walk_body(w)
                        )
                        if not grows:
                            return "unconditional {}.pop() on the tested container".format(cont)
        if isinstance(t, ast.Compare) and len(t.ops) == 1 and isinstance(t.left, ast.Name):
            v = t.left.id
            op = t.ops[0]
            bound_names = names_in(t.comparators[0])
            if bound_names & assigned:
                continue
            ups = [
                n
                for n in walk_body(w)
                if isinstance(n, (ast.Assign, ast.AugAssign, ast.AnnAssign))
                and v in set(
                    x
                    for tt in (n.targets if isinstance(n, ast.Assign) else [n.target])
                    for x in stored_names(tt)
                )
            ]
            if not ups:
                continue
            if isinstance(op, (ast.Lt, ast.LtE)):

                def nonneg(e):
                    if isinstance(e, ast.Constant) and isinstance(e.value, int):
                        return e.value >= 0
                    if isinstance(e, ast.Call) and call_name(e) in NONNEG_CALLS:
                        return True
                    return False

                if all(
                    isinstance(u, ast.AugAssign) and isinstance(u.op, ast.Add) and nonneg(u.value)
                    for u in ups
                ):
                    # a positive constant increment on every back-edge path
                    pos = {
                        id(u)
                        for u in ups
                        if isinstance(u.value, ast.Constant) and u.value.value > 0
                    }
                    if _on_every_path(w.body, pos):
                        return "counter {} += positive constant on every path, bound not modified".format(v)
            if isinstance(op, (ast.NotEq, ast.Gt, ast.GtE)):
                c = t.comparators[0]
                if (
                    all(
                        isinstance(u, ast.AugAssign)
                        and isinstance(u.op, ast.Sub)
                        and isinstance(u.value, ast.Constant)
                        and u.value.value == 1
                        for u in ups
                    )
                    and isinstance(c, ast.Constant)
                    and _on_every_path(w.body, {id(u) for u in ups})
                ):
                    return "countdown {} -= 1 towards constant {} on every path".format(
                        v, c.value
                    )
    return None


def diverging(w, ancestors_tests):
    """
    `!=` exit test against a monotone update with no direction guard: if the start value is already
    past the bound the loop runs forever. Returns a description or None.
    """
    tests = w.test.values if isinstance(w.test, ast.BoolOp) and isinstance(w.test.op, ast.And) else [w.test]
    grows, shrinks, incs, decs, assigned = set(), set(), set(), set(), set()
    strgrow = {}
    for n in walk_body(w):
        if isinstance(n, ast.Call) and isinstance(n.func, ast.Attribute) and isinstance(n.func.value, ast.Name):
            if n.func.attr in ("append", "insert", "extend", "appendleft", "add"):
                grows.add(n.func.value.id)
            elif n.func.attr in ("pop", "remove", "clear", "popleft", "discard", "popitem"):
                shrinks.add(n.func.value.id)
        elif isinstance(n, ast.AugAssign) and isinstance(n.target, ast.Name):
            pos = isinstance(n.value, ast.Constant) and isinstance(n.value.value, (int, float)) and n.value.value > 0
            if isinstance(n.op, ast.Add) and pos:
                incs.add(n.target.id)
            elif isinstance(n.op, ast.Sub) and pos:
                decs.add(n.target.id)
            elif isinstance(n.op, ast.Add) and isinstance(n.value, ast.Constant) and isinstance(n.value.value, str):
                # s += "]" : a string that only ever gets a constant suffix
                strgrow.setdefault(n.target.id, []).append(n.value.value)
            else:
                assigned.add(n.target.id)
        elif isinstance(n, (ast.Assign, ast.AnnAssign)):
            for t in n.targets if isinstance(n, ast.Assign) else [n.target]:
                assigned.update(stored_names(t))
        elif isinstance(n, ast.Delete):
            for t in n.targets:
                root = t
                while isinstance(root, (ast.Subscript, ast.Attribute)):
                    root = root.value
                if isinstance(root, ast.Name):
                    shrinks.add(root.id)
    changed = grows | shrinks | incs | decs | assigned | set(strgrow)

    def count_of(e):
        """(string name, constant needle) of `name.count("x")`"""
        if (
            isinstance(e, ast.Call)
            and call_name(e) == "count"
            and isinstance(e.func, ast.Attribute)
            and isinstance(e.func.value, ast.Name)
            and len(e.args) == 1
            and isinstance(e.args[0], ast.Constant)
            and isinstance(e.args[0].value, str)
        ):
            return e.func.value.id, e.args[0].value
        return None

    def constant_over_iteration(e):
        if not (names_in(e) & changed):
            return True
        c = count_of(e)
        if c is not None and c[0] in strgrow and c[0] not in (assigned | incs | decs | grows | shrinks):
            return not any(c[1] in suffix for suffix in strgrow[c[0]])
        return False

    for t in tests:
        if not (isinstance(t, ast.Compare) and len(t.ops) == 1 and isinstance(t.ops[0], ast.NotEq)):
            continue
        for side, other in ((t.left, t.comparators[0]), (t.comparators[0], t.left)):
            var, kind = None, None
            c = count_of(side)
            if c is not None and c[0] in strgrow and c[0] not in (assigned | incs | decs | grows | shrinks) and any(c[1] in suffix for suffix in strgrow[c[0]]):
                if constant_over_iteration(other):
                    a_txt, b_txt = norm_text(side), norm_text(other)
                    guarded = False
                    for g in ancestors_tests:
                        for cmp_ in ast.walk(g):
                            if isinstance(cmp_, ast.Compare) and len(cmp_.ops) == 1 and isinstance(cmp_.ops[0], (ast.Lt, ast.LtE, ast.Gt, ast.GtE)):
                                if {norm_text(cmp_.left), norm_text(cmp_.comparators[0])} == {a_txt, b_txt}:
                                    guarded = True
                    if not guarded:
                        return "`{}` is the exit test but {} only increases (each pass appends {!r} to {}) while {} stays put: if it starts above {} the loop never ends".format(
                            norm_text(t), a_txt, strgrow[c[0]][0], c[0], b_txt, b_txt
                        )
                continue
            if isinstance(side, ast.Call) and call_name(side) == "len" and side.args and isinstance(side.args[0], ast.Name):
                var = side.args[0].id
                if var in grows and var not in shrinks and var not in assigned:
                    kind = "grows"
                elif var in shrinks and var not in grows and var not in assigned:
                    kind = "shrinks"
            elif isinstance(side, ast.Name):
                var = side.id
                if var in incs and var not in decs and var not in assigned:
                    kind = "increases"
                elif var in decs and var not in incs and var not in assigned:
                    kind = "decreases"
            if kind is None:
                continue
            other_names = names_in(other)
            if other_names & (grows | shrinks | incs | decs | assigned):
                continue
            # bounded by an IndexError: the counter indexes a sequence in the test or the body
            if kind in ("increases", "decreases"):
                indexed = any(
                    isinstance(n, ast.Subscript) and isinstance(n.slice, ast.Name) and n.slice.id == var
                    for n in walk_body(w)
                )
                if indexed:
                    continue
            # a dominating direction guard: an enclosing test comparing the same two sides with < or >
            a_txt, b_txt = norm_text(side), norm_text(other)
            guarded = False
            for g in ancestors_tests:
                for c in ast.walk(g):
                    if isinstance(c, ast.Compare) and len(c.ops) == 1 and isinstance(c.ops[0], (ast.Lt, ast.LtE, ast.Gt, ast.GtE)):
                        sides = {norm_text(c.left), norm_text(c.comparators[0])}
                        if a_txt in sides and b_txt in sides:
                            guarded = True
            if guarded:
                continue
            return "`{}` is the exit test but {} only {}: if it starts past the bound ({}) the loop never ends".format(
                norm_text(t), var, kind, b_txt
            )
    return None


def _on_every_path(stmts, ids):
    """does every fall/back path through stmts execute one of the statements `ids`?"""

    def paths(stmts, hit):
        if not stmts:
            yield ("fall", hit)
            return
        s, rest = stmts[0], stmts[1:]
        if isinstance(s, ast.If):
            for br in (s.body, s.orelse):
                for k, h in paths(br, hit):
                    if k == "fall":
                        for x in paths(rest, h):
                            yield x
                    else:
                        yield (k, h)
        elif isinstance(s, (ast.Break, ast.Return, ast.Raise)):
            yield ("exit", hit)
        elif isinstance(s, ast.Continue):
            yield ("back", hit)
        elif isinstance(s, (ast.With, ast.Try)):
            for k, h in paths(s.body, hit):
                if k == "fall":
                    for x in paths(rest, h):
                        yield x
                else:
                    yield (k, h)
        elif isinstance(s, (ast.For, ast.While)):
            for x in paths(rest, hit):
                yield x
        else:
            for x in paths(rest, hit or id(s) in ids):
                yield x

    return all(h for k, h in paths(stmts, False) if k in ("fall", "back"))


INFINITE = {"itertools.count": 0, "itertools.cycle": 1, "itertools.repeat": 1}
BOUNDERS = frozenset(
    ("itertools.islice", "builtins.zip", "itertools.takewhile", "builtins.next")
)


def run(ctx):
    """entry"""
    index = ctx.index
    ctx.explanation = (
        "Every `while` loop of the package is enumerated; exit-relevant names (loop test + guards of "
        "break/return/raise, closed over assignments) minus iteration-constant names must be updated "
        "on every path to the back edge, else the loop repeats one state forever (C11.progress). "
        "Ranking idioms are recognised (C11.variant; others listed unproved). Infinite iterators "
        "must be bounded by islice/zip/takewhile/next, loop bodies must not grow the iterated list "
        "(C11.iter). Recursive calls must not pass the caller's parameters unchanged (C11.rec)."
    )
    ctx.assumptions += [
        "loop tests and exit guards are side-effect free (checked against an allow-list; a loop whose "
        "tests call anything else is listed as unproved)",
        "library calls terminate",
        "time proportional to input size is NOT decided (several scanners are quadratic by construction)",
        "Python's recursion limit turns unbounded recursion into RecursionError, so only recursion with "
        "unchanged arguments is reported",
    ]
    # anchors
    index.func("cdd.docstring.emit.docstring")
    index.func("cdd.shared.docstring_utils._get_token_last_idx")
    index.func("cdd.docstring.utils.parse_utils._union_literal_from_sentence_phase0")
    n_loops = 0
    unproved = []
    samples = []
    for f in index.nontest_funcs():
        for w in iter_own(f.node):
            if not isinstance(w, ast.While):
                continue
            n_loops += 1
            info = analyse_while(w, set(f.locals) - _immutable_locals(f, w))
            head = "while " + short(w.test, 80)
            stuck = info["stuck_paths"]
            if not info["tests_pure"]:
                unproved.append("{}:{} {} (tests call non-allow-listed functions)".format(f.qual, w.lineno, head))
                ctx.ob("C11.progress", f, head, True, "unproved: impure tests", line=w.lineno)
                continue
            ok = not stuck
            ctx.ob(
                "C11.progress",
                f,
                head,
                ok,
                ""
                if ok
                else "no guaranteed progress on a back-edge path: exit-relevant={} "
                "(constant={}, progress-capable={}); a path to the back edge is guaranteed to change only {} "
                "-> the loop can repeat the same state forever on that path".format(
                    info["exit_relevant"],
                    info["iteration_constant"],
                    info["progress_capable"],
                    stuck[0],
                ),
                line=w.lineno,
            )
            if ok:
                anc = []
                p = f.mod.parents.get(w)
                while p is not None and p is not f.node:
                    if isinstance(p, (ast.If, ast.While)):
                        anc.append(p.test)
                    p = f.mod.parents.get(p)
                div = diverging(w, anc)
                ctx.ob("C11.variant", f, head, div is None, div or "", line=w.lineno)
            var = variant(w) if ok else None
            if ok and var is None:
                dele = delegated(index, f, w, info)
                if dele:
                    key = (f.qual, " ".join(head.split()))
                    reason = TERMINATION_ARGUMENTS.get(key)
                    ctx.ob(
                        "C11.variant",
                        f,
                        head,
                        reason is not None,
                        ""
                        if reason is not None
                        else "the loop ends only when {}() hands back a value that fails the test: every exit-relevant name ({}) is "
                        "re-computed by that call from the previous pass's result, nothing in the loop bounds the number of passes, "
                        "and the callee promises no strict progress (an input it returns unchanged, or grows, loops forever)".format(
                            "/".join(sorted(dele)), ", ".join(info["progress_capable"])
                        ),
                        line=w.lineno,
                    )
            if ok and var is None:
                unproved.append("{}:{} {} (progress on every path, but no ranking idiom recognised)".format(f.qual, w.lineno, head))
            info["loop"] = "{}:{}".format(f.qual, w.lineno)
            info["variant"] = var
            samples.append(info)
    ctx.count("while_loops", n_loops)
    ctx.floor("while loops in non-test code", n_loops, 3)
    for u in unproved:
        ctx.note("unproved (not reported): " + u)
    ctx.extra["unproved_loops"] = unproved
    # also module-level whiles (none expected)
    for name in index.nontest_modules():
        m = index.modules[name]
        for s in m.tree.body:
            for n in ast.walk(s):
                if isinstance(n, (ast.FunctionDef, ast.AsyncFunctionDef)):
                    break
            if isinstance(s, ast.While):
                info = analyse_while(s)
                ctx.ob("C11.progress", m, "while " + short(s.test), not info["stuck_paths"], "module-level loop without progress", line=s.lineno)
    ctx.section(_iter_rule, ctx)
    ctx.section(_rec_rule, ctx)
    ctx.section(_regex_rule, ctx)
    from . import c10 as _c10_state

    ctx.section(_c10_state.state_slice, ctx, 'C11.state', ['cdd.compound.doctrans.doctrans', 'cdd.docstring.emit.docstring', 'cdd.docstring.parse.docstring'], 5)
    ctx.samples = samples[:8]


RE_FUNCS = frozenset("compile match search fullmatch sub subn split findall finditer".split())


def _regex_rule(ctx):
    """
    C11.regex: a regular expression applied to input text must not be able to backtrack exponentially
    (a 30-character word would take minutes). Every pattern handed to the `re` module anywhere in the
    non-test package is folded to a constant and its parse tree (re._parser, nothing is matched) is checked
    for nested unbounded repeats with optional surroundings. The package uses no regex today: the rule's
    own positive and negative examples are re-checked on every run so that zero sites is not a vacuous pass.
    """
    from ..fold import ModuleEnv, Unknown
    from ..regexcheck import catastrophic, self_test

    index = ctx.index
    bad = self_test()
    ctx.need(not bad, "the regex analyser disagrees with its own examples: {}".format(bad))
    env = ModuleEnv(index)
    n = 0
    for name in index.nontest_modules():
        m = index.modules[name]
        for c in ast.walk(m.tree):
            if not isinstance(c, ast.Call):
                continue
            # resolve in the innermost enclosing function, if any
            f = None
            p = m.parents.get(c)
            while p is not None:
                if isinstance(p, (ast.FunctionDef, ast.AsyncFunctionDef)):
                    f = next((g for g in index.funcs.values() if g.node is p), None)
                    break
                p = m.parents.get(p)
            callee = index.callee(m, c, f) or ""
            if not (callee.startswith("re.") and callee[3:] in RE_FUNCS):
                continue
            n += 1
            ctx.need(c.args, "re.{} called without a pattern argument".format(callee[3:]))
            try:
                pat = env.in_module(m, c.args[0])
            except Unknown as x:
                ctx.need(False, "{}:{} regular expression is not a constant ({}): cannot decide its backtracking behaviour".format(name, c.lineno, x))
            ctx.need(isinstance(pat, str), "{}:{} pattern folds to a non-string".format(name, c.lineno))
            why = catastrophic(pat)
            ctx.need(why is not None, "{}:{} pattern {!r} does not parse".format(name, c.lineno, pat))
            ctx.ob(
                "C11.regex",
                f if f is not None else m,
                "re.{}({!r})".format(callee[3:], pat),
                not why,
                "" if not why else "the pattern can backtrack exponentially ({}): a long run of matching characters followed by a "
                "mismatch makes the match take 2^n steps — conversion of such a docstring does not finish in reasonable time".format(why[0]),
                line=c.lineno,
            )
    ctx.count("regex_sites", n)
    ctx.count("regex_analyser_examples", 8)


def _iter_rule(ctx):
    index = ctx.index
    n_inf = n_for = 0
    for f in index.nontest_funcs():
        par = f.mod.parents
        for n in iter_own(f.node):
            if isinstance(n, ast.Call):
                callee = index.callee(f.mod, n, f)
                if callee in INFINITE:
                    if callee == "itertools.repeat" and (len(n.args) > 1 or any(k.arg == "times" for k in n.keywords)):
                        continue
                    n_inf += 1
                    ok = _bounded(index, f, n, par)
                    ctx.ob(
                        "C11.iter",
                        f,
                        n,
                        ok,
                        "" if ok else "infinite iterator {} consumed without islice/zip/takewhile/next".format(callee),
                    )
            elif isinstance(n, (ast.For, ast.AsyncFor)) and isinstance(n.iter, ast.Name):
                n_for += 1
                lst = n.iter.id
                grow = [
                    c
                    for b in n.body
                    for c in ast.walk(b)
                    if isinstance(c, ast.Call)
                    and isinstance(c.func, ast.Attribute)
                    and c.func.attr in ("append", "extend", "insert")
                    and isinstance(c.func.value, ast.Name)
                    and c.func.value.id == lst
                ]
                for c in grow:
                    # growth followed by an unconditional break/return in the same block is bounded
                    ctx.ob(
                        "C11.iter",
                        f,
                        c,
                        False,
                        "`for ... in {0}` body grows {0}: the loop may never end".format(lst),
                    )
    ctx.count("infinite_iterator_sites", n_inf)
    ctx.count("for_over_name_loops", n_for)
    ctx.floor("infinite iterator sites", n_inf, 0)


def _bounded(index, f, call, par):
    """is the infinite iterator `call` only consumed through a bounding consumer?"""
    p = par.get(call)
    # direct argument of a bounder (possibly through tuple/generator wrappers of the same expr)
    node = call
    while p is not None:
        if isinstance(p, ast.Call) and node in p.args:
            callee = index.callee(f.mod, p, f)
            if callee in BOUNDERS:
                if callee == "builtins.zip" and len(p.args) < 2:
                    return False
                return True
            return False
        if isinstance(p, (ast.Assign, ast.AnnAssign)):
            tg = p.targets if isinstance(p, ast.Assign) else [p.target]
            if len(tg) == 1 and isinstance(tg[0], ast.Name):
                name = tg[0].id
                uses = [
                    n
                    for n in iter_own(f.node)
                    if isinstance(n, ast.Name) and n.id == name and isinstance(n.ctx, ast.Load)
                ]
                if not uses:
                    return True
                for u in uses:
                    up = par.get(u)
                    if not (
                        isinstance(up, ast.Call)
                        and u in up.args
                        and index.callee(f.mod, up, f) in BOUNDERS
                        and not (index.callee(f.mod, up, f) == "builtins.zip" and len(up.args) < 2)
                    ):
                        return False
                return True
            return False
        if isinstance(p, (ast.stmt,)):
            return False
        node, p = p, par.get(p)
    return False


def _rec_rule(ctx):
    """recursive calls (direct or through partial/map) must change at least one argument"""
    index = ctx.index
    # exact call graph
    succ = {}
    sites = {}
    for f in index.nontest_funcs():
        par = f.mod.parents
        for n in iter_own(f.node):
            if isinstance(n, (ast.Name, ast.Attribute)) and isinstance(getattr(n, "ctx", None), ast.Load):
                p = par.get(n)
                if isinstance(p, ast.Attribute) and p.value is n:
                    continue
                r = index.resolve(f.mod, n, f)
                if r in index.funcs:
                    succ.setdefault(f.qual, set()).add(r)
                    sites.setdefault((f.qual, r), []).append(n)
    from ..core import RefGraph

    g = RefGraph.__new__(RefGraph)
    g.index = index
    g.succ = {q: set(succ.get(q, ())) for q in index.funcs if not index.funcs[q].mod.is_test}
    g.sites = sites
    sccs = g.sccs()
    ctx.count("recursive_sccs", len(sccs))
    ctx.extra["recursive_sccs"] = sccs
    n_sites = 0
    for comp in sccs:
        comp_set = set(comp)
        for a in comp:
            f = index.funcs[a]
            par = f.mod.parents
            for b in sorted(succ.get(a, ())):
                if b not in comp_set:
                    continue
                for n in sites[(a, b)]:
                    p = par.get(n)
                    if not (isinstance(p, ast.Call) and p.func is n):
                        continue
                    if a != b:
                        continue
                    n_sites += 1
                    # self call: are all arguments the function's own parameters, unchanged?
                    tf = index.funcs[b]
                    same = True
                    bound = 0
                    for i, arg in enumerate(p.args):
                        bound += 1
                        if not (
                            isinstance(arg, ast.Name)
                            and i < len(tf.params)
                            and arg.id == tf.params[i]
                            and arg.id not in _reassigned(f, arg.id)
                        ):
                            same = False
                    for k in p.keywords:
                        bound += 1
                        if not (
                            isinstance(k.value, ast.Name)
                            and k.arg == k.value.id
                            and k.arg in tf.params
                            and k.arg not in _reassigned(f, k.arg)
                        ):
                            same = False
                    bad = same and bound > 0
                    ctx.ob(
                        "C11.rec",
                        f,
                        p,
                        not bad,
                        "" if not bad else "self-recursive call passes every parameter unchanged",
                    )
    ctx.count("self_recursive_call_sites", n_sites)


def _reassigned(f, name):
    out = set()
    for n in iter_own(f.node):
        if isinstance(n, (ast.Assign, ast.AnnAssign, ast.AugAssign)):
            for t in n.targets if isinstance(n, ast.Assign) else [n.target]:
                if name in set(stored_names(t)):
                    out.add(name)
        elif isinstance(n, (ast.For, ast.comprehension)):
            if name in set(stored_names(n.target)):
                out.add(name)
    return out
