"""
C05 — SQLAlchemy class / Table / hybrid forms round-trip and agree (necessary parts).

C05.tables : typ2column_type (folded, incl. the import-time update from another module) and
             column_type2typ are mutually inverse on the property's scalar domain.
C05.optional : the Column reader wraps a type in Optional depending on `nullable` (and the type) only.
C05.stale  : no guard reads a key that has been translated away on every path (key typestate).
C05.vocab  : every Column keyword the emitters can write is folded away by column_call_to_param.
C05.pk     : every iterable fed to param_to_sqlalchemy_column_calls comes out of
             ensure_has_primary_key ("at least one"); inside it every store that introduces a
             primary-key marker is dominated by the absence test and the stores are in mutually
             exclusive arms ("at most one more than the input had").
C05.funnel : the three parsers share one: hybrid -> class -> class_to_table -> table parser.
"""

import ast

from ..core import RefGraph, iter_own, norm, short
from ..region import Region
from ..fold import ModuleEnv, Unknown
from ..vocab import keywords_written
from ..walker import GuardWalker

DOMAIN = ("int", "float", "str", "bool", "dict")
EU = "cdd.sqlalchemy.utils.emit_utils."
PU = "cdd.sqlalchemy.utils.parse_utils."


def _optional_rule(ctx, index):
    """
    C05.optional. The Column emitter encodes `Optional[T]` only as `nullable=True`; the Column reader must
    therefore wrap the type in Optional exactly according to `nullable`. Every place column_call_to_param
    (and its nested helpers) writes `<entry>["typ"] = "Optional[{}]"...` is collected, and the conditions on
    the way to it — enclosing tests and the operands that short-circuit before a helper call — may mention
    nothing of the entry but its `nullable` key (and the type being wrapped).
    """
    cc2p = index.func(PU + "column_call_to_param")
    ent = None
    for n in iter_own(cc2p.node):
        if isinstance(n, ast.Return) and isinstance(n.value, ast.Tuple) and len(n.value.elts) == 2 and isinstance(n.value.elts[1], ast.Name):
            ent = n.value.elts[1].id
    ctx.need(ent is not None, "column_call_to_param no longer returns (name, <entry local>)")
    from ..core import RefGraph
    from ..region import entry_views

    views = entry_views(index, RefGraph(index), cc2p, ent)
    sites = []
    for g, nm, chain in views:
        for n in iter_own(g.node):
            if isinstance(n, ast.Assign) and norm(n.targets[0]) == "{}['typ']".format(nm) and "Optional[{" in norm(n.value):
                sites.append((g, nm, chain, n))
    ctx.need(sites, "the Optional-wrapping store vanished from column_call_to_param")

    def guards(f, node):
        """conditions evaluated before `node` runs: enclosing If / IfExp tests and earlier BoolOp operands"""
        out = []
        par = f.mod.parents
        child, p = node, par.get(node)
        while p is not None and p is not f.node:
            if isinstance(p, ast.If) and (child in p.body or child in p.orelse):
                out.append(p.test)
            elif isinstance(p, ast.IfExp) and child is not p.test:
                out.append(p.test)
            elif isinstance(p, ast.BoolOp) and child in p.values:
                out.extend(p.values[: p.values.index(child)])
            child, p = p, par.get(p)
        return out

    n_g = 0
    checked = []
    for g, nm, chain, n in sites:
        # the store's own guards, then those around every call on the way down from column_call_to_param — each read
        # under the name the entry has in that function
        name_in = {v_[0].qual: v_[1] for v_ in views}
        gs = [(nm, t) for t in guards(g, n)]
        for caller, call in chain:
            gs += [(name_in.get(caller.qual, ent), t) for t in guards(caller, call)]
        checked.append((g, n, gs))
        # a nested wrapper (closure) is called from the root: the guards around those calls count too
        if g.outer is cc2p:
            for c in iter_own(cc2p.node):
                if isinstance(c, ast.Call) and isinstance(c.func, ast.Name) and c.func.id == g.node.name:
                    checked.append((cc2p, c, [(ent, t) for t in guards(cc2p, c)]))
    for f, node, gs in checked:
        bad = []
        for ent_, t in gs:
            n_g += 1
            for x in ast.walk(t):
                key = None
                if isinstance(x, ast.Subscript) and isinstance(x.value, ast.Name) and x.value.id == ent_ and isinstance(x.slice, ast.Constant):
                    key = x.slice.value
                elif isinstance(x, ast.Call) and isinstance(x.func, ast.Attribute) and isinstance(x.func.value, ast.Name) and x.func.value.id == ent_ and x.func.attr in ("get", "pop") and x.args and isinstance(x.args[0], ast.Constant):
                    key = x.args[0].value
                elif isinstance(x, ast.Compare) and len(x.ops) == 1 and isinstance(x.ops[0], (ast.In, ast.NotIn)) and norm(x.comparators[0]) == ent_ and isinstance(x.left, ast.Constant):
                    key = x.left.value
                if key is not None and key not in ("nullable", "typ"):
                    bad.append(key)
        ctx.ob(
            "C05.optional",
            f,
            node,
            not bad,
            ""
            if not bad
            else "whether the parsed type is wrapped in Optional also depends on the entry's {}: the emitter encodes Optional "
            "only as nullable=True, so e.g. an `Optional[float] = None` column comes back as `float`".format(sorted(set(bad))),
            line=node.lineno,
        )
    ctx.count("optional_wrap_sites_and_calls", len(checked))
    ctx.count("optional_guard_conditions", n_g)


def run(ctx):
    """entry"""
    a = None
    c2t = None
    e = None
    ehp = None
    f = None
    k = None
    n = None
    ok = None
    p2c = None
    s = None
    t = None
    v = None
    index = ctx.index
    env = ModuleEnv(index)
    graph = RefGraph(index)
    ctx.explanation = (
        "Constant folding of the two type tables (comprehension inverse + .update calls, one executed by "
        "another module at import) and inverse check on {int, float, str, bool, dict}; vocabulary "
        "comparison of Column keywords written vs handled; must-pass-through of ensure_has_primary_key on "
        "the def-use chain of every column-emission site; guard-fact dominance and arm exclusivity of the "
        "primary-key stores; return-path funnel of the three parsers."
    )
    ctx.assumptions += ["NOT decided: round-trip equality for all column lists (value level)"]
    def _sec_tables():
        nonlocal a, c2t, ok, s, t
        # ------------------------------------------------------------ tables
        try:
            t2c = env.value(EU + "typ2column_type")
            c2t = env.value(PU + "column_type2typ")
        except Unknown as x:
            ctx.need(False, "cannot fold the column type tables: {}".format(x))
        # the cross-module import-time update (already shown idempotent by C10.crossmod) is applied too
        # — whether it has run depends on what the process imported, so the table is checked in both states
        foreign = index.module("cdd.compound.openapi.utils.emit_utils")
        t2c_owner = dict(t2c)
        for s in foreign.tree.body:
            if isinstance(s, ast.Expr) and isinstance(s.value, ast.Call) and norm(s.value.func).endswith("typ2column_type.update"):
                try:
                    t2c = dict(t2c)
                    for a in s.value.args:
                        t2c.update(env.in_module(foreign, a))
                except Unknown as x:
                    ctx.need(False, "cannot fold the foreign table update: {}".format(x))
        ctx.count("table_entries_folded", len(t2c) + len(c2t))
        emod = index.module("cdd.sqlalchemy.utils.parse_utils")
        states = [("", t2c_owner)] + ([(" (after cdd.compound.openapi.utils.emit_utils was imported)", t2c)] if t2c != t2c_owner else [])
        for label, table in states:
            for t in DOMAIN:
                col = table.get(t)
                if label and col == t2c_owner.get(t):
                    continue  # same entry as in the owner's own table: judged there
                back = c2t.get(col) if isinstance(col, str) else None
                ok = back == t
                ctx.ob(
                    "C05.tables",
                    emod,
                    "{} -> {} -> {}{}".format(t, col, back, label),
                    ok,
                    ""
                    if ok
                    else "a column of type {!r} is emitted as {} and parsed back as {!r}{}: the type does not round-trip".format(t, col, back, label),
                    line=1,
                )

    ctx.section(_sec_tables)

    def _sec_vocab():
        nonlocal e, ehp, f, k, n, ok, p2c, v
        # ------------------------------------------------------------- vocab
        hck = index.func(EU + "_handle_column_keywords")
        p2c = index.func(EU + "param_to_sqlalchemy_column_calls")
        ehp = index.func(EU + "ensure_has_primary_key")
        cc2p = index.func(PU + "column_call_to_param")
        written = set()
        for f in index.nontest_funcs():
            if f.mod.name == "cdd.sqlalchemy.utils.emit_utils" and (f is hck or f is p2c or f.qual.startswith(p2c.qual) or graph.path(p2c.qual, f.qual)):
                written |= keywords_written(f)
        for n in iter_own(hck.node):
            if isinstance(n, ast.Assign) and isinstance(n.targets[0], ast.Attribute) and n.targets[0].attr == "arg" and isinstance(n.value, ast.Constant):
                written.add(n.value.value)
        # constraint keys synthesised by the emitters themselves
        for n in iter_own(ehp.node):
            if isinstance(n, ast.Dict):
                for k, v in zip(n.keys, n.values):
                    if isinstance(k, ast.Constant) and k.value == "constraints" and isinstance(v, ast.Dict):
                        written.update(x.value for x in v.keys if isinstance(x, ast.Constant))
        # the local holding the parameter entry: second element of the returned pair, whatever it is called
        ent = None
        for n in iter_own(cc2p.node):
            if isinstance(n, ast.Return) and isinstance(n.value, ast.Tuple) and len(n.value.elts) == 2 and isinstance(n.value.elts[1], ast.Name):
                ent = n.value.elts[1].id
        ctx.need(ent is not None, "column_call_to_param no longer returns (name, <entry local>)")
        from ..region import entry_views

        # the entry is visible in column_call_to_param and in every private helper it is handed to
        views = [(g_, nm_) for g_, nm_, _chain in entry_views(index, graph, cc2p, ent)]
        handled = set()
        for g_, nm_ in views:
            for n in iter_own(g_.node):
                if isinstance(n, ast.Compare) and isinstance(n.ops[0], (ast.In, ast.NotIn)) and isinstance(n.left, ast.Constant) and norm(n.comparators[0]) == nm_:
                    handled.add(n.left.value)
                if isinstance(n, ast.Call) and isinstance(n.func, ast.Attribute) and n.func.attr in ("pop", "get") and norm(n.func.value) == nm_ and n.args and isinstance(n.args[0], ast.Constant):
                    handled.add(n.args[0].value)
                if isinstance(n, ast.Tuple):
                    for e in n.elts:
                        if isinstance(e, ast.Tuple) and len(e.elts) == 2 and isinstance(e.elts[1], ast.Constant):
                            handled.add(e.elts[1].value)
        # a loop over the key names themselves: `for longname in "primary_key", "foreign_key": if longname not in e: continue;
        # e.pop(longname)` — every constant the loop variable ranges over is looked at / removed where the variable is
        loop_handled, loop_removed = set(), set()
        for g_, nm_ in views:
            for n in iter_own(g_.node):
                if not (isinstance(n, ast.For) and isinstance(n.target, ast.Name) and isinstance(n.iter, ast.Tuple) and n.iter.elts and all(isinstance(x, ast.Constant) and isinstance(x.value, str) for x in n.iter.elts)):
                    continue
                lv, consts = n.target.id, {x.value for x in n.iter.elts}
                for x in ast.walk(n):
                    if isinstance(x, ast.Compare) and isinstance(x.ops[0], (ast.In, ast.NotIn)) and isinstance(x.left, ast.Name) and x.left.id == lv and norm(x.comparators[0]) == nm_:
                        loop_handled |= consts
                    if isinstance(x, ast.Call) and isinstance(x.func, ast.Attribute) and norm(x.func.value) == nm_ and x.args and isinstance(x.args[0], ast.Name) and x.args[0].id == lv:
                        if x.func.attr in ("pop", "get"):
                            loop_handled |= consts
                        if x.func.attr == "pop":
                            loop_removed |= consts
                    if isinstance(x, ast.Delete) and any(norm(t) == "{}[{}]".format(nm_, lv) for t in x.targets):
                        loop_removed |= consts
        handled |= loop_handled
        # keys that ARE the interface vocabulary need no folding
        passthrough = {"doc", "default", "typ"}
        ctx.count("column_keywords_written", len(written))
        ctx.floor("column keywords written by the emitters", len(written), 3)
        for k in sorted(written):
            if k in passthrough:
                ctx.ob("C05.vocab", cc2p, "Column({}=...) is interface vocabulary".format(k), True, line=cc2p.node.lineno)
                continue
            # folded = read AND removed (popped / deleted) so that it does not stay as a stray key
            loop_longnames = set()
            for g_, nm_ in views:
                for n in iter_own(g_.node):
                    lv = n.target.elts[1].id if isinstance(n, ast.For) and isinstance(n.target, ast.Tuple) and len(n.target.elts) == 2 and isinstance(n.target.elts[1], ast.Name) else None
                    if lv is not None and any(isinstance(d, ast.Delete) and any(norm(t) == "{}[{}]".format(nm_, lv) for t in d.targets) for b2 in n.body for d in ast.walk(b2)):
                        from ..defuse import expand_aliases

                        for e in ast.walk(expand_aliases(g_, n.iter)):
                            if isinstance(e, ast.Tuple) and len(e.elts) == 2 and isinstance(e.elts[1], ast.Constant):
                                loop_longnames.add(e.elts[1].value)
            removed = k in loop_longnames or k in loop_removed or any(
                (isinstance(n, ast.Call) and isinstance(n.func, ast.Attribute) and n.func.attr == "pop" and norm(n.func.value) == nm_ and n.args and isinstance(n.args[0], ast.Constant) and n.args[0].value == k)
                or (isinstance(n, ast.Delete) and any(norm(t) == "{}[{!r}]".format(nm_, k) for t in n.targets))
                for g_, nm_ in views
                for n in iter_own(g_.node)
            )
            ok = k in handled and removed
            ctx.ob(
                "C05.vocab",
                cc2p,
                "Column({}=...) written by the emitter".format(k),
                ok,
                ""
                if ok
                else (
                    "the emitter can write Column({}=...) but column_call_to_param never looks at it".format(k)
                    if k not in handled
                    else "column_call_to_param reads {!r} but leaves it behind as a stray top-level key of the parameter entry".format(k)
                ),
                line=cc2p.node.lineno,
            )

    ctx.section(_sec_vocab)

    def _sec_pk():
        nonlocal a, c2t, f, k, n, ok, s
        # ---------------------------------------------------------------- pk
        n_sites = 0
        for f in index.nontest_funcs():
            if f.mod.name != "cdd.sqlalchemy.emit":
                continue
            def mentions_p2c(expr, depth=2):
                """does `expr` turn a parameter into Column calls: names param_to_sqlalchemy_column_calls itself, or a
                function of this module that does (an extracted per-parameter helper)"""
                for x in ast.walk(expr):
                    if isinstance(x, (ast.Name, ast.Attribute)):
                        r = index.resolve(f.mod, x, f)
                        if r == p2c.qual:
                            return True
                        h = index.funcs.get(r) if r else None
                        if h is not None and h.mod is f.mod and h is not f and depth > 0 and mentions_p2c(h.node, depth - 1):
                            return True
                return False

            for n in iter_own(f.node):
                # one element per parameter: map(FN, IT) or a comprehension / generator over IT
                if isinstance(n, ast.Call) and norm(n.func) == "map" and len(n.args) == 2:
                    fn_arg, it = n.args
                elif isinstance(n, (ast.ListComp, ast.GeneratorExp)) and len(n.generators) >= 1:
                    fn_arg, it = n.elt, n.generators[0].iter
                else:
                    continue
                if f.outer is not None or not mentions_p2c(fn_arg):
                    continue
                if isinstance(it, (ast.Name,)) or "column_calls" in norm(it):
                    continue  # the inner iteration over the Column calls of ONE parameter
                n_sites += 1
                ok = (
                    isinstance(it, ast.Call)
                    and isinstance(it.func, ast.Attribute)
                    and it.func.attr == "items"
                    and isinstance(it.func.value, ast.Call)
                    and index.callee(f.mod, it.func.value, f) == ehp.qual
                )
                ctx.ob(
                    "C05.pk",
                    f,
                    "columns of {} come from {}".format(f.short, short(it, 70)),
                    ok,
                    "" if ok else "columns are emitted without passing through ensure_has_primary_key: an interface without "
                    "a [PK] marker yields a table with no primary key",
                    line=n.lineno,
                )
        ctx.count("column_emission_sites", n_sites)
        ctx.floor("column emission sites", n_sites, 1)
        # every call of ensure_has_primary_key inside an emitter forwards the emitter's own force_pk_id, so
        # that the three variants resolve the primary key identically
        n_calls = 0
        for f in index.nontest_funcs():
            if f.mod.name != "cdd.sqlalchemy.emit" or "force_pk_id" not in f.params:
                continue
            for n in iter_own(f.node):
                if isinstance(n, ast.Call) and index.callee(f.mod, n, f) == ehp.qual:
                    n_calls += 1
                    a = None
                    for k in n.keywords:
                        if k.arg == "force_pk_id":
                            a = k.value
                    if a is None and len(n.args) > 1:
                        a = n.args[1]
                    ok = isinstance(a, ast.Name) and a.id == "force_pk_id"
                    ctx.ob(
                        "C05.pk",
                        f,
                        n,
                        ok,
                        ""
                        if ok
                        else "ensure_has_primary_key is called without forwarding {}'s force_pk_id: this variant infers a "
                        "different primary key than its siblings (and a later correct call finds a PK already "
                        "marked)".format(f.short),
                    )
        ctx.floor("ensure_has_primary_key calls in emitters", n_calls, 1)
        # the class reader skips exactly the non-column attributes the class emitter writes
        c2t = index.func(EU + "sqlalchemy_class_to_table")
        emitted_dunders = set()
        for f in index.nontest_funcs():
            if f.mod.name == "cdd.sqlalchemy.emit":
                for n in iter_own(f.node):
                    if isinstance(n, ast.Call) and norm(n.func).rpartition(".")[2] == "Name" and n.args and isinstance(n.args[0], ast.Constant) and isinstance(n.args[0].value, str) and n.args[0].value.startswith("__"):
                        emitted_dunders.add(n.args[0].value)
                    if isinstance(n, ast.Constant) and isinstance(n.value, str) and n.value.startswith("__") and n.value.endswith("__") and n.value != "__init__":
                        emitted_dunders.add(n.value)
        n_filters = 0
        preds = []  # (binder name, predicate expression, node): filter(lambda t: P, ...) or (... for t in ... if P)
        for n in iter_own(c2t.node):
            if isinstance(n, ast.Lambda) and len(n.args.args) == 1:
                preds.append((n.args.args[0].arg, n.body, n))
            elif isinstance(n, (ast.GeneratorExp, ast.ListComp)):
                for g_ in n.generators:
                    if isinstance(g_.target, ast.Name):
                        preds.append((g_.target.id, n.elt, n))
                        for c_ in g_.ifs:
                            preds.append((g_.target.id, c_, n))
        for bname, body, n in preds:
            # a test on the NAME of an assignment target: `<t>.id == "..."` / `<t>.id in (...)` / `<t>.id.startswith(...)`
            if not any(
                isinstance(x, ast.Attribute) and x.attr == "id" and isinstance(x.value, ast.Name) and x.value.id == bname for x in ast.walk(body)
            ) or not isinstance(body, (ast.BoolOp, ast.Compare, ast.Call, ast.UnaryOp)):
                continue
            if any(isinstance(x, (ast.Lambda, ast.GeneratorExp)) for x in ast.walk(body) if x is not body):
                continue  # an enclosing predicate; the innermost one is analysed
            if bname != "target":
                # express the predicate over the canonical binder name
                import copy

                class _Ren(ast.NodeTransformer):
                    def visit_Name(self, x, _b=bname):
                        return ast.copy_location(ast.Name(id="target", ctx=x.ctx), x) if x.id == _b else x

                body = _Ren().visit(copy.deepcopy(body))
            n_filters += 1
            consts = set()
            disjuncts = body.values if isinstance(body, ast.BoolOp) and isinstance(body.op, ast.Or) else [body]
            for dj in disjuncts:
                if "target.id" not in norm(dj):
                    continue  # a structural test, not a test on the attribute's name
                if isinstance(dj, ast.Compare) and norm(dj.left) == "target.id" and len(dj.ops) == 1 and isinstance(dj.ops[0], ast.Eq) and isinstance(dj.comparators[0], ast.Constant):
                    consts.add(dj.comparators[0].value)
                elif isinstance(dj, ast.Compare) and norm(dj.left) == "target.id" and len(dj.ops) == 1 and isinstance(dj.ops[0], ast.In) and isinstance(dj.comparators[0], (ast.Tuple, ast.List, ast.Set)):
                    consts |= {e.value for e in dj.comparators[0].elts if isinstance(e, ast.Constant)}
                else:
                    consts = None
                    break
            ok = consts is not None and consts <= emitted_dunders
            ctx.ob(
                "C05.vocab",
                c2t,
                "non-column attributes skipped by the class reader: " + short(body, 60),
                ok,
                ""
                if ok
                else (
                    "the class reader skips an open-ended family of attribute names ({}) while the class emitter writes every "
                    "column as `name = Column(...)`: columns with such names vanish when the class form is parsed "
                    "back".format(short(body, 50))
                    if consts is None
                    else "the class reader skips {} which the emitter never writes as a non-column".format(sorted(consts - emitted_dunders))
                ),
                line=n.lineno,
            )
        ctx.need(n_filters >= 1, "the non-column filter vanished from sqlalchemy_class_to_table")
        facts_at = {}

        def on_stmt(s, facts):
            facts_at[id(s)] = facts

        GuardWalker(on_stmt=on_stmt).walk_function(ehp.node)
        def marks_pk(fn_node):
            return [
                n
                for n in iter_own(fn_node)
                if isinstance(n, ast.Assign) and isinstance(n.targets[0], ast.Subscript) and "[PK]" in norm(n.value)
            ]

        stores = marks_pk(ehp.node)
        # a private helper that writes the marker: each of its call statements in ensure_has_primary_key is a store
        from ..region import Region

        reg = Region(index, graph, ehp)
        for h in reg.funcs[1:]:
            if marks_pk(h.node):
                for caller, call in reg.callsites.get(h.qual, ()):
                    if caller is ehp:
                        st_ = call
                        while st_ is not None and not isinstance(st_, ast.stmt):
                            st_ = ehp.mod.parents.get(st_)
                        if st_ is not None:
                            stores.append(st_)
        ctx.need(len(stores) >= 2, "expected at least two primary-key stores in ensure_has_primary_key, found {}".format(len(stores)))
        absence = None
        atexts = []
        for n in iter_own(ehp.node):
            if isinstance(n, ast.If) and "[PK]" in norm(n.test) and isinstance(n.test, ast.UnaryOp):
                absence = n
                atexts.append(norm(absence.test.operand))
            # the loop spelling: `for p in params.values(): if <p has [PK]>: return ...` (GuardWalker records
            # `any(<test> for <target> in <iter>)` as false past such a loop)
            if (
                isinstance(n, ast.For)
                and not n.orelse
                and len(n.body) == 1
                and isinstance(n.body[0], ast.If)
                and not n.body[0].orelse
                and "[PK]" in norm(n.body[0].test)
                and isinstance(n.body[0].body[-1], (ast.Return, ast.Raise))
            ):
                absence = absence or n
                atexts.append("any({} for {} in {})".format(ast.unparse(n.body[0].test), ast.unparse(n.target), ast.unparse(n.iter)))
        ctx.need(absence is not None, "the `not any(... startswith('[PK]') ...)` absence test vanished")
        # the absence test must look at EVERY parameter: an explicit [PK] may sit on any column, whatever it is called
        # (the emitter writes primary_key=True for every doc that starts with [PK]); a test that ranges over a subset
        # — the key-looking names only — overlooks it and a second key is promoted
        from .c02 import elementwise

        recvs = {norm(s_.targets[0].value.value) if isinstance(s_, ast.Assign) and isinstance(s_.targets[0].value, ast.Subscript) else (norm(s_.targets[0].value) if isinstance(s_, ast.Assign) else None) for s_ in stores}
        recvs.discard(None)
        if isinstance(absence, ast.If):
            arg = absence.test.operand
            while isinstance(arg, ast.Call) and norm(arg.func) in ("any", "list", "tuple") and arg.args:
                arg = arg.args[0]
            ew = elementwise(arg)
            scanned = ew[0] if ew is not None else None
            filtered = bool(ew[3]) if ew is not None and not (isinstance(arg, ast.Call) and norm(arg.func) == "filter") else False
            if isinstance(arg, ast.Call) and norm(arg.func) == "filter" and len(arg.args) == 2:
                inner = elementwise(arg.args[1])
                scanned = inner[0] if inner is not None else arg.args[1]
                filtered = bool(inner[3]) if inner is not None else False
        else:
            scanned, filtered = absence.iter, False
        if scanned is not None:
            from ..defuse import expand_aliases

            st = " ".join(norm(expand_aliases(ehp, scanned, keep=tuple(recvs))).split())
            whole = any(st in (r_ + ".values()", r_ + ".items()", r_, r_ + ".keys()") for r_ in recvs) and not filtered
            ctx.ob(
                "C05.pk",
                ehp,
                "the absence test looks at every parameter",
                whole,
                ""
                if whole
                else "the test that no column carries [PK] yet ranges over `{}`, not over all of {}: an explicit [PK] on a column "
                "outside that subset is overlooked and a second primary key is introduced".format(short(scanned, 60), sorted(recvs)),
                line=absence.lineno,
            )
        arms = []
        for s in stores:
            facts = facts_at.get(id(s)) or {}
            ok = any(facts.get(a_) is False for a_ in atexts)
            ctx.ob(
                "C05.pk",
                ehp,
                s,
                ok,
                "" if ok else "a primary-key marker is introduced without first checking that none exists: two primary keys",
            )
            # which arm of the if/elif/else chain
            p = ehp.mod.parents.get(s)
            arms.append(id(p) if isinstance(p, ast.If) else None)
            chain = []
            child = s
            while p is not None and p is not absence:
                if isinstance(p, ast.If):
                    chain.append((id(p), "body" if child in p.body else "orelse"))
                child, p = p, ehp.mod.parents.get(p)
            arms[-1] = tuple(chain)
        def leaves_before(s1, s2):
            """s1 sits in an if-arm that always ends in return / raise and s2 lies outside that arm: s2 cannot follow s1"""
            par = ehp.mod.parents
            child, p = s1, par.get(s1)
            while p is not None and p is not ehp.node:
                if isinstance(p, ast.If):
                    arm = p.body if child in p.body else p.orelse
                    inside = any(s2 is y for st in arm for y in ast.walk(st))
                    if arm and isinstance(arm[-1], (ast.Return, ast.Raise)) and not inside:
                        return True
                child, p = p, par.get(p)
            return False

        exclusive = True
        for i in range(len(arms)):
            for j in range(i + 1, len(arms)):
                a, b = dict(arms[i]), dict(arms[j])
                if not any(k in b and b[k] != v for k, v in a.items()):
                    first, second = sorted((stores[i], stores[j]), key=lambda x: x.lineno)
                    if not leaves_before(first, second):
                        exclusive = False
        ctx.ob("C05.pk", ehp, "the primary-key stores are in mutually exclusive arms", exclusive, "" if exclusive else "two primary-key stores can both execute", line=absence.lineno)

    ctx.section(_sec_pk)

    def _sec_funnel():
        nonlocal f, ok
        # ------------------------------------------------------------ funnel
        hyb = index.func("cdd.sqlalchemy.parse.sqlalchemy_hybrid")
        cls = index.func("cdd.sqlalchemy.parse.sqlalchemy")
        tbl = index.func("cdd.sqlalchemy.parse.sqlalchemy_table")
        for f, target, via in ((hyb, cls, None), (cls, tbl, EU + "sqlalchemy_class_to_table")):
            rets = [n for n in iter_own(f.node) if isinstance(n, ast.Return)]
            ctx.need(rets, "no return in {}".format(f.qual))
            for r in rets:
                ok = isinstance(r.value, ast.Call) and index.callee(f.mod, r.value, f) == target.qual
                if ok and via is not None:
                    from ..defuse import expand_aliases

                    # sqlalchemy_table(sqlalchemy_class_to_table(...)) — directly, through an explaining variable, or
                    # unwrapped (`t.value if isinstance(t, Assign) else t`): every alternative of the argument is rooted at
                    # the class_to_table call
                    a0 = index.bound_args(f.mod, r.value, f).get("call_or_name", r.value.args[0] if r.value.args else None)
                    full = expand_aliases(f, a0) if a0 is not None else None

                    def rooted(e):
                        if isinstance(e, ast.IfExp):
                            return rooted(e.body) and rooted(e.orelse)
                        if isinstance(e, ast.Attribute):
                            return rooted(e.value)
                        return isinstance(e, ast.Call) and index.callee(f.mod, e, f) == via

                    ok = full is not None and rooted(full)
                ctx.ob(
                    "C05.funnel",
                    f,
                    r,
                    bool(ok),
                    "" if ok else "{} no longer funnels into {}: the variants can parse the same columns differently".format(f.short, target.short),
                )

    ctx.section(_sec_funnel)

    def _sec_hybrid():
        """
        C05.hybrid — the hybrid form is `__table__ = Table("name", ...)`. The Table parser takes the name of an
        assignment from its TARGET and insists that it equals the table's own name; class_to_table selects the
        hybrid assignment by its target `__table__`. Handing that assignment over as it is makes the name check
        fail for every table that is not called `__table__`: the hybrid emission cannot be parsed at all, so the three
        variants do not agree. Somewhere on the way the Table CALL (`.value`) must be taken, or the name check must go.
        """
        from ..defuse import expand_aliases

        cls = index.func("cdd.sqlalchemy.parse.sqlalchemy")
        tbl = index.func("cdd.sqlalchemy.parse.sqlalchemy_table")
        c2t = index.func(EU + "sqlalchemy_class_to_table")
        # (1) does the Table parser name an assignment after its target and compare that with the table's first argument?
        name_from_target = set()
        for n in iter_own(tbl.node):
            if isinstance(n, ast.Assign):
                pairs = []
                for t in n.targets:
                    if isinstance(t, ast.Tuple) and isinstance(n.value, ast.Tuple) and len(t.elts) == len(n.value.elts):
                        pairs += list(zip(t.elts, n.value.elts))
                    else:
                        pairs.append((t, n.value))
                for t, v in pairs:
                    if isinstance(t, ast.Name) and "targets[0].id" in norm(v) or isinstance(t, ast.Name) and norm(v).endswith(".target.id"):
                        name_from_target.add(t.id)
        checked = False
        for n in iter_own(tbl.node):
            txt = None
            if isinstance(n, ast.Call) and norm(n.func).endswith("assert_equal") and len(n.args) >= 2:
                txt = [norm(a) for a in n.args[:2]]
            elif isinstance(n, ast.Assert) and isinstance(n.test, ast.Compare) and len(n.test.ops) == 1 and isinstance(n.test.ops[0], ast.Eq):
                txt = [norm(n.test.left), norm(n.test.comparators[0])]
            if txt and any(x in name_from_target for x in txt) and any("args[0]" in x for x in txt):
                checked = True
        # (2) does class_to_table return the assignment it selected by the constant target `__table__`, as it is?
        raw = False
        for r in iter_own(c2t.node):
            if isinstance(r, ast.Return) and r.value is not None:
                full = expand_aliases(c2t, r.value)
                if any(isinstance(x, ast.Constant) and x.value == "__table__" for x in ast.walk(full)):
                    raw = raw or not (isinstance(r.value, ast.Attribute) and r.value.attr == "value")
        # (3) does the class parser unwrap it before the Table parser sees it?
        unwrapped = False
        for g_, n in Region(index, graph, cls).nodes():
            if isinstance(n, ast.Call) and index.callee(g_.mod, n, g_) == tbl.qual:
                a0 = index.bound_args(g_.mod, n, g_).get("call_or_name", n.args[0] if n.args else None)
                full = expand_aliases(g_, a0) if a0 is not None else None
                if full is not None and any(isinstance(x, ast.Attribute) and x.attr == "value" for x in ast.walk(full)):
                    unwrapped = True
        ok = not (checked and raw and not unwrapped)
        ctx.ob(
            "C05.hybrid",
            cls,
            "the hybrid `__table__ = Table(name, ...)` reaches the Table parser as the Table call, not as an assignment named `__table__`",
            ok,
            ""
            if ok
            else "sqlalchemy_class_to_table hands the hybrid assignment `__table__ = Table('name', ...)` over as it is, and "
            "sqlalchemy_table names an assignment after its target and asserts that this equals the table's own name: "
            "'name' != '__table__' — parsing any hybrid emission raises AssertionError, so the three variants do not agree",
            line=cls.node.lineno,
        )

    ctx.section(_sec_hybrid)

    def _sec_samemap():
        """
        C05.pk (same mapping) — ensure_has_primary_key accepts either the interface description or its `params`
        mapping and works on the latter. Whether a column called K already exists must be asked of the mapping the
        new column is stored INTO: a test against another spelling (`intermediate_repr.get("params", ...)`) is empty
        whenever the mapping itself was handed in — as both emitters do — so the synthetic `id` primary key silently
        overwrites a user column named `id` (type and description lost in all three variants).
        """
        from ..defuse import expand_aliases

        n_ = 0
        for g_ in Region(index, graph, ehp).funcs:
            created = {}  # constant key -> receiver text of `<recv>[K] = {...}` (a new column entry)
            for n in iter_own(g_.node):
                if isinstance(n, ast.Assign) and len(n.targets) == 1 and isinstance(n.targets[0], ast.Subscript):
                    t = n.targets[0]
                    if isinstance(t.slice, ast.Constant) and isinstance(t.slice.value, str) and isinstance(t.value, ast.Name) and isinstance(n.value, (ast.Dict, ast.Call)):
                        if isinstance(n.value, ast.Call) and norm(n.value.func) not in ("dict", "OrderedDict"):
                            continue
                        created[t.slice.value] = t.value.id
            for k_, recv in sorted(created.items()):
                for n in iter_own(g_.node):
                    if isinstance(n, ast.Compare) and len(n.ops) == 1 and isinstance(n.ops[0], (ast.In, ast.NotIn)) and isinstance(n.left, ast.Constant) and n.left.value == k_:
                        n_ += 1
                        c_ = n.comparators[0]
                        same = (isinstance(c_, ast.Name) and c_.id == recv) or (
                            isinstance(c_, ast.Call) and isinstance(c_.func, ast.Attribute) and c_.func.attr == "keys" and isinstance(c_.func.value, ast.Name) and c_.func.value.id == recv
                        )
                        ctx.ob(
                            "C05.pk",
                            g_,
                            "whether a column {!r} exists is asked of the mapping the new {!r} column is stored into".format(k_, k_),
                            same,
                            ""
                            if same
                            else "`{}` does not look at `{}`, the mapping `{}[{!r}] = ...` writes to: when the params mapping itself "
                            "is passed in (as both emitters do) the test finds nothing and the synthetic primary key overwrites "
                            "the user's own {!r} column".format(short(n, 70), recv, recv, k_, k_),
                            line=n.lineno,
                        )
        ctx.count("column_existence_tests_before_a_synthetic_column", n_)

    ctx.section(_sec_samemap)

    def _sec_strip():
        # the [PK] / [FK(target)] markers are cut out of and glued into doc strings: an affix removed with a strip-family
        # call (a character SET) eats the first letters of a target such as `Farm.id`
        from .c08 import strip_rule

        fs = [f for f in index.nontest_funcs() if f.mod.name.startswith("cdd.sqlalchemy.")]
        ctx.count("strip_calls_in_sqlalchemy_modules", strip_rule(ctx, "C05.strip", fs))

    ctx.section(_sec_strip)

    def _sec_stale():
        from ..keystate import stale_rule

        fs = [f for f in index.nontest_funcs() if f.mod.name.startswith("cdd.sqlalchemy.")]
        n_ = stale_rule(ctx, "C05.stale", fs, "the Column keyword handling")
        ctx.floor("dicts with constant keys in the SQLAlchemy emitters/parsers", n_, 8)

    ctx.section(_sec_stale)
    ctx.section(_optional_rule, ctx, index)

    def _sec_inputmut():
        # "the three variants are interchangeable: parsing any of the three emissions of ONE interface gives the same
        # result": the three emitters are handed the same description one after the other, so none of them may strip the
        # [PK] / [FK] markers or the Optional[...] wrapper from the caller's columns, or add the synthetic `id` to them;
        # and parsing one class twice must give the same columns (the class parser leaves the tree alone)
        from . import c10

        ents = []
        for q in ("cdd.sqlalchemy.emit.sqlalchemy", "cdd.sqlalchemy.emit.sqlalchemy_table", "cdd.sqlalchemy.emit.sqlalchemy_hybrid"):
            f_ = index.func(q)
            ents.append((f_, f_.params[0]))
        c10.inputmut_rule(ctx, "C05.inputmut", ents, "the variant emitted next from the same description has other keys, other nullability or another primary key")
        pents = []
        for q in ("cdd.sqlalchemy.parse.sqlalchemy", "cdd.sqlalchemy.parse.sqlalchemy_table", "cdd.sqlalchemy.parse.sqlalchemy_hybrid"):
            f_ = index.func(q)
            pents.append((f_, f_.params[0]))
        c10.inputmut_rule(ctx, "C05.inputmut", pents, "parsing the same tree again gives other columns", objects_only=True)

    ctx.section(_sec_inputmut)
    # "defaults" are part of what must round-trip: a default of 0 / False / '' must reach the Column like any other
    # (C02's rule on truthiness tests of a default; it covers the SQLAlchemy emit helpers)
    from . import c02 as _c02_falsy

    ctx.section(_c02_falsy._falsy, ctx, index)

    from . import c10 as _c10_state

    ctx.section(_c10_state.state_slice, ctx, 'C05.state', ['cdd.sqlalchemy.emit.sqlalchemy', 'cdd.sqlalchemy.emit.sqlalchemy_table', 'cdd.sqlalchemy.emit.sqlalchemy_hybrid', 'cdd.sqlalchemy.parse.sqlalchemy', 'cdd.sqlalchemy.parse.sqlalchemy_table', 'cdd.sqlalchemy.parse.sqlalchemy_hybrid'], 5)

