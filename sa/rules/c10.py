"""
C10 — output is a deterministic function of the input alone.

C10.setorder   : no set / dict-keys-algebra iteration order reaches an ordered result.
C10.mutdefault : no mutable default argument is written through.
C10.modstate   : no function writes module-level state (global, globals(), stores into
                 module-level objects).
C10.crossmod   : import-time writes into a table owned by another module only write pairs the
                 owner itself establishes.
C10.nondet     : no non-deterministic API; directory listings are sorted.
C10.inputmut   : no emitter mutates the interface description it is handed (directly, through a helper, a lambda
                 mapped over its items, or a shallow copy that still shares the parameter mappings) — otherwise a
                 second call with the same object, or any other conversion run afterwards on it, sees another input.
"""

import ast

from ..core import attr_chain, iter_own, norm, short, stored_names
from ..effects import Effects
from ..fold import ModuleEnv, Unknown
from ..setorder import SetOrder

# order-insensitive by construction, one line of reason each (symbol-wide, not line-based)
SETORDER_SUPPRESS = {
    (
        "cdd.shared.parse.utils.parser_utils._join_non_none",
        "primacy",  # any insertion into the ParamVal mapping handed in as `primacy` (update / item assignment)
    ): "key order inside one ParamVal dict ({typ, doc, default, ...}) is never observed: every emitter "
    "reads ParamVal entries by key",
}

MUTABLE_CTORS = frozenset(
    "builtins.dict builtins.list builtins.set collections.OrderedDict collections.defaultdict "
    "collections.deque builtins.bytearray".split()
)
MUTATORS = frozenset(
    "append extend insert pop remove clear update add discard setdefault popitem sort reverse "
    "appendleft popleft __setitem__ __delitem__".split()
)


def run(ctx):
    """entry"""
    index = ctx.index
    ctx.explanation = (
        "Hash-order taint analysis (set displays/constructors, keys()/items() set algebra, narrowed "
        "isinstance(x, set), inter-procedural parameter/return propagation) with each tainted "
        "expression classified by context as propagating, order-free or sink; mutable-default "
        "write-through; function-written module state; import-time cross-module table writes folded "
        "and compared with the owner's own table; inventory of non-deterministic APIs."
    )
    ctx.assumptions += [
        "environment variables read at import (DOCTRANS_LINE_LENGTH, DOCTRANS_TAB, FORCE_PK_ID, "
        "EXMOD_OUT_STREAM) are configuration, not nondeterminism",
        "dict iteration order is insertion order (Python >= 3.7)",
        "file-system listing order is outside the property's three named sources (reported as note)",
    ]
    index.func("cdd.shared.parse.utils.parser_utils.merge_params")
    index.func("cdd.shared.ast_utils.infer_imports")
    for rule in (_setorder, _mutdefault, _modstate, _crossmod, _nondet, _inputmut):
        ctx.section(rule, ctx)


def _setorder(ctx):
    so = SetOrder(ctx.index)
    reports = so.analyse()
    ctx.count("set_typed_or_hash_ordered_expressions", len(so.sites))
    ctx.count("order_free_or_propagating_uses", so.free_uses)
    ctx.floor("set-typed expression sites", len(so.sites), 60)
    reported = set()
    for sc, n, k, why in reports:
        where = sc.func if sc.func is not None else sc.mod
        sup = None
        for (q, frag), reason in SETORDER_SUPPRESS.items():
            if sc.name == q and frag in why:
                sup = reason
        if sup is not None:
            ctx.note("C10.setorder suppressed at {}: {} ({})".format(sc.name, short(n, 50), sup))
            ctx.ob("C10.setorder", where, n, True, "suppressed: " + sup)
            continue
        reported.add(id(n))
        par = sc.mod.parents.get(n)
        construct = par if isinstance(par, (ast.expr, ast.For)) else n
        if isinstance(construct, ast.For):
            construct = "for {} in {}".format(short(construct.target, 30), short(construct.iter, 80))
        del construct
        ctx.ob(
            "C10.setorder",
            where,
            "`{}` -> {}".format(short(n, 50), why),
            False,
            "{} value `{}` reaches an order-sensitive context: {}".format(
                "set-typed" if k == "set" else "hash-ordered", short(n, 50), why
            ),
            line=n.lineno,
        )
    # one discharged obligation per tainted site that is fine
    for sc, n, k in so.sites:
        if id(n) in reported:
            continue
        par = sc.mod.parents.get(n)
        if isinstance(par, ast.expr) and so.kind(sc, par) is not None:
            continue  # interior of a larger tainted expression
        ctx.ob("C10.setorder", sc.func if sc.func is not None else sc.mod, n, True)
    # the anchor: every frozenset used for emission in the import helpers goes through sorted()
    ctx.samples = [
        {
            "site": "{}:{}".format(sc.mod.rel, n.lineno),
            "scope": sc.name,
            "kind": k,
            "expr": short(n, 80),
            "verdict": "sink" if id(n) in reported else "order-free/propagating",
        }
        for sc, n, k in so.sites[:: max(1, len(so.sites) // 10)]
    ]


def _is_mutable_default(index, f, d):
    if isinstance(d, (ast.Dict, ast.List, ast.Set, ast.ListComp, ast.DictComp, ast.SetComp)):
        return True
    if isinstance(d, ast.Call):
        return index.callee(f.mod, d, f) in MUTABLE_CTORS
    return False


def _writes_through(f, name):
    """constructs in f that mutate the object bound to parameter `name`"""
    out = []
    for n in iter_own(f.node):
        if isinstance(n, (ast.Assign, ast.AugAssign, ast.AnnAssign)):
            for t in n.targets if isinstance(n, ast.Assign) else [n.target]:
                if isinstance(t, (ast.Subscript, ast.Attribute)):
                    root = t
                    while isinstance(root, (ast.Subscript, ast.Attribute)):
                        root = root.value
                    if isinstance(root, ast.Name) and root.id == name:
                        out.append(n)
                elif isinstance(t, ast.Name) and t.id == name and isinstance(n, ast.AugAssign):
                    out.append(n)
        elif isinstance(n, ast.Delete):
            for t in n.targets:
                root = t
                while isinstance(root, (ast.Subscript, ast.Attribute)):
                    root = root.value
                if isinstance(root, ast.Name) and root.id == name and root is not t:
                    out.append(n)
        elif isinstance(n, ast.Call) and isinstance(n.func, ast.Attribute):
            if (
                n.func.attr in MUTATORS
                and isinstance(n.func.value, ast.Name)
                and n.func.value.id == name
            ):
                out.append(n)
    return out


def _mutdefault(ctx):
    index = ctx.index
    n_defaults = 0
    # summary: (func, param) is written through (direct or via callee)
    writes = {}
    funcs = index.nontest_funcs()
    for f in funcs:
        for p in f.params:
            w = _writes_through(f, p)
            if w:
                writes[(f.qual, p)] = w[0]
    changed = True
    while changed:
        changed = False
        for f in funcs:
            for n in iter_own(f.node):
                if not isinstance(n, ast.Call):
                    continue
                callee = index.callee(f.mod, n, f)
                if callee not in index.funcs:
                    continue
                tf = index.funcs[callee]
                binds = []
                for i, a in enumerate(n.args):
                    if isinstance(a, ast.Starred):
                        break
                    if i < len(tf.params):
                        binds.append((tf.params[i], a))
                for k in n.keywords:
                    if k.arg:
                        binds.append((k.arg, k.value))
                for pname, a in binds:
                    if isinstance(a, ast.Name) and a.id in f.params and (callee, pname) in writes:
                        if (f.qual, a.id) not in writes:
                            writes[(f.qual, a.id)] = n
                            changed = True
    for f in funcs:
        a = f.node.args
        pos = a.posonlyargs + a.args
        pairs = list(zip(pos[len(pos) - len(a.defaults) :], a.defaults)) + [
            (x, d) for x, d in zip(a.kwonlyargs, a.kw_defaults) if d is not None
        ]
        for arg, d in pairs:
            if not _is_mutable_default(index, f, d):
                continue
            n_defaults += 1
            w = writes.get((f.qual, arg.arg))
            ctx.ob(
                "C10.mutdefault",
                f,
                "{}={}".format(arg.arg, short(d, 30)),
                w is None,
                ""
                if w is None
                else "mutable default argument is written through ({}): state leaks between calls".format(
                    short(w, 60)
                ),
                line=arg.lineno,
            )
            returned = any(
                isinstance(n, ast.Return)
                and n.value is not None
                and any(isinstance(x, ast.Name) and x.id == arg.arg for x in ([n.value] if isinstance(n.value, ast.Name) else (list(n.value.values) if isinstance(n.value, ast.BoolOp) else [n.value.body, n.value.orelse] if isinstance(n.value, ast.IfExp) else [])))
                for n in iter_own(f.node)
            )
            # the default object handed back to the caller: a caller that binds the result and then mutates it in place
            # (`args = h(...)`; `args += more` / `.append` / item store) writes through the shared default all the same
            escaped = None
            if returned:
                for g in funcs:
                    for c in iter_own(g.node):
                        if isinstance(c, ast.Call) and index.callee(g.mod, c, g) == f.qual and arg.arg not in index.bound_args(g.mod, c, g):
                            par_ = g.mod.parents.get(c)
                            if isinstance(par_, (ast.Assign, ast.AnnAssign)):
                                t_ = par_.targets[0] if isinstance(par_, ast.Assign) else par_.target
                                if isinstance(t_, ast.Name):
                                    w_ = _writes_through(g, t_.id)
                                    aug_ = [x for x in iter_own(g.node) if isinstance(x, ast.AugAssign) and isinstance(x.target, ast.Name) and x.target.id == t_.id]
                                    if w_ or aug_:
                                        escaped = (g, (w_ or aug_)[0])
            if escaped is not None:
                ctx.ob(
                    "C10.mutdefault",
                    f,
                    "{}={} returned to a caller that mutates it".format(arg.arg, short(d, 30)),
                    False,
                    "the mutable default `{}` is returned, and {} binds the result and mutates it in place ({}): the shared default "
                    "object grows from call to call — the second result contains the first one's elements".format(arg.arg, escaped[0].short, short(escaped[1], 50)),
                    line=arg.lineno,
                )
            if returned and escaped is None:
                ctx.note(
                    "{}: mutable default `{}` is returned (shared object escapes to callers; no write "
                    "through it found)".format(f.qual, arg.arg)
                )
    ctx.count("mutable_default_arguments", n_defaults)
    ctx.floor("mutable default arguments", n_defaults, 0)


_INITS_CACHE = {}


def _import_time_inits(ctx):
    """memoised per index (two rules of one run ask for it)"""
    key = id(ctx.index)
    if key not in _INITS_CACHE:
        _INITS_CACHE.clear()
        _INITS_CACHE[key] = _import_time_inits_uncached(ctx)
    return _INITS_CACHE[key]


def _import_time_inits_uncached(ctx):
    """
    {qual: [(Mod, Call, [specialised statements])]} — top-level functions whose only references are module-level
    calls in their own module and whose body partially evaluates to straight-line statements for those calls:
    they run once per import, exactly like the module-level statements a maintainer extracted them from, so
    their writes are import-time writes (C10.crossmod decides them), not call-history state (C10.modstate).
    """
    cached = getattr(ctx, "_c10_inits", None)
    if cached is not None:
        return cached
    from ..core import RefGraph
    from ..region import import_time_calls, specialise

    index = ctx.index
    graph = RefGraph(index)
    out = {}
    for f in index.nontest_funcs():
        if f.outer is not None or f.cls is not None:
            continue
        calls = import_time_calls(index, graph, f)
        if not calls or any(m is not f.mod for m, _c in calls):
            continue
        spec = [(m, c, specialise(f, c)) for m, c in calls]
        if any(st is None for _m, _c, st in spec):
            continue
        out[f.qual] = spec
    ctx._c10_inits = out
    return out


def _modstate(ctx):
    index = ctx.index
    n = 0
    inits = _import_time_inits(ctx)
    ctx.count("import_time_only_initialiser_functions", len(inits))
    for f in index.nontest_funcs():
        if f.qual in inits:
            continue  # runs at import only: its writes are decided by C10.crossmod
        m = f.mod
        declared_global = set()
        for x in iter_own(f.node):
            if isinstance(x, ast.Global):
                declared_global.update(x.names)
        for x in iter_own(f.node):
            # global X; X = ...
            if isinstance(x, (ast.Assign, ast.AugAssign, ast.AnnAssign)):
                for t in x.targets if isinstance(x, ast.Assign) else [x.target]:
                    for nm in stored_names(t):
                        if nm in declared_global:
                            n += 1
                            ctx.ob("C10.modstate", f, x, False, "assignment to module global `{}` inside a function".format(nm))
                    if isinstance(t, (ast.Subscript, ast.Attribute)):
                        root = t
                        while isinstance(root, (ast.Subscript, ast.Attribute)):
                            root = root.value
                        if isinstance(root, ast.Call) and isinstance(root.func, ast.Name) and root.func.id == "globals":
                            n += 1
                            ctx.ob("C10.modstate", f, x, False, "store into globals() inside a function")
                        elif isinstance(root, ast.Name):
                            tgt = _module_level_target(index, f, root, t)
                            if tgt is not None:
                                n += 1
                                ctx.ob("C10.modstate", f, x, False, "store into module-level object {} inside a function".format(tgt))
            elif isinstance(x, ast.Call) and isinstance(x.func, ast.Attribute):
                recv = x.func.value
                if (
                    isinstance(recv, ast.Call)
                    and isinstance(recv.func, ast.Name)
                    and recv.func.id in ("globals", "vars", "locals")
                    and x.func.attr in MUTATORS
                    and recv.func.id != "locals"
                ):
                    n += 1
                    ctx.ob(
                        "C10.modstate",
                        f,
                        x,
                        False,
                        "{}().{}(...) inside a function: later calls in the same process see names "
                        "leaked by earlier ones".format(recv.func.id, x.func.attr),
                    )
                elif x.func.attr in MUTATORS:
                    root = recv
                    while isinstance(root, (ast.Subscript, ast.Attribute)):
                        root = root.value
                    if isinstance(root, ast.Name):
                        tgt = _module_level_target(index, f, root, recv)
                        if tgt is not None:
                            n += 1
                            ctx.ob(
                                "C10.modstate",
                                f,
                                x,
                                False,
                                "mutation ({}) of module-level object {} inside a function".format(x.func.attr, tgt),
                            )
            elif isinstance(x, ast.Call) and isinstance(x.func, ast.Name) and x.func.id == "setattr":
                if x.args and isinstance(x.args[0], (ast.Name, ast.Attribute)):
                    r = index.resolve(m, x.args[0], f)
                    if r is not None and (r in index.modules or index.module_var(r) is not None):
                        n += 1
                        ctx.ob("C10.modstate", f, x, False, "setattr on module-level object {}".format(r))
    n += _shared_nested(ctx)
    n += _shared_through_views(ctx, inits)
    n += _memoised(ctx)
    ctx.count("module_state_write_sites", n)
    ctx.count("functions_scanned_for_module_state", len(index.nontest_funcs()))


MEMO_DECORATORS = frozenset(("functools.lru_cache", "functools.cache", "functools.cached_property"))


def _memoised(ctx):
    """
    A memoising decorator keeps results between calls, keyed by ==/hash of the arguments: True, 1 and
    1.0 (False, 0, 0.0) are one key, so the first caller's result is replayed for the others unless
    `typed=True`. Unhashable-by-identity arguments (AST nodes, dicts) make results depend on history too.
    """
    index = ctx.index
    n = 0
    for f in index.nontest_funcs():
        for d in f.node.decorator_list:
            call = d if isinstance(d, ast.Call) else None
            target = call.func if call is not None else d
            outer = f.outer
            r = index.resolve(f.mod, target, outer)
            if r not in MEMO_DECORATORS:
                continue
            n += 1
            typed = call is not None and any(
                k.arg == "typed" and isinstance(k.value, ast.Constant) and k.value.value is True for k in call.keywords
            )
            ctx.ob(
                "C10.modstate",
                f,
                "@" + short(d, 50),
                typed,
                ""
                if typed
                else "memoised without typed=True: the cache outlives the call and treats True/1/1.0 (False/0/0.0) "
                "as one key, so the value returned depends on which argument the process saw first",
                line=d.lineno,
            )
            # the cached object itself is handed to every later caller: a caller that edits it in place
            # (`r = f(x); r["k"] = ...; r["doc"] += ...`) changes what the next call with equal arguments returns
            for g in index.nontest_funcs():
                for a in iter_own(g.node):
                    if not (isinstance(a, (ast.Assign, ast.AnnAssign)) and isinstance(a.value, ast.Call)):
                        continue
                    if index.callee(g.mod, a.value, g) != f.qual:
                        continue
                    for t in a.targets if isinstance(a, ast.Assign) else [a.target]:
                        if isinstance(t, ast.Name):
                            muts = _mut_depths(g, t.id)
                            if muts:
                                ctx.ob(
                                    "C10.modstate",
                                    g,
                                    a,
                                    False,
                                    "`{}` is the object cached by the memoised {}() and is edited in place ({}): every later call "
                                    "with equal arguments — same document or a later one in the process — gets the edited "
                                    "object back".format(t.id, f.node.name, short(muts[0][1], 60)),
                                )
    ctx.count("memoising_decorators", n)
    return 0


SHALLOW_COPIERS = frozenset(
    "builtins.dict builtins.list builtins.set collections.OrderedDict copy.copy".split()
)


def _mut_depths(f, name):
    """
    [(depth, node)] of mutations rooted at the access path `name` inside f (depth 1 = name[k] = v /
    name.update()). `name` is a local name or the normalised text of a longer path (`ir['returns']`).
    """
    out = []

    def depth_from(root, d):
        while True:
            if isinstance(root, ast.Name):
                return d if root.id == name else None
            if norm(root) == name:
                return d
            if not isinstance(root, (ast.Subscript, ast.Attribute)):
                return None
            d += 1
            root = root.value

    for n in iter_own(f.node):
        tgts = []
        if isinstance(n, (ast.Assign, ast.AugAssign, ast.AnnAssign)):
            tgts = [t for t in (n.targets if isinstance(n, ast.Assign) else [n.target]) if isinstance(t, (ast.Subscript, ast.Attribute))]
        elif isinstance(n, ast.Delete):
            tgts = [t for t in n.targets if isinstance(t, (ast.Subscript, ast.Attribute))]
        for t in tgts:
            if norm(t) == name:
                continue  # rebinding the path itself, not a mutation below it
            d = depth_from(t, 0)
            if d:
                out.append((d, n))
        if isinstance(n, ast.Call) and isinstance(n.func, ast.Attribute) and n.func.attr in MUTATORS:
            d = depth_from(n.func.value, 1)
            if d:
                out.append((d, n))
    return out


def _shared_through_views(ctx, inits):
    """
    The inter-procedural version of the alias / shallow-copy rule: the view analysis of sa/inputmut.py with module-level
    mutable containers as roots. A function that mutates an object below such a container — through an alias, a shallow
    copy (`dict(G)`, `G.copy()`), a `partial(f, state=copy)`, a decorator's wrapper, a callee — keeps state between
    calls. Direct stores into the container itself are reported by the syntactic part of C10.modstate above; here only
    what that part cannot see (level >= 1, or reached through a callee).
    """
    im = input_mutation(ctx.index)
    n = 0
    seen = set()
    for qual, g, L, w in sorted(im.global_mutations(), key=lambda t: (t[0], t[1], t[2])):
        f = ctx.index.funcs.get(qual)
        if f is None or qual in inits or (qual, g) in seen:
            continue
        if L == 0 and w[1] is None:
            continue  # a direct store: the syntactic rule's business
        seen.add((qual, g))
        n += 1
        key = [k for k in im.muts if k[0] == qual and k[1].endswith(">" + g)][0][1]
        chain = im.chain(qual, key, L)
        leaf = chain.rpartition(" -> ")[2]
        ctx.ob(
            "C10.modstate",
            f,
            "module-level {} mutated below a copy / through a callee: {}".format(g.rpartition(".")[2], leaf.partition(" ")[2]),
            False,
            "an object shared through module-level {} (nesting level {}) is mutated: {} — the nested objects are the same in every "
            "call, so what a call returns depends on the calls before it".format(g, L, chain),
            line=getattr(w[0], "lineno", None),
        )
    return n


def _shared_nested(ctx):
    """
    A module-level container with nested mutable values that is aliased (`x = G`) or shallow-copied
    (`G.copy()`, `dict(G)`, `{**G}`) inside a function and then mutated deeper than the copy goes
    — directly or through a callee — keeps state between calls.
    """
    index = ctx.index
    funcs = index.nontest_funcs()
    # summary: (func, param) -> max mutation depth, through callees
    depth = {}
    for f in funcs:
        for p in f.params:
            ds = _mut_depths(f, p)
            if ds:
                depth[(f.qual, p)] = max(d for d, _ in ds)
    changed = True
    while changed:
        changed = False
        for f in funcs:
            for n in iter_own(f.node):
                if not isinstance(n, ast.Call):
                    continue
                callee = index.callee(f.mod, n, f)
                if callee not in index.funcs:
                    continue
                tf = index.funcs[callee]
                binds = []
                for i, a in enumerate(n.args):
                    if isinstance(a, ast.Starred):
                        break
                    if i < len(tf.params):
                        binds.append((tf.params[i], a))
                binds += [(k.arg, k.value) for k in n.keywords if k.arg]
                for pname, a in binds:
                    d0 = depth.get((callee, pname))
                    if d0 is None:
                        continue
                    extra, root = 0, a
                    while isinstance(root, (ast.Subscript, ast.Attribute)):
                        extra += 1
                        root = root.value
                    if isinstance(root, ast.Name) and root.id in f.params:
                        key = (f.qual, root.id)
                        if depth.get(key, 0) < d0 + extra:
                            depth[key] = d0 + extra
                            changed = True
    n_sites = 0
    inits = _import_time_inits(ctx)
    for f in funcs:
        if f.qual in inits:
            continue
        for n in iter_own(f.node):
            if not isinstance(n, (ast.Assign, ast.AnnAssign)) or n.value is None:
                continue
            pairs = []
            tg = n.targets if isinstance(n, ast.Assign) else [n.target]
            for t in tg:
                if isinstance(t, ast.Name):
                    pairs.append((t.id, n.value))
                elif isinstance(t, ast.Tuple) and isinstance(n.value, ast.Tuple) and len(t.elts) == len(n.value.elts):
                    pairs += [(x.id, v) for x, v in zip(t.elts, n.value.elts) if isinstance(x, ast.Name)]
                elif isinstance(t, (ast.Subscript, ast.Attribute)):
                    # ir["returns"] = G.copy(): the copy lives on under the access path
                    pairs.append((norm(t), n.value))
            # `a or G.copy()`, `G.copy() if c else b`: each alternative may be the value
            flat = []
            for lname, v in pairs:
                stack = [v]
                while stack:
                    x = stack.pop()
                    if isinstance(x, ast.BoolOp):
                        stack.extend(x.values)
                    elif isinstance(x, ast.IfExp):
                        stack.extend((x.body, x.orelse))
                    else:
                        flat.append((lname, x))
            for lname, v in flat:
                kind, g = None, None
                if isinstance(v, (ast.Name, ast.Attribute)):
                    kind, g = "alias", v
                elif isinstance(v, ast.Call) and isinstance(v.func, ast.Attribute) and v.func.attr == "copy" and not v.args:
                    kind, g = "shallow copy", v.func.value
                elif isinstance(v, ast.Call) and index.callee(f.mod, v, f) in SHALLOW_COPIERS and len(v.args) == 1:
                    kind, g = "shallow copy", v.args[0]
                elif isinstance(v, ast.Dict) and any(k is None for k in v.keys):
                    kind, g = "shallow copy", [x for k, x in zip(v.keys, v.values) if k is None][0]
                if g is None or not isinstance(g, (ast.Name, ast.Attribute)):
                    continue
                if isinstance(g, ast.Name) and g.id in f.locals:
                    continue
                r = index.resolve(f.mod, g, f)
                mv = index.module_var(r) if r else None
                if mv is None:
                    continue
                lit = getattr(mv[1][-1], "value", None)
                if not isinstance(lit, (ast.Dict, ast.List, ast.Set, ast.Call, ast.DictComp, ast.ListComp)):
                    continue
                nested = isinstance(lit, (ast.Dict, ast.List)) and any(
                    isinstance(x, (ast.Dict, ast.List, ast.Set, ast.DictComp, ast.ListComp, ast.SetComp))
                    for x in (lit.values if isinstance(lit, ast.Dict) else lit.elts)
                )
                if isinstance(lit, ast.Call) and norm(lit.func).rpartition(".")[2] in ("OrderedDict", "dict", "list", "defaultdict", "deque"):
                    # OrderedDict((("return_type", {}),)) / dict(a=[]) : a mutable display anywhere in the arguments
                    nested = any(
                        isinstance(x, (ast.Dict, ast.List, ast.Set, ast.DictComp, ast.ListComp, ast.SetComp))
                        or (isinstance(x, ast.Call) and norm(x.func).rpartition(".")[2] in ("OrderedDict", "dict", "list", "set", "defaultdict"))
                        for a_ in list(lit.args) + [k.value for k in lit.keywords]
                        for x in ast.walk(a_)
                    )
                limit = 1 if kind == "alias" else 2
                if kind == "shallow copy" and not nested:
                    continue
                n_sites += 1
                worst = 0
                witness = None
                for d, node in _mut_depths(f, lname):
                    if d > worst:
                        worst, witness = d, node
                # through callees
                for c in iter_own(f.node):
                    if isinstance(c, ast.Call):
                        callee = index.callee(f.mod, c, f)
                        if callee in index.funcs:
                            tf = index.funcs[callee]
                            for i, a in enumerate(c.args):
                                extra, root = 0, a
                                while isinstance(root, (ast.Subscript, ast.Attribute)):
                                    extra += 1
                                    root = root.value
                                if isinstance(root, ast.Name) and root.id == lname and i < len(tf.params):
                                    d0 = depth.get((callee, tf.params[i]))
                                    if d0 is not None and d0 + extra > worst:
                                        worst, witness = d0 + extra, c
                ok = worst < limit
                ctx.ob(
                    "C10.modstate",
                    f,
                    n,
                    ok,
                    ""
                    if ok
                    else "`{}` is a {} of module-level {} (which holds nested mutable values) and is then mutated at "
                    "depth {} ({}): the nested objects are shared between calls, so output depends on call "
                    "history".format(lname, kind, r, worst, short(witness, 60)),
                )
    ctx.count("module_level_container_alias_sites", n_sites)
    return 0


def _module_level_target(index, f, root, full):
    """dotted name when `root` (inside f) denotes a module-level mutable variable or a module"""
    g = f
    while g is not None:
        if root.id in g.locals:
            return None
        g = g.outer
    chain = attr_chain(full) if isinstance(full, (ast.Name, ast.Attribute)) else None
    ent = f.mod.top.get(root.id)
    if ent is None:
        return None
    if ent[0] == "def" and isinstance(full, ast.Attribute):
        # an attribute kept on a module-level function of this module (`helper.flag = True`): it lives as long as the
        # process, unlike one kept on a nested function, which every call of the owner creates afresh
        return ent[1]
    if ent[0] == "var":
        return f.mod.name + "." + root.id
    if ent[0] in ("mod", "sym"):
        node = full
        while isinstance(node, ast.Subscript):
            node = node.value
        r = index.resolve(f.mod, node, f) if isinstance(node, (ast.Name, ast.Attribute)) else None
        if r is None:
            return None
        if r in index.modules:
            return r
        if index.module_var(r) is not None:
            return r
        # attribute store on a function object: f.attr = ... — a NESTED function is created afresh by every call of its
        # owner, a module-level one lives as long as the process: its attributes are module state
        if r in index.funcs and isinstance(full, ast.Attribute):
            return r if index.funcs[r].outer is None and index.funcs[r].cls is None else None
    del chain
    return None


def _crossmod(ctx):
    index = ctx.index
    env = ModuleEnv(index)
    n = 0
    inits = _import_time_inits(ctx)
    for name in index.nontest_modules():
        m = index.modules[name]
        stmts = []
        for s in m.tree.body:
            stmts.append(s)
            # NAME = init() / init(): the statements the import-time-only initialiser executes for this call
            c = getattr(s, "value", None) if isinstance(s, (ast.Expr, ast.Assign, ast.AnnAssign)) else None
            if isinstance(c, ast.Call):
                for m2, c2, spec in inits.get(index.callee(m, c, None) or "", ()):
                    if c2 is c:
                        for st in spec:
                            ast.copy_location(st, s)
                            stmts.append(st)
        for s in stmts:
            call = s.value if isinstance(s, ast.Expr) and isinstance(s.value, ast.Call) else None
            target = None
            pairs_node = None
            if call is not None and isinstance(call.func, ast.Attribute) and call.func.attr in MUTATORS:
                target = index.resolve(m, call.func.value, None)
                pairs_node = call
            elif isinstance(s, (ast.Assign, ast.AugAssign)):
                for t in s.targets if isinstance(s, ast.Assign) else [s.target]:
                    if isinstance(t, ast.Subscript):
                        target = index.resolve(m, t.value, None)
                        pairs_node = s
            if target is None or not target.startswith("cdd."):
                continue
            mv = index.module_var(target)
            if mv is None or mv[0] is m:
                continue
            n += 1
            owner_mod = mv[0]
            try:
                own = env.value(target)
            except Unknown as e:
                ctx.need(False, "cannot fold owner table {}: {}".format(target, e))
            ok, msg = True, ""
            try:
                if isinstance(pairs_node, ast.Call) and pairs_node.func.attr == "update":
                    written = {}
                    for a in pairs_node.args:
                        written.update(env.in_module(m, a))
                    for k in pairs_node.keywords:
                        written[k.arg] = env.in_module(m, k.value)
                elif isinstance(pairs_node, ast.Assign):
                    t = pairs_node.targets[0]
                    written = {env.in_module(m, t.slice): env.in_module(m, pairs_node.value)}
                else:
                    ok, msg, written = False, "non-idempotent mutation of a foreign table", {}
            except Unknown as e:
                ok, msg, written = False, "cannot fold the written pairs ({})".format(e), {}
            if ok:
                diff = {k: v for k, v in written.items() if k not in own or own[k] != v}
                if diff:
                    ok = False
                    msg = (
                        "import of {} changes {} (owned by {}): {} — the table's content then depends "
                        "on which modules happen to have been imported".format(
                            m.name, target, owner_mod.name, dict(sorted(diff.items())[:4])
                        )
                    )
            ctx.ob("C10.crossmod", m, "{} <- {}".format(target, short(pairs_node, 60)), ok, msg, line=s.lineno)
    ctx.count("cross_module_import_time_writes", n)
    ctx.floor("cross-module import-time table writes", n, 0)


def _nondet(ctx):
    index = ctx.index
    eff = Effects(index)
    n = 0
    for e in eff.sites:
        if e.kind != "NONDET":
            continue
        n += 1
        where = e.where()
        if e.callee in ("os.listdir", "os.scandir", "os.walk", "glob.glob", "glob.iglob"):
            # sorted(...) somewhere above in the same expression?
            m = e.mod
            p = m.parents.get(e.call)
            sorted_above = False
            while p is not None and isinstance(p, (ast.expr, ast.keyword, ast.comprehension)):
                if isinstance(p, ast.Call) and index.callee(m, p, e.func) in ("builtins.sorted", "builtins.frozenset", "builtins.set", "builtins.any", "builtins.all", "builtins.len"):
                    sorted_above = True
                    break
                p = m.parents.get(p)
            if sorted_above:
                ctx.ob("C10.nondet", where, e.call, True)
            else:
                ctx.note(
                    "{}: {} is consumed in file-system order (not one of the property's three named "
                    "sources; reported as a note)".format(e.func.qual if e.func else e.mod.name, short(e.call, 50))
                )
                ctx.ob("C10.nondet", where, e.call, True, "note: file-system order")
            continue
        ctx.ob(
            "C10.nondet",
            where,
            e.call,
            False,
            "non-deterministic API {} on a code path of the package".format(e.callee),
        )
    ctx.count("nondeterministic_api_sites", n)


def state_slice(ctx, rule, roots, min_reach=5, prefix="state_"):
    """
    C10's call-history rules on the functions reachable from `roots`, reported under another property's rule name:
    no module-level state is written, nothing is memoised, no mutable default is written through (or handed back to
    a caller that mutates it). Used by the properties whose statement quantifies over several conversions in one
    process (C01, C02, C04, C06 — like C12 / C13 / C16 / C19 before them).
    """
    from ..core import RefGraph

    index = ctx.index
    graph = RefGraph(index)
    for r in roots:
        index.func(r)
    reach = graph.reachable(list(roots))
    ctx.count(prefix + "functions", len(reach))
    ctx.need(len(reach) >= min_reach, "the {} slice shrank to {} functions: call graph no longer resolves it".format(rule, len(reach)))
    view = ctx.view(lambda w: getattr(w, "qual", None) in reach, rule=rule, prefix=prefix)
    _modstate(view)
    _mutdefault(view)


_IM_CACHE = {}


def input_mutation(index):
    """the whole-package input-mutation summaries (computed once per run)"""
    from ..inputmut import InputMut

    if id(index) not in _IM_CACHE:
        _IM_CACHE.clear()
        _IM_CACHE[id(index)] = InputMut(index)
    return _IM_CACHE[id(index)]


def emitter_entries(index):
    """[(Func, 'intermediate_repr')]: public functions of the `cdd.<format>.emit` modules that take an interface description"""
    out = []
    for f in index.nontest_funcs():
        if f.outer is not None or f.cls is not None or f.short.startswith("_"):
            continue
        if f.mod.name.rpartition(".")[2] != "emit" or ".utils" in f.mod.name:
            continue
        if "intermediate_repr" in f.params:
            out.append((f, "intermediate_repr"))
    return out


def parser_entries(index):
    """[(Func, first parameter)]: public functions of the `cdd.<format>.parse` modules (they are handed a syntax tree)"""
    out = []
    for f in index.nontest_funcs():
        if f.outer is not None or f.cls is not None or f.short.startswith("_") or not f.params:
            continue
        if f.mod.name.rpartition(".")[2] != "parse" or ".utils" in f.mod.name:
            continue
        out.append((f, f.params[0]))
    return out


def inputmut_rule(ctx, rule, entries, why, objects_only=False):
    """
    every (function, parameter) of `entries` leaves the parameter's object graph alone. With `objects_only` (the
    parsers, whose input is a syntax tree and whose result is a fresh dict holding parts of it) only mutations of a
    place reached through an attribute count (`node.args.insert(...)`, `node.name = ...`): stores into dicts cannot
    be told apart from stores into the result being built, since untyped strings taken from the tree keep a view.
    """
    im = input_mutation(ctx.index)
    ctx.count("inputmut_summaries", len(im.muts))
    ctx.count("inputmut_fixpoint_rounds", im.rounds)
    for f, p in entries:
        m = im.mutates(f.qual, p)
        if objects_only:
            m = {L: w for L, w in m.items() if w[2]}
        if not m:
            ctx.ob(rule, f, "parameter `{}` is not mutated".format(p), True)
            continue
        seen = set()
        for L in sorted(m):
            chain = im.chain(f.qual, p, L)
            leaf = chain.rpartition(" -> ")[2]
            leaf_key = leaf.partition(" ")[2] + " in " + leaf.partition(":")[0]
            if leaf_key in seen:
                continue
            seen.add(leaf_key)
            ctx.ob(
                rule,
                f,
                "`{}` mutated by {}".format(p, leaf_key),
                False,
                "the object handed in as `{}` is mutated (nesting level {}): {} — {}".format(p, L, chain, why),
                line=getattr(m[L][0], "lineno", None),
            )


def _inputmut(ctx):
    entries = emitter_entries(ctx.index)
    ctx.floor("emitters taking an interface description", len(entries), 8)
    inputmut_rule(
        ctx,
        "C10.inputmut",
        entries,
        "a second emission from the same object, or any conversion run on it afterwards, no longer sees the same input",
    )
    parsers = parser_entries(ctx.index)
    ctx.floor("parsers taking a syntax tree", len(parsers), 8)
    inputmut_rule(
        ctx,
        "C10.inputmut",
        parsers,
        "parsing the same tree a second time, or emitting it afterwards, no longer sees the same input",
        objects_only=True,
    )


def cachekey_rule(ctx, rule, reach):
    """
    A cache that OUTLIVES the call that fills it — a dict the function is handed as a parameter (`memo=None`) — must be
    keyed by everything the cached value depends on that can differ between the calls sharing it. Shape looked for, in
    the functions of `reach`:  `C[K] = g(A...)` / `C.setdefault(K, g(A...))`  with C a parameter of the enclosing
    function f. The parameters of f the arguments A depend on (def-use closure) are compared with the parameters K
    depends on; a parameter is only required in the key if some call site of f, inside a loop / comprehension / map,
    hands it a value that varies with the iteration (the calls that share one cache object). A value cached under a
    key that leaves such a parameter out is handed to the later call although it was computed for the earlier one.
    """
    from ..defuse import param_roots

    index = ctx.index
    n_sites = 0
    for q in sorted(reach):
        f = index.funcs.get(q)
        if f is None or f.mod.is_test:
            continue
        for n in iter_own(f.node):
            cache = key = val = None
            if isinstance(n, ast.Assign) and len(n.targets) == 1 and isinstance(n.targets[0], ast.Subscript) and isinstance(n.targets[0].value, ast.Name) and isinstance(n.value, ast.Call):
                cache, key, val = n.targets[0].value.id, n.targets[0].slice, n.value
            elif isinstance(n, ast.Call) and isinstance(n.func, ast.Attribute) and n.func.attr == "setdefault" and isinstance(n.func.value, ast.Name) and len(n.args) == 2 and isinstance(n.args[1], ast.Call):
                cache, key, val = n.func.value.id, n.args[0], n.args[1]
            if cache is None or cache not in f.params:
                continue
            # the cached value must be READ back under the same key somewhere in f (else it is an output, not a cache)
            if not any(isinstance(x, ast.Subscript) and isinstance(x.ctx, ast.Load) and isinstance(x.value, ast.Name) and x.value.id == cache for x in iter_own(f.node)) and not isinstance(n, ast.Call):
                continue
            n_sites += 1
            depends = set()
            for a in list(val.args) + [k.value for k in val.keywords]:
                depends |= param_roots(f, a)
            depends.discard(cache)
            keyed = param_roots(f, key)
            # which parameters vary between the calls that share one cache object
            varying = set()
            for g in index.nontest_funcs():
                for c in iter_own(g.node):
                    if not (isinstance(c, ast.Call) and index.callee(g.mod, c, g) == f.qual):
                        continue
                    loopvars = set()
                    p_ = g.mod.parents.get(c)
                    while p_ is not None and p_ is not g.node:
                        if isinstance(p_, (ast.For, ast.AsyncFor)):
                            loopvars |= set(stored_names(p_.target))
                            loopvars |= {t for st in ast.walk(p_) if isinstance(st, (ast.Assign, ast.AugAssign)) for tt in (st.targets if isinstance(st, ast.Assign) else [st.target]) for t in stored_names(tt)}
                        if isinstance(p_, (ast.ListComp, ast.GeneratorExp, ast.SetComp, ast.DictComp)):
                            for ge in p_.generators:
                                loopvars |= set(stored_names(ge.target))
                        if isinstance(p_, ast.Lambda):
                            loopvars |= {x.arg for x in p_.args.args}
                        p_ = g.mod.parents.get(p_)
                    if not loopvars:
                        continue
                    for pname, a in index.bound_args(g.mod, c, g).items():
                        if any(isinstance(x, ast.Name) and x.id in loopvars for x in ast.walk(a)):
                            varying.add(pname)
            missing = sorted((depends & varying) - keyed)
            ok = not missing
            ctx.ob(
                rule,
                f,
                n,
                ok,
                ""
                if ok
                else "`{}` is cached in `{}` (a cache the caller hands in, shared by its calls) under the key `{}`, but it is computed "
                "from {} too, which differ{} from call to call: the later call is handed the value computed for the earlier one".format(
                    short(val, 50), cache, short(key, 30), ", ".join("`{}`".format(m_) for m_ in missing), "s" if len(missing) == 1 else ""
                ),
            )
    ctx.count("caches_handed_in_by_the_caller", n_sites)
