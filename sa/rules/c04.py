"""
C04 — emitted code exposes exactly the described interface: NECESSARY PARTS ONLY.

The property's oracle is CPython running the emitted program; that is not decided. Three structural
clauses of the emitters are necessary for it and are decided from the emitters' source:

C04.align     : (C02.align.emit re-run) the argument list and the default list of the emitted function are
                built from one iterable and routed to the same side of `arguments(...)` — else
                inspect.signature pairs a default with the wrong parameter.
C04.nodefault : the function emitter distinguishes "no default" from "default None": for a parameter entry
                without a `default` key the value placed in defaults / kw_defaults must be absent (Python
                None), not a node — else the signature shows `=None` for a parameter described without one.
C04.classdefault : the class emitter (param2ast) writes an annotated attribute without a value for an entry
                without a `default` key.
C04.required  : the argparse emitter never writes `required=True` together with `default=…` for one
                option — else `parse_args([])` exits instead of yielding the described default.
"""

import ast

from ..core import iter_own, norm, short
from ..fold import ModuleEnv, Unknown
from . import c02


def run(ctx):
    """entry"""
    index = ctx.index
    env = ModuleEnv(index)
    ctx.explanation = (
        "Def-use shape of the emitted function's argument / default lists (one source iterable, joint routing); "
        "constant folding of the branch condition that builds a parameter's default node, evaluated for a "
        "parameter entry without a `default` key; syntactic entailment between the conditions under which the "
        "argparse emitter writes `required=True` and `default=`."
    )
    ctx.assumptions += [
        "NOT decided: that the emitted program compiles and, executed, has the described attributes, signature "
        "and ArgumentParser for every interface description (the oracle is CPython itself); type conversion "
        "functions (`type=bool` turns the text 'False' into True), choices, help text; unparse/re-parse equality. "
        "Only the three necessary clauses above are decided.",
    ]
    ctx.section(c02._align_emit, ctx.view(lambda w: True, rule="C04.align"), index)
    ctx.section(c02._exacttype, ctx, index, "C04.exacttype")
    from . import c10

    ctx.section(
        c10.state_slice,
        ctx,
        "C04.state",
        ["cdd.class_.emit.class_", "cdd.function.emit.function", "cdd.argparse_function.emit.argparse_function"],
    )
    ctx.section(c02._escape, ctx, index)
    ctx.section(c02._typewalk, ctx, index, "C04.typewalk")

    def _sec_inputmut():
        from . import c10

        ents = []
        for q in ("cdd.class_.emit.class_", "cdd.function.emit.function", "cdd.argparse_function.emit.argparse_function"):
            f_ = index.func(q)
            ents.append((f_, f_.params[0]))
        c10.inputmut_rule(ctx, "C04.inputmut", ents, "the code emitted next from the same description no longer exposes the described interface")

    ctx.section(_sec_inputmut)
    ctx.section(_nodefault, ctx, index, env)
    ctx.section(_classdefault, ctx, index, env)
    ctx.section(_required, ctx, index)


def _nodefault(ctx, index, env):
    f, _xname, yname, _fields, _joint, _ctor = c02.emit_lists(ctx, index)
    builders = c02.elementwise_local(f, yname)
    ctx.need(len(builders) == 1, "cannot find the element-wise expression that builds the default list")
    _it, binder, body, _flt = builders[0]

    class _B(object):
        lineno = body.lineno

    lam = _B()
    lam.body = body

    def bind(entry):
        """bind the element ('x', entry) to the lambda parameter / comprehension target"""
        if isinstance(binder, str):
            return {binder: ("x", entry)}
        if isinstance(binder, ast.Name):
            return {binder.id: ("x", entry)}
        if isinstance(binder, ast.Tuple) and len(binder.elts) == 2 and all(isinstance(e, ast.Name) for e in binder.elts):
            return {binder.elts[0].id: "x", binder.elts[1].id: entry}
        ctx.need(False, "unexpected binder of the default list builder: {}".format(norm(binder)))

    def resolve(e, binding):
        """follow IfExp arms whose test folds under the binding; returns list of (result expr, path text)"""
        if isinstance(e, ast.IfExp):
            try:
                t = env.in_module(f.mod, e.test, binding)
            except Unknown:
                return [(x, p) for arm in (e.body, e.orelse) for x, p in resolve(arm, binding)]
            return resolve(e.body if t else e.orelse, binding)
        return [(e, "")]

    # is the list filtered before it reaches arguments(...)? (a filter(None, ...) would drop Python None entries)
    for label, entry in (("no `default` key", {}),):
        results = resolve(lam.body, bind(dict(entry, typ="int", doc="d")))
        for r, _p in results:
            absent = isinstance(r, ast.Constant) and r.value is None
            ctx.ob(
                "C04.nodefault",
                f,
                "a parameter with {} gets no default node".format(label),
                absent,
                ""
                if absent
                else "a parameter described WITHOUT a default still gets a default node ({}): the emitted signature shows "
                "`=None` (inspect.signature reports a default the description does not have, and a required "
                "parameter becomes optional)".format(short(r, 60)),
                line=lam.lineno,
            )
    ctx.count("default_builders_evaluated", 1)


def _classdefault(ctx, index, env):
    """
    C04.classdefault: an annotated class attribute emitted for a parameter entry WITHOUT a `default` key has
    no value (`a: int`, AnnAssign.value is Python None) — else the class carries a default the description
    does not have. Every `AnnAssign(... value=V ...)` returned by param2ast is evaluated for such an entry:
    nested helper calls and immediately-applied lambdas are inlined, conditional expressions folded.
    """
    f = index.func("cdd.shared.ast_utils.param2ast")
    nested = {g.node.name: g for g in index.funcs.values() if g.outer is f}

    def ev(e, binding, depth=0):
        """ABSENT | PRESENT | None (unknown) for expression e"""
        if depth > 6:
            return None
        if isinstance(e, ast.Constant):
            return "ABSENT" if e.value is None else "PRESENT"
        try:
            v = env.in_module(f.mod, e, binding)
            if v is None:
                return "ABSENT"
            if isinstance(v, (str, int, float, tuple, list, dict, bool)):
                return "PRESENT"
        except Unknown:
            pass
        except Exception:
            pass
        if isinstance(e, ast.IfExp):
            try:
                t = env.in_module(f.mod, e.test, binding)
                return ev(e.body if t else e.orelse, binding, depth + 1)
            except Exception:
                a, b = ev(e.body, binding, depth + 1), ev(e.orelse, binding, depth + 1)
                return a if a == b else None
        if isinstance(e, ast.Call):
            fn, args = e.func, e.args
            target = None
            helper = nested.get(fn.id) if isinstance(fn, ast.Name) else None
            if helper is None and isinstance(fn, (ast.Name, ast.Attribute)):
                # ... or a small function of the package (a helper hoisted to module level)
                helper = index.funcs.get(index.callee(f.mod, e, f) or "")
            if helper is not None:
                g = helper.node
                as_e = _body_as_expr([x for x in g.body if not (isinstance(x, ast.Expr) and isinstance(x.value, ast.Constant))])
                if as_e is not None and len(g.args.args) == len(args) and not e.keywords:
                    target = ([a.arg for a in g.args.args], as_e)
            elif isinstance(fn, ast.Lambda) and len(fn.args.args) == len(args):
                target = ([a.arg for a in fn.args.args], fn.body)
            if target is not None:
                names, body = target
                b2 = dict(binding)
                for nm, a in zip(names, args):
                    r = ev(a, binding, depth + 1)
                    if r == "ABSENT":
                        b2[nm] = None
                    else:
                        b2.pop(nm, None)
                        if r is None:
                            return None
                        b2[nm] = _NODE
                return ev(body, b2, depth + 1)
            # any other call builds a node / value
            return "PRESENT"
        if isinstance(e, ast.Name) and e.id in binding:
            return "ABSENT" if binding[e.id] is None else "PRESENT"
        return None

    # `name, <entry> = param`: the local that holds the parameter entry, whatever it is called
    entry_var = None
    for st in iter_own(f.node):
        if isinstance(st, ast.Assign) and isinstance(st.targets[0], ast.Tuple) and len(st.targets[0].elts) == 2 and isinstance(st.value, ast.Name) and st.value.id in f.params:
            if all(isinstance(e, ast.Name) for e in st.targets[0].elts):
                entry_var = st.targets[0].elts[1].id
    ctx.need(entry_var is not None, "param2ast no longer unpacks its (name, entry) parameter")
    n = 0
    for r in iter_own(f.node):
        if not (isinstance(r, ast.Return) and isinstance(r.value, ast.Call) and norm(r.value.func) == "AnnAssign"):
            continue
        vkw = next((k.value for k in r.value.keywords if k.arg == "value"), None)
        ctx.need(vkw is not None, "an AnnAssign(...) of param2ast has no value= keyword")
        n += 1
        # locals assigned before the return (e.g. `default = _param.get("default") if ... else quote(...)`)
        binding = {entry_var: {"doc": "d"}}
        for st in iter_own(f.node):
            if isinstance(st, ast.Assign) and len(st.targets) == 1 and isinstance(st.targets[0], ast.Name) and st.lineno < r.lineno:
                got = ev(st.value, binding)
                if got == "ABSENT":
                    binding[st.targets[0].id] = None
        got = ev(vkw, binding)
        ctx.need(got is not None, "cannot evaluate the value of the AnnAssign at line {} for an entry without default: {}".format(r.lineno, short(vkw, 80)))
        ctx.ob(
            "C04.classdefault",
            f,
            "AnnAssign annotated {} has no value for an entry without `default`".format(
                next(
                    (repr(c.value) for k in r.value.keywords if k.arg == "annotation" for c in ast.walk(k.value) if isinstance(c, ast.Constant) and isinstance(c.value, str)),
                    "with the entry's own type",
                )
            ),
            got == "ABSENT",
            ""
            if got == "ABSENT"
            else "a class attribute described WITHOUT a default is emitted with the value `{}`: the class exposes a default "
            "the description does not have".format(short(vkw, 60)),
            line=r.lineno,
        )
    ctx.floor("AnnAssign returns of param2ast", n, 1)
    ctx.count("annassign_sites", n)


_NODE = object()


def _body_as_expr(stmts):
    """
    the one expression a helper body denotes: `return E`, or guard clauses `if T: return A` (with or without `else`)
    followed by the rest — folded into `A if T else <rest>`; None when the body is anything else
    """
    if not stmts:
        return None
    st = stmts[0]
    if isinstance(st, ast.Return) and len(stmts) == 1:
        return st.value if st.value is not None else ast.Constant(value=None)
    if isinstance(st, ast.If):
        a = _body_as_expr(st.body)
        b = _body_as_expr(st.orelse + stmts[1:]) if not (st.orelse and stmts[1:] and _body_as_expr(st.orelse) is not None) else _body_as_expr(st.orelse)
        if a is None or b is None:
            return None
        return ast.copy_location(ast.IfExp(test=st.test, body=a, orelse=b), st)
    return None


def _required(ctx, index):
    root = index.func("cdd.shared.ast_utils.param2argparse_param")
    from ..core import RefGraph
    from ..region import Region

    sites = {}
    par = root.mod.parents
    for f, n in Region(index, RefGraph(index), root, allow_passed=True).nodes():
        if isinstance(n, ast.Call) and norm(n.func) == "keyword":
            arg = next((k.value.value for k in n.keywords if k.arg == "arg" and isinstance(k.value, ast.Constant)), None)
            if arg in ("required", "default"):
                # the condition under which this keyword is written: enclosing IfExp tests with polarity
                conds = []
                child, p = n, par.get(n)
                while p is not None and p is not f.node:
                    if isinstance(p, ast.IfExp):
                        if child is p.body:
                            conds.append((p.test, True))
                        elif child is p.orelse:
                            conds.append((p.test, False))
                    elif isinstance(p, ast.If):
                        conds.append((p.test, child in p.body))
                    child, p = p, par.get(p)
                sites[arg] = (n, conds)
    f = root
    ctx.need(set(sites) == {"required", "default"}, "cannot find the `required` / `default` keyword sites of param2argparse_param: {}".format(sorted(sites)))

    def atoms(conds):
        """{(normalised atom, truth)} from conjunctions / negations"""
        out = set()
        for t, pol in conds:
            stack = [(t, pol)]
            while stack:
                e, v = stack.pop()
                if isinstance(e, ast.UnaryOp) and isinstance(e.op, ast.Not):
                    stack.append((e.operand, not v))
                elif isinstance(e, ast.BoolOp) and ((isinstance(e.op, ast.And) and v) or (isinstance(e.op, ast.Or) and not v)):
                    stack.extend((x, v) for x in e.values)
                elif isinstance(e, ast.Compare) and len(e.ops) == 1 and isinstance(e.ops[0], (ast.Is, ast.IsNot, ast.Eq, ast.NotEq)):
                    pos = isinstance(e.ops[0], (ast.Is, ast.Eq))
                    out.add(("{} is {}".format(norm(e.left), norm(e.comparators[0])), v if pos else not v))
                else:
                    out.add((norm(e), v))
        return out

    ra, da = atoms(sites["required"][1]), atoms(sites["default"][1])
    # exclusive when one side's atoms contain the negation of an atom of the other side
    exclusive = any((a, not v) in da for a, v in ra)
    ctx.ob(
        "C04.required",
        f,
        "'required' and 'default' keywords are mutually exclusive",
        exclusive,
        ""
        if exclusive
        else "nothing makes `required=True` and `default=…` exclusive: an option that has a default is also emitted as required, "
        "and `parse_args([])` on the emitted parser exits with 'the following arguments are required' instead of yielding "
        "the described default",
        line=sites["required"][0].lineno,
    )
    ctx.count("add_argument_keyword_sites", len(sites))
