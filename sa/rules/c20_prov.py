"""
C20.prov — provenance of write paths reachable from exmod, with a depth abstraction.

Abstract value of a path expression: an integer d = guaranteed minimum number of path components
below the output directory given to `exmod` (0 = the output directory itself), or None = not
derived from it. os.path.join adds the number of definitely-present components, os.path.dirname
subtracts one, realpath/normpath/... keep it. A write whose path has d < 0 (it may lie above the
output directory) or None (not rooted there) is reported. Later components being absolute or `..`
is a run-time matter and is not decided.
"""

import ast

from ..core import iter_own, short
from ..effects import OPEN_NAMES

INF = 10**6
ESCAPED = -(10**6)
KEEP = frozenset(
    "os.path.realpath os.path.abspath os.path.normpath os.path.normcase os.path.expanduser "
    "os.path.expandvars os.fspath builtins.str".split()
)
ENTRY = "cdd.compound.exmod.exmod"
ROOT_PARAM = "output_directory"


class Joiner(object):
    """abstract value of partial(path.join, <P(d)>, ...)"""

    def __init__(self, depth):
        self.depth = depth


def meet(a, b):
    """greatest lower bound"""
    if a is None or b is None:
        return None
    if a is INF or a == INF:
        return b
    if b is INF or b == INF:
        return a
    if isinstance(a, Joiner) or isinstance(b, Joiner):
        if isinstance(a, Joiner) and isinstance(b, Joiner):
            return Joiner(min(a.depth, b.depth))
        return None
    return min(a, b)


class Prov(object):
    """the evaluator"""

    def __init__(self, index, graph, reach):
        self.index = index
        self.graph = graph
        self.reach = [index.funcs[q] for q in reach if q in index.funcs]
        self.param_cache = {}
        self.in_progress = set()
        self.bindings = None

    # ---------------------------------------------------------- components
    def _min_len(self, f, e, seen, facts=None):
        """minimum number of components a (possibly starred) argument contributes"""
        if isinstance(e, ast.Starred):
            v = e.value
            return self._seq_min_len(f, v, seen, facts)
        return 1

    def _seq_min_len(self, f, v, seen, facts=None):
        if isinstance(v, (ast.Tuple, ast.List)):
            return sum(self._min_len(f, x, seen, facts) for x in v.elts)
        if isinstance(v, ast.IfExp):
            known = self._known(f, v.test, facts) if self._stable(f, v.test) else None
            if not self._stable(f, v.test):
                return min(
                    self._seq_min_len(f, v.body, seen, facts),
                    self._seq_min_len(f, v.orelse, seen, facts),
                )
            if known is True:
                return self._seq_min_len(f, v.body, seen, facts)
            if known is False:
                return self._seq_min_len(f, v.orelse, seen, facts)
            return min(
                self._seq_min_len(f, v.body, seen, self._with(facts, v.test, True)),
                self._seq_min_len(f, v.orelse, seen, self._with(facts, v.test, False)),
            )
        return 0

    def _stable(self, f, test):
        """the names of a condition are bound at most once in f (so the condition has one value)"""
        from ..walker import names_in

        for nm in names_in(test):
            n_defs = len(self.local_defs(f, nm))
            if nm in f.params:
                n_defs -= 1
                if n_defs > 0:
                    return False
            elif n_defs > 1:
                return False
        return True

    def _known(self, f, test, facts):
        if not facts:
            return None
        from ..core import norm

        return facts.get(norm(test))

    def _with(self, facts, test, truth):
        from ..walker import cond_facts

        out = dict(facts or {})
        out.update(cond_facts(test, truth))
        return out

    # ----------------------------------------------------------- evaluation
    def local_defs(self, f, name, use=None):
        """
        values assigned to local `name` in f that may reach `use`: list of (value node, selector).
        Reaching definitions, simplified: definitions after the use are ignored (unless the use is
        inside a loop) and an unconditional top-level assignment kills everything before it.
        """
        out = []
        par = f.mod.parents
        for n in iter_own(f.node):
            if isinstance(n, (ast.Assign, ast.AnnAssign)) and n.value is not None:
                for t in n.targets if isinstance(n, ast.Assign) else [n.target]:
                    if isinstance(t, ast.Name) and t.id == name:
                        out.append((n.value, None, n))
                    elif isinstance(t, (ast.Tuple, ast.List)):
                        for i, el in enumerate(t.elts):
                            if isinstance(el, ast.Name) and el.id == name:
                                out.append((n.value, i, n))
            elif isinstance(n, ast.withitem) and n.optional_vars is not None:
                if isinstance(n.optional_vars, ast.Name) and n.optional_vars.id == name:
                    out.append((None, None, par.get(n)))
            elif isinstance(n, (ast.For, ast.comprehension)):
                if any(isinstance(x, ast.Name) and x.id == name for x in ast.walk(n.target)):
                    out.append((None, None, n if isinstance(n, ast.For) else par.get(n)))
        out.sort(key=lambda d: getattr(d[2], "lineno", 0))
        use_line = getattr(use, "lineno", None)
        if use is not None and use_line is not None:
            in_loop = False
            a = par.get(use)
            while a is not None and a is not f.node:
                if isinstance(a, (ast.For, ast.While)):
                    in_loop = True
                a = par.get(a)
            if not in_loop:
                keep = []
                for d in out:
                    st = d[2]
                    contains = (
                        st.lineno <= use_line <= (st.end_lineno or st.lineno)
                        and any(x is use for x in ast.walk(st))
                    )
                    if st.lineno > use_line or contains:
                        continue
                    keep.append(d)
                last_top = None
                for i, d in enumerate(keep):
                    if par.get(d[2]) is f.node:
                        last_top = i
                if last_top is not None:
                    keep = keep[last_top:]
                if name in f.params and last_top is None:
                    keep = keep + [("<param>", None, None)]
                out = keep
            elif name in f.params:
                out = out + [("<param>", None, None)]
        elif name in f.params:
            out = out + [("<param>", None, None)]
        return [(v, s) for v, s, _ in out]

    def eval(self, f, e, seen=frozenset(), facts=None):
        """abstract depth of expression e inside function f"""
        idx = self.index
        if isinstance(e, ast.Name):
            lam = self._lambda_param(f, e)
            if lam is not None:
                return lam
            defs = self.local_defs(f, e.id, e)
            if not defs:
                return None
            key = (f.qual, e.id, getattr(e, "lineno", None))
            if key in seen:
                return INF
            seen = seen | {key}
            res = INF
            for v, sel in defs:
                if v is None:
                    return None
                if isinstance(v, str):
                    val = self.param(f, e.id)
                elif sel is None:
                    val = self.eval(f, v, seen, facts)
                else:
                    val = self.eval_elem(f, v, sel, seen, facts)
                res = meet(res, val)
                if res is None:
                    return None
            return res
        if isinstance(e, ast.IfExp):
            if self._stable(f, e.test):
                known = self._known(f, e.test, facts)
                if known is True:
                    return self.eval(f, e.body, seen, facts)
                if known is False:
                    return self.eval(f, e.orelse, seen, facts)
                return meet(
                    self.eval(f, e.body, seen, self._with(facts, e.test, True)),
                    self.eval(f, e.orelse, seen, self._with(facts, e.test, False)),
                )
            return meet(self.eval(f, e.body, seen, facts), self.eval(f, e.orelse, seen, facts))
        if isinstance(e, ast.Call):
            callee = idx.callee(f.mod, e, f)
            if callee == "os.path.join" and e.args:
                first = e.args[0]
                if isinstance(first, ast.Starred):
                    # path.join(*ROOT, rest...) where ROOT is a tuple (or a conditional between tuples) of components
                    alts = self._tuple_alternatives(f, first.value)
                    if not alts:
                        return None
                    res = INF
                    for elts in alts:
                        if not elts or isinstance(elts[0], ast.Starred):
                            return None
                        d0 = self.eval(f, elts[0], seen, facts)
                        if d0 is None or isinstance(d0, Joiner):
                            return None
                        val = d0 + sum(self._min_len(f, a, seen, facts) for a in list(elts[1:]) + list(e.args[1:]))
                        res = meet(res, val)
                        if res is None:
                            return None
                    return res
                d = self.eval(f, first, seen, facts)
                if d is None or isinstance(d, Joiner):
                    return None
                return d + sum(self._min_len(f, a, seen, facts) for a in e.args[1:])
            if callee == "os.path.dirname" and e.args:
                d = self.eval(f, e.args[0], seen, facts)
                if d is None or isinstance(d, Joiner):
                    return None
                # leaving the output directory is sticky: joining below a parent does not re-enter
                return d - 1 if d >= 1 else ESCAPED
            if callee in KEEP and e.args:
                return self.eval(f, e.args[0], seen, facts)
            if callee == "functools.partial" and e.args:
                if idx.resolve(f.mod, e.args[0], f) == "os.path.join" and len(e.args) > 1:
                    fake = ast.Call(func=e.args[0], args=e.args[1:], keywords=[])
                    d = self.eval(f, fake, seen, facts)
                    return None if d is None or isinstance(d, Joiner) else Joiner(d)
                return None
            if isinstance(e.func, ast.Name):
                j = self.eval(f, e.func, seen, facts)
                if isinstance(j, Joiner):
                    return j.depth + sum(self._min_len(f, a, seen, facts) for a in e.args)
            h = idx.funcs.get(callee or "")
            if h is not None and h.outer is None and not h.mod.is_test:
                # a path computed by a helper of the package (`_init_filepath_in(output_directory, name)`): the meet over
                # its return expressions, its parameters standing for what ALL its call sites hand in (context-insensitive)
                key = (h.qual, "<return>", None)
                rets = [r.value for r in iter_own(h.node) if isinstance(r, ast.Return) and r.value is not None]
                if rets and key not in seen:
                    res = INF
                    for r in rets:
                        res = meet(res, self.eval(h, r, seen | {key}, None))
                        if res is None:
                            return None
                    return res
            return None
        if isinstance(e, ast.Subscript) or isinstance(e, ast.BinOp):
            return None
        return None

    def _tuple_alternatives(self, f, v, depth=0):
        """the tuple displays a starred argument may denote: a literal, a conditional between literals, a local so defined"""
        if depth > 3:
            return None
        if isinstance(v, (ast.Tuple, ast.List)):
            return [list(v.elts)]
        if isinstance(v, ast.IfExp):
            a, b = self._tuple_alternatives(f, v.body, depth + 1), self._tuple_alternatives(f, v.orelse, depth + 1)
            return None if a is None or b is None else a + b
        if isinstance(v, ast.Name):
            defs = self.local_defs(f, v.id, v)
            out = []
            for d, sel in defs:
                if d is None or isinstance(d, str) or sel is not None:
                    return None
                alt = self._tuple_alternatives(f, d, depth + 1)
                if alt is None:
                    return None
                out += alt
            return out or None
        return None

    def eval_elem(self, f, v, i, seen, facts=None):
        """abstract value of element i of a tuple-valued expression"""
        if isinstance(v, ast.IfExp):
            return meet(
                self.eval_elem(f, v.body, i, seen, facts),
                self.eval_elem(f, v.orelse, i, seen, facts),
            )
        if isinstance(v, (ast.Tuple, ast.List)) and len(v.elts) > i:
            return self.eval(f, v.elts[i], seen, facts)
        if isinstance(v, ast.Call):
            callee = self.index.callee(f.mod, v, f)
            if callee == "builtins.map" and len(v.args) == 2:
                fn = self.eval(f, v.args[0], seen, facts)
                if isinstance(fn, Joiner):
                    return fn.depth + 1
        return None

    def _lambda_param(self, f, name_node):
        """a Name that is the parameter of an enclosing immediately-applied lambda"""
        par = f.mod.parents
        n = par.get(name_node)
        while n is not None and n is not f.node:
            if isinstance(n, ast.Lambda) and any(
                a.arg == name_node.id for a in n.args.args
            ):
                call = par.get(n)
                if isinstance(call, ast.Call) and call.func is n:
                    pos = [a.arg for a in n.args.args].index(name_node.id)
                    if len(call.args) > pos:
                        return self.eval(f, call.args[pos]) if False else None
                return None
            n = par.get(n)
        return None

    # --------------------------------------------------------------- params
    def _collect_bindings(self):
        """{(callee qual, param): [(caller Func, value node)]} over all functions reachable"""
        idx = self.index
        b = {}
        for f in self.reach:
            aliases = {}
            for n in iter_own(f.node):
                if (
                    isinstance(n, ast.Assign)
                    and len(n.targets) == 1
                    and isinstance(n.targets[0], ast.Name)
                    and isinstance(n.value, ast.Call)
                    and idx.callee(f.mod, n.value, f) == "functools.partial"
                    and n.value.args
                ):
                    r = idx.resolve(f.mod, n.value.args[0], f)
                    if r in idx.funcs:
                        aliases[n.targets[0].id] = r
            dict_lits = [n for n in iter_own(f.node) if isinstance(n, ast.Dict)]
            for n in iter_own(f.node):
                if not isinstance(n, ast.Call):
                    continue
                callee = idx.callee(f.mod, n, f)
                target, args, kws = None, n.args, n.keywords
                if callee in idx.funcs:
                    target = callee
                elif callee == "functools.partial" and n.args:
                    r = idx.resolve(f.mod, n.args[0], f)
                    if r in idx.funcs:
                        target, args = r, n.args[1:]
                elif isinstance(n.func, ast.Name) and n.func.id in aliases:
                    target = aliases[n.func.id]
                if target is None:
                    continue
                tf = idx.funcs[target]
                for i, a in enumerate(args):
                    if isinstance(a, ast.Starred):
                        break
                    if i < len(tf.params):
                        b.setdefault((target, tf.params[i]), []).append((f, a))
                for k in kws:
                    if k.arg is not None:
                        b.setdefault((target, k.arg), []).append((f, k.value))
                    else:
                        for d in dict_lits:
                            for kk, vv in zip(d.keys, d.values):
                                if isinstance(kk, ast.Constant) and isinstance(kk.value, str):
                                    if kk.value in tf.params:
                                        b.setdefault((target, kk.value), []).append((f, vv))
        return b

    def param(self, f, name):
        """abstract value of parameter `name` of f = meet over all bindings reachable from exmod"""
        key = (f.qual, name)
        if key in self.param_cache:
            return self.param_cache[key]
        if key in self.in_progress:
            return INF
        if self.bindings is None:
            self.bindings = self._collect_bindings()
        self.in_progress.add(key)
        try:
            res = INF
            if f.qual == ENTRY:
                res = 0 if name == ROOT_PARAM else None
            binds = self.bindings.get(key, [])
            if not binds and f.qual != ENTRY:
                res = None
            if res is not None:
                for caller, node in binds:
                    v = self.eval(caller, node)
                    res = meet(res, v)
                    if res is None:
                        break
            if res == INF:
                res = None
            self.param_cache[key] = res
            return res
        finally:
            self.in_progress.discard(key)


def path_arg(index, wm, f, node, kind, target):
    """the AST of the path argument of a write site (or None)"""
    if not isinstance(node, ast.Call):
        return None
    if kind == "prim":
        if node.args:
            return node.args[0]
        for k in node.keywords:
            if k.arg in ("file", "name", "path"):
                return k.value
        return None
    if kind == "wrapper":
        wq = target.split("(")[0]
        tf = index.funcs.get(wq)
        if tf is None:
            return None
        # the wrapper's path parameter = first argument of its open()
        pname = None
        for n in iter_own(tf.node):
            if isinstance(n, ast.Call) and index.callee(tf.mod, n, tf) in OPEN_NAMES and n.args:
                if isinstance(n.args[0], ast.Name):
                    pname = n.args[0].id
        if pname is None:
            return None
        for k in node.keywords:
            if k.arg == pname:
                return k.value
        pos = tf.params.index(pname)
        if len(node.args) > pos:
            return node.args[pos]
    return None


def run(ctx, index, graph, effects, wm, reach):
    """C20.prov obligations"""
    from .c20 import site_list

    from ..walker import GuardWalker

    prov = Prov(index, graph, reach)
    n = 0
    for q in reach:
        f = index.funcs[q]
        if f.qual in wm.wrappers:
            continue
        sites = site_list(index, wm, f)
        if not sites:
            continue
        facts_at = {}

        def on_expr(nd, facts, _fa=facts_at):
            _fa[id(nd)] = facts

        GuardWalker(on_expr=on_expr).walk_function(f.node)
        for node, kind, target, call in sites:
            if kind not in ("prim", "wrapper"):
                continue
            p = path_arg(index, wm, f, node, kind, target)
            if p is None:
                ctx.need(False, "cannot find the path argument of {}".format(short(node)))
            n += 1
            d = prov.eval(f, p, frozenset(), facts_at.get(id(node)))
            if d is None or isinstance(d, Joiner):
                ok, msg = False, "path `{}` is not derived from exmod's output_directory".format(
                    short(p, 60)
                )
            elif d < 0:
                ok, msg = (
                    False,
                    "path `{}` may lie OUTSIDE the output directory (dirname of a path that may be "
                    "the output directory itself, e.g. a join whose optional components are "
                    "empty)".format(short(p, 60)),
                )
            else:
                ok, msg = True, ""
            ctx.ob("C20.prov", f, node, ok, msg)
    ctx.count("write_paths_traced", n)
    ctx.floor("write paths traced", n, 6)
    _absolute_components(ctx, index, prov, reach)


ABS_CALLS = frozenset(
    (
        "os.path.realpath os.path.abspath inspect.getfile inspect.getsourcefile "
        "cdd.shared.pure_utils.find_module_filepath cdd.shared.pkg_utils.relative_filename "
        "os.path.expanduser os.getcwd"
    ).split()
)
REL_CALLS = frozenset("os.path.basename os.path.relpath".split())
ABS_PARAM_NAMES = frozenset("module_root_dir module_filepath module_origin".split())


def _may_be_absolute(index, f, e, depth=0):
    """may path expression e be an absolute path (so that os.path.join would discard what precedes it)?"""
    from ..defuse import local_defs

    if depth > 5 or e is None:
        return None
    if isinstance(e, ast.Call):
        callee = index.callee(f.mod, e, f)
        if callee in REL_CALLS:
            return None
        if callee in ABS_CALLS:
            return "{}(...) may return an absolute path".format(callee.rpartition(".")[2])
        if callee == "os.path.join" and e.args:
            return _may_be_absolute(index, f, e.args[0], depth + 1)
        if callee == "os.path.dirname" and e.args:
            return _may_be_absolute(index, f, e.args[0], depth + 1)
        return None
    if isinstance(e, ast.Subscript):
        if isinstance(e.slice, ast.Slice) and e.slice.lower is not None:
            return None  # prefix sliced off
        return None
    if isinstance(e, ast.Attribute):
        if e.attr == "__file__":
            return "__file__ is an absolute path"
        return None
    if isinstance(e, ast.IfExp):
        return _may_be_absolute(index, f, e.body, depth + 1) or _may_be_absolute(index, f, e.orelse, depth + 1)
    if isinstance(e, ast.Name):
        g = f
        while g is not None:
            if e.id in g.params and e.id in ABS_PARAM_NAMES and not local_defs(g).get(e.id):
                return "parameter {} is the absolute location of the analysed source".format(e.id)
            defs = local_defs(g).get(e.id)
            if defs:
                for d in defs:
                    r = _may_be_absolute(index, g, d, depth + 1)
                    if r:
                        return r
                return None
            g = g.outer
    return None


def _absolute_components(ctx, index, prov, reach):
    """no later component of a join rooted at the output directory may be an absolute path"""
    n = 0
    for q in reach:
        f = index.funcs[q]
        for node in iter_own(f.node):
            if not (isinstance(node, ast.Call) and index.callee(f.mod, node, f) == "os.path.join" and len(node.args) > 1):
                continue
            first = node.args[0]
            if isinstance(first, ast.Starred):
                continue
            d = prov.eval(f, first)
            if d is None or isinstance(d, Joiner):
                continue
            n += 1
            bad = None
            for comp in node.args[1:]:
                c = comp.value if isinstance(comp, ast.Starred) else comp
                why = _may_be_absolute(index, f, c)
                if why:
                    bad = (comp, why)
                    break
            ctx.ob(
                "C20.prov",
                f,
                node,
                bad is None,
                ""
                if bad is None
                else "component `{}` of a path joined below the output directory may be absolute ({}): "
                "os.path.join then discards the output directory and the write lands elsewhere".format(
                    short(bad[0], 50), bad[1]
                ),
            )
    ctx.count("joins_below_output_directory", n)
