"""
C16 — generated OpenAPI document is closed and matches the requested CRUD
      (decided for cdd.compound.openapi.emit.openapi; openapi_bulk's closure is a data convention).

C16.refs   : every "$ref" the emitter writes is a constant template over `name`; the same template
             is the key of a `components[<section>][...] = ...` store that executes whenever the
             reference is written (guard implication through the `_request_body` flag); constant
             references are defined in openapi()'s initial literal.
C16.crud   : letter -> (HTTP method, collection | item) read from the arms of the OpenAPI emitter
             and, independently, from gen_routes -> bottle emitters -> route template decorators;
             both must equal {C: (post, collection), R: (get, item), D: (delete, item)}.
C16.params : the item path's placeholder variable is declared as a path parameter in the same dict.
C16.state  : no function of the OpenAPI pipeline memoises or writes module-level state (C10's rules on
             that slice): operation objects of one model / document are not shared with the next.
"""

import ast
import copy
import re

from ..core import iter_own, norm, short
from ..defuse import local_defs
from ..walker import GuardWalker

EXPECTED = {"C": ("post", "collection"), "R": ("get", "item"), "D": ("delete", "item")}


def _template(e):
    """(template text, {placeholder: argument text}) of `"...".format(k=v)` or a constant"""
    if isinstance(e, ast.Constant) and isinstance(e.value, str):
        return e.value, {}
    if (
        isinstance(e, ast.Call)
        and isinstance(e.func, ast.Attribute)
        and e.func.attr == "format"
        and isinstance(e.func.value, ast.Constant)
        and isinstance(e.func.value.value, str)
    ):
        return e.func.value.value, {k.arg: norm(k.value) for k in e.keywords if k.arg}
    return None, None


def _bulk(ctx, index):
    """structural parts of openapi_bulk (its closure for arbitrary names remains a data convention)"""
    f = index.func("cdd.compound.openapi.gen_openapi.openapi_bulk.construct_parameters_and_request_bodies")
    # (a) the path parameter declaration: a fresh dict per parameter, named by the very variable that fills
    #     the `{pk}` placeholder
    apps = [
        n
        for n in iter_own(f.node)
        if isinstance(n, ast.Call) and isinstance(n.func, ast.Attribute) and n.func.attr == "append" and norm(n.func.value) == "path_dict['parameters']"
    ]
    ctx.need(apps, "the path-parameter declaration vanished from openapi_bulk")
    for a in apps:
        x = a.args[0] if a.args else None
        # the per-parameter scope: the lambda applied to one path segment, or (loop spelling) the block of the
        # `if segment.startswith(":")` arm the declaration sits in
        lam = f.mod.parents.get(a)
        while lam is not None and not isinstance(lam, ast.Lambda):
            lam = f.mod.parents.get(lam)
        scope_nodes = list(ast.walk(lam.body)) if isinstance(lam, ast.Lambda) else []
        if not isinstance(lam, ast.Lambda):
            blk = f.mod.parents.get(a)
            while blk is not None and not isinstance(blk, (ast.If, ast.For)):
                blk = f.mod.parents.get(blk)
            if blk is not None:
                scope_nodes = [x for st in blk.body for x in ast.walk(st)]
        placeholder = [
            c
            for c in scope_nodes
            if isinstance(c, ast.Call) and isinstance(c.func, ast.Attribute) and c.func.attr == "format" and isinstance(c.func.value, ast.Constant) and isinstance(c.func.value.value, str) and re.match(r"^\{\{\{\w*\}\}\}$", c.func.value.value)
        ]
        # the value that fills the placeholder: the positional argument or the (only) keyword
        for c in placeholder:
            if not c.args and c.keywords:
                c.args = [c.keywords[0].value]
        pvar = lam.args.args[0].arg if isinstance(lam, ast.Lambda) and lam.args.args else (norm(placeholder[0].args[0]) if placeholder and placeholder[0].args else None)
        if isinstance(x, ast.Dict):
            d = {k.value: v for k, v in zip(x.keys, x.values) if isinstance(k, ast.Constant)}
            ok = (
                norm(d.get("name")) == pvar
                and isinstance(d.get("in"), ast.Constant)
                and d["in"].value == "path"
                and placeholder
                and norm(placeholder[0].args[0]) == pvar
            )
            ctx.ob("C16.params", f, a, bool(ok), "" if ok else "the declared parameter name is not the variable that fills the `{...}` placeholder of the path")
        else:
            shared = None
            if isinstance(x, ast.Call) and x.args and isinstance(x.args[0], ast.Name):
                nm = x.args[0].id
                inside = isinstance(lam, ast.Lambda) and any(isinstance(t, ast.Name) and t.id == nm and isinstance(t.ctx, ast.Store) for t in ast.walk(lam))
                if not inside:
                    shared = nm
            ctx.ob(
                "C16.params",
                f,
                a,
                False,
                (
                    "every path item appends the SAME object `{}` (bound once outside the per-parameter lambda and "
                    "updated in place): all declarations alias one dict and the last route's name wins, so the other "
                    "paths' template parameters are undeclared".format(shared)
                )
                if shared
                else "the path-parameter declaration is not a fresh dict literal per parameter",
            )
    # (b) request body name -> schema key is the inverse of the emitters' "{name}Body" template
    suffix = None
    eo = index.func("cdd.compound.openapi.utils.emit_openapi_utils.components_paths_from_name_model_route_id_crud")
    for n in iter_own(eo.node):
        if isinstance(n, ast.Constant) and isinstance(n.value, str):
            mt = re.match(r"^\{name\}(\w+)$", n.value)
            if mt:
                suffix = mt.group(1)
    ctx.need(suffix is not None, "cannot read the request-body name template from the emitter")
    # every expression that takes the emitters' suffix off a name, wherever it sits (argument of an applied lambda, an
    # explaining variable, ...): <N>.rpartition(S)[0] / <N>[:-len(S)] / <N>.removesuffix(S) / <N>[:-k] / <N>.rstrip(S)
    inv = []
    # ... in openapi_bulk's closure or in a package helper it hands the name to (`request_body_from_body_name(body_name)`)
    helpers = []
    for c_ in ast.walk(f.node):
        q_ = index.callee(f.mod, c_, f) if isinstance(c_, ast.Call) else None
        h_ = index.funcs.get(q_) if q_ else None
        if h_ is not None and h_ not in helpers and h_.mod.name.startswith("cdd.compound.openapi"):
            helpers.append(h_)
    for n in [x for g in [f] + helpers for x in iter_own(g.node)]:
        base = None
        if isinstance(n, ast.Subscript) and isinstance(n.value, ast.Call) and isinstance(n.value.func, ast.Attribute) and n.value.func.attr in ("rpartition", "partition", "split", "rsplit") and isinstance(n.value.func.value, ast.Name):
            if n.value.args and isinstance(n.value.args[0], ast.Constant) and n.value.args[0].value == suffix:
                base = n.value.func.value.id
        elif isinstance(n, ast.Call) and isinstance(n.func, ast.Attribute) and n.func.attr in ("removesuffix", "rstrip", "strip", "lstrip") and isinstance(n.func.value, ast.Name):
            if n.args and isinstance(n.args[0], ast.Constant) and isinstance(n.args[0].value, str) and set(n.args[0].value) & set(suffix) and len(n.args[0].value) > 1:
                base = n.func.value.id
        elif isinstance(n, ast.Subscript) and isinstance(n.value, ast.Name) and isinstance(n.slice, ast.Slice) and n.slice.lower is None and n.slice.upper is not None:
            up = norm(n.slice.upper)
            if up in ("-len({!r})".format(suffix), "-{}".format(len(suffix))):
                base = n.value.id
        if base is not None:
            inv.append((n, base))
    ctx.need(inv, "the body_name -> schema key derivation vanished from openapi_bulk")
    for e, base in inv:
        t = norm(e)
        forms = (
            "{}.rpartition({!r})[0]".format(base, suffix),
            "{}[:-len({!r})]".format(base, suffix),
            "{}.removesuffix({!r})".format(base, suffix),
            "{}[:-{}]".format(base, len(suffix)),
        )
        ok = t in forms
        why = ""
        if not ok:
            if isinstance(e, ast.Call) and isinstance(e.func, ast.Attribute) and e.func.attr in ("rstrip", "strip", "lstrip"):
                why = (
                    "`{}` strips a SET of characters, not the suffix {!r}: names ending in one of those letters lose "
                    "more than the suffix and the body's schema $ref dangles".format(t, suffix)
                )
            elif isinstance(e, ast.Subscript) and isinstance(e.value, ast.Call) and getattr(e.value.func, "attr", "") in ("partition", "split"):
                why = (
                    "`{}` cuts at the FIRST {!r}, the emitters append it as a suffix: a model whose own name contains {!r} "
                    "(`{}Metric`, `Message{}`) loses everything after it and the body's schema $ref dangles".format(t, suffix, suffix, suffix, suffix)
                )
            else:
                why = "`{}` is not the inverse of the emitters' template {!r}".format(t, "{name}" + suffix)
        ctx.ob("C16.refs", f, e, ok, why)


def run(ctx):
    """entry"""
    args = None
    d = None
    item_var = None
    k = None
    mt = None
    n = None
    ok = None
    t = None
    tpl = None
    v = None
    var = None
    index = ctx.index
    ctx.explanation = (
        "Def/use closure of `$ref` templates against `components[...]` stores with guard-fact implication; "
        "two independently derived CRUD tables (OpenAPI emitter arms vs gen_routes -> bottle -> route "
        "template decorator lines) compared with the specification; pairing of the item path placeholder "
        "with its path-parameter declaration."
    )
    ctx.assumptions += [
        "NOT decided: closure of openapi_bulk's output (component keys come from table names transformed by "
        ".replace('_tbl','').title() while references come out of route docstrings at run time); JSON "
        "serialisability of arbitrary models",
    ]
    f = index.func("cdd.compound.openapi.utils.emit_openapi_utils.components_paths_from_name_model_route_id_crud")
    op = index.func("cdd.compound.openapi.emit.openapi")
    facts_at = {}

    def on_expr(n, facts):
        facts_at[id(n)] = facts

    def on_stmt(s, facts):
        facts_at[id(s)] = facts

    GuardWalker(on_expr=on_expr, on_stmt=on_stmt).walk_function(f.node)
    def _sec_refs():
        nonlocal args, d, k, mt, n, ok, t, tpl, v
        # ---------------------------------------------------------------- refs
        uses = []
        # an explaining variable: bound exactly once, by a statement of the function's own top-level block (so it runs
        # before every later use, whatever the branch), to a constant template
        nbinds = {}
        for n in iter_own(f.node):
            if isinstance(n, (ast.Assign, ast.AnnAssign, ast.AugAssign, ast.NamedExpr, ast.For, ast.comprehension)):
                tg = n.targets if isinstance(n, ast.Assign) else [n.target]
                for t_ in tg:
                    for x in ast.walk(t_):
                        if isinstance(x, ast.Name):
                            nbinds[x.id] = nbinds.get(x.id, 0) + 1
        explaining = {}
        for st in f.node.body:
            if isinstance(st, (ast.Assign, ast.AnnAssign)) and st.value is not None:
                t_ = st.targets[0] if isinstance(st, ast.Assign) and len(st.targets) == 1 else getattr(st, "target", None)
                if isinstance(t_, ast.Name) and nbinds.get(t_.id) == 1 and t_.id not in f.params and _template(st.value)[0] is not None:
                    explaining[t_.id] = st
        for n in iter_own(f.node):
            if isinstance(n, ast.Dict):
                for k, v in zip(n.keys, n.values):
                    if isinstance(k, ast.Constant) and k.value == "$ref":
                        if isinstance(v, ast.Name) and v.id in explaining and explaining[v.id].lineno < v.lineno:
                            v = ast.copy_location(copy.deepcopy(explaining[v.id].value), v)
                            ast.fix_missing_locations(v)
                        uses.append((v, n))
        # a private helper that builds the reference object: `return {"$ref": TEMPLATE.format(k=<param>)}`; every call
        # of it in the emitter is a use, with the argument substituted for the parameter
        from ..core import RefGraph
        from ..region import Region

        reg = Region(index, RefGraph(index), f)
        for h in reg.funcs[1:]:
            rets = [x for x in h.node.body if isinstance(x, ast.Return)]
            if len(rets) != 1 or not isinstance(rets[0].value, ast.Dict):
                continue
            refv = next((v_ for k_, v_ in zip(rets[0].value.keys, rets[0].value.values) if isinstance(k_, ast.Constant) and k_.value == "$ref"), None)
            if refv is None:
                continue
            for caller, call in reg.callsites.get(h.qual, ()):
                if caller is not f:
                    continue
                bound = {p_: a for p_, a in zip(h.params, call.args)}
                bound.update({k_.arg: k_.value for k_ in call.keywords if k_.arg})

                class Sub(ast.NodeTransformer):
                    def visit_Name(self, x):
                        return copy.deepcopy(bound[x.id]) if x.id in bound else x

                val = Sub().visit(copy.deepcopy(refv))
                # "...{name}".format(name="ServerError") -> the constant it denotes
                tpl_, args_ = _template(val) if not isinstance(val, ast.Constant) else (None, None)
                if (
                    isinstance(val, ast.Call)
                    and isinstance(val.func, ast.Attribute)
                    and val.func.attr == "format"
                    and isinstance(val.func.value, ast.Constant)
                    and all(isinstance(k_.value, ast.Constant) for k_ in val.keywords)
                    and not val.args
                ):
                    try:
                        val = ast.Constant(value=val.func.value.value.format(**{k_.arg: k_.value.value for k_ in val.keywords}))
                    except (KeyError, IndexError, ValueError):
                        pass
                ast.copy_location(val, call)
                ast.fix_missing_locations(val)
                uses.append((val, call))
        ctx.count("ref_uses", len(uses))
        ctx.floor("$ref uses in the OpenAPI emitter", len(uses), 3)
        stores = []  # (section, key template, key args, stmt)
        for n in iter_own(f.node):
            if isinstance(n, ast.Assign) and isinstance(n.targets[0], ast.Subscript):
                t = n.targets[0]
                if isinstance(t.value, ast.Subscript) and norm(t.value.value) == "components" and isinstance(t.value.slice, ast.Constant):
                    key = t.slice
                    if isinstance(key, ast.Name):
                        tpl, args = "{" + key.id + "}", {key.id: key.id}
                    else:
                        tpl, args = _template(key)
                    stores.append((t.value.slice.value, tpl, args, n))
        # initial literal of openapi(): components = {"requestBodies": {}, "schemas": {"ServerError": ...}}
        initial = {}
        for n in iter_own(op.node):
            if isinstance(n, ast.Dict):
                for k, v in zip(n.keys, n.values):
                    if isinstance(k, ast.Constant) and k.value in ("schemas", "requestBodies") and isinstance(v, ast.Dict):
                        initial.setdefault(k.value, set()).update(x.value for x in v.keys if isinstance(x, ast.Constant))
        ctx.need("schemas" in initial and "requestBodies" in initial, "openapi()'s initial components literal vanished")
        flag_sets = {}  # flag name -> [facts at each `flag = True`]
        for n in iter_own(f.node):
            if isinstance(n, (ast.Assign, ast.AnnAssign)) and isinstance(n.value, ast.Constant) and n.value.value is True:
                t = n.targets[0] if isinstance(n, ast.Assign) else n.target
                if isinstance(t, ast.Name):
                    flag_sets.setdefault(t.id, []).append(facts_at.get(id(n)) or {})
        for v, d in uses:
            tpl, args = _template(v)
            if tpl is None:
                ctx.ob("C16.refs", f, v, False, "a $ref that is not a constant template cannot be shown to resolve")
                continue
            mt = re.match(r"^#/components/(\w+)/(.+)$", tpl)
            if not mt:
                ctx.ob("C16.refs", f, v, False, "$ref {!r} does not point into #/components/<section>/".format(tpl))
                continue
            section, keytpl = mt.group(1), mt.group(2)
            use_facts = facts_at.get(id(d)) or {}
            if "{" not in keytpl:
                ok = keytpl in initial.get(section, ())
                ctx.ob(
                    "C16.refs",
                    f,
                    v,
                    ok,
                    "" if ok else "{!r} is referenced but openapi()'s initial components literal does not define it".format(tpl),
                )
                continue
            cands = [s for s in stores if s[0] == section and s[1] == keytpl and s[2] == args]
            if not cands:
                ctx.ob(
                    "C16.refs",
                    f,
                    v,
                    False,
                    "no `components[{!r}][{}] = ...` store with the same key template: the reference dangles".format(section, keytpl),
                )
                continue
            # guard implication: every fact the definition needs is implied by the use's facts
            ok, why = False, ""
            for _sec, _tpl, _args, stmt in cands:
                need = {k: val for k, val in (facts_at.get(id(stmt)) or {}).items()}
                missing = []
                for k, val in need.items():
                    if use_facts.get(k) is val:
                        continue
                    # a boolean flag set to True under (a subset of) the use's facts
                    if val is True and k in flag_sets and any(all(use_facts.get(a) is b for a, b in fs.items()) for fs in flag_sets[k]):
                        continue
                    missing.append("{} is {}".format(k, val))
                if not missing:
                    ok = True
                    break
                why = "the definition only happens when {} — not implied by the condition under which the reference is written".format(missing)
            ctx.ob("C16.refs", f, v, ok, why)

    ctx.section(_sec_refs)

    def _sec_crud():
        nonlocal args, d, item_var, k, mt, n, ok, t, tpl, v, var
        # ---------------------------------------------------------------- crud
        table = {}
        item_var = None
        for n in iter_own(f.node):
            if isinstance(n, ast.If) and isinstance(n.test, ast.Compare) and isinstance(n.test.ops[0], ast.In) and isinstance(n.test.left, ast.Constant) and norm(n.test.comparators[0]) == "crud":
                letter = n.test.left.value
                for s in n.body:
                    if isinstance(s, ast.Assign) and isinstance(s.targets[0], ast.Subscript):
                        t = s.targets[0]
                        if norm(t.value) == "paths" and isinstance(s.value, ast.Dict):
                            for k in s.value.keys:
                                if isinstance(k, ast.Constant) and k.value in ("get", "post", "put", "patch", "delete"):
                                    table[letter] = (k.value, norm(t.slice))
                        elif isinstance(t.value, ast.Subscript) and norm(t.value.value) == "paths" and isinstance(t.slice, ast.Constant):
                            table[letter] = (t.slice.value, norm(t.value.slice))
        defs = local_defs(f)
        kinds = {}
        for var in {v for _m, v in table.values()}:
            if var in f.params:
                kinds[var] = "collection"
            else:
                d = defs.get(var, [])
                tpl, args = _template(d[0]) if d else (None, None)
                if tpl and re.match(r"^\{route\}/\{\{\{(\w+)\}\}\}$", tpl):
                    kinds[var] = "item"
                    item_var = (var, args, d[0])
                else:
                    kinds[var] = "?"
        emit_table = {k: (m, kinds.get(v, "?")) for k, (m, v) in table.items()}
        for letter, want in sorted(EXPECTED.items()):
            got = emit_table.get(letter)
            ctx.ob(
                "C16.crud",
                f,
                "OpenAPI emitter: {} -> {}".format(letter, got),
                got == want,
                "" if got == want else "requested {} must produce {} on the {} path, the emitter produces {}".format(letter, want[0].upper(), want[1], got),
                line=f.node.lineno,
            )
        # reachability of each arm: over every requested CRUD value (all orderings of all non-empty subsets of
        # C, R, D) the arm of letter L must execute exactly when L is requested. The path condition of an arm
        # (enclosing tests with polarity + its own test) mentions only `crud`; it is folded for each value.
        import itertools

        from ..fold import Unknown, fold

        arms = {}
        for n in iter_own(f.node):
            if isinstance(n, ast.If) and isinstance(n.test, ast.Compare) and isinstance(n.test.ops[0], ast.In) and isinstance(n.test.left, ast.Constant) and norm(n.test.comparators[0]) == "crud":
                if n.test.left.value in EXPECTED:
                    arms[n.test.left.value] = n
        domain = ["".join(p_) for r_ in (1, 2, 3) for p_ in itertools.permutations("CRD", r_)]
        ctx.count("crud_values_enumerated", len(domain))
        for letter, arm in sorted(arms.items()):
            conds = [(arm.test, True)]
            child, p_ = arm, f.mod.parents.get(arm)
            while p_ is not None and p_ is not f.node:
                if isinstance(p_, ast.If):
                    conds.append((p_.test, child in p_.body))
                elif isinstance(p_, (ast.For, ast.While, ast.Try, ast.With)):
                    ctx.need(False, "the arm for {} sits inside a {} the reachability rule does not model".format(letter, type(p_).__name__))
                child, p_ = p_, f.mod.parents.get(p_)
            bad = None
            for value in domain:
                try:
                    reached = all(bool(fold(t_, {"crud": value}, None)) is pol for t_, pol in conds)
                except Unknown as x:
                    ctx.need(False, "cannot fold the path condition of the {} arm for crud={!r}: {}".format(letter, value, x))
                if reached != (letter in value):
                    bad = (value, reached)
                    break
            ctx.ob(
                "C16.crud",
                f,
                "arm {} executes exactly when {} is requested ({})".format(letter, letter, " and ".join(("" if pol else "not ") + "(" + short(t_, 50) + ")" for t_, pol in reversed(conds))),
                bad is None,
                ""
                if bad is None
                else "with crud={!r} the {} operation is {}: the document does not match the requested CRUD".format(
                    bad[0], EXPECTED[letter][0].upper(), "emitted although not requested" if bad[1] else "not emitted although requested"
                ),
                line=arm.lineno,
            )
        extra = sorted(set(emit_table) - set(EXPECTED))
        ctx.ob("C16.crud", f, "no operation beyond C/R/D", not extra, "" if not extra else "unexpected letters handled: {}".format(extra), line=f.node.lineno)
        # the routes side
        gr = index.func("cdd.compound.openapi.gen_routes.gen_routes")
        letter_fn = {}
        for n in iter_own(gr.node):
            if isinstance(n, ast.If) and isinstance(n.test, ast.Compare) and isinstance(n.test.left, ast.Constant) and norm(n.test.comparators[0]) == "crud":
                for c in ast.walk(n):
                    if isinstance(c, ast.Call):
                        r = index.callee(gr.mod, c, gr)
                        if r and r.startswith("cdd.routes.emit.bottle."):
                            letter_fn[n.test.left.value] = r
            if isinstance(n, ast.Dict):
                for k, v in zip(n.keys, n.values):
                    if isinstance(k, ast.Constant) and k.value in "CRUD" and len(str(k.value)) == 1:
                        if isinstance(v, ast.Constant) and v.value is None:
                            letter_fn.setdefault(k.value, None)
                        else:
                            r = index.resolve(gr.mod, v, gr)
                            if r and r.startswith("cdd.routes.emit.bottle."):
                                letter_fn[k.value] = r
        ctx.need(set("CRD") <= set(letter_fn), "cannot read the letter -> route emitter table from gen_routes: {}".format(letter_fn))
        consts = index.module("cdd.routes.emit.bottle_constants_utils")
        for letter, want in sorted(EXPECTED.items()):
            fn = letter_fn.get(letter)
            if fn is None:
                ctx.ob("C16.crud", gr, "routes: {} -> None".format(letter), False, "no route emitter for {}".format(letter), line=gr.node.lineno)
                continue
            bf = index.func(fn)
            tables = {x.id for x in ast.walk(bf.node) if isinstance(x, ast.Name) and x.id.endswith("_route_variants")}
            ctx.need(len(tables) == 1, "cannot find the template table used by {}".format(fn))
            tname = tables.pop()
            ent = consts.top.get(tname)
            ctx.need(ent is not None and ent[0] == "var", "template table {} vanished".format(tname))
            decos = set()
            for c in ast.walk(ent[1][-1].value):
                if isinstance(c, ast.Constant) and isinstance(c.value, str):
                    for line in c.value.splitlines():
                        mt = re.match(r"^@\{app\}\.(\w+)\((.*)\)\s*$", line.strip())
                        if mt:
                            arg = mt.group(2)
                            kind = "item" if re.search(r"/:\{\w+\}", arg) else "collection"
                            decos.add((mt.group(1), kind))
            ctx.need(decos, "no decorator line found in {}".format(tname))
            ok = decos == {want}
            ctx.ob(
                "C16.crud",
                bf,
                "routes: {} -> {} -> {} -> {}".format(letter, bf.short, tname, sorted(decos)),
                ok,
                "" if ok else "requested {} must generate a {} route on the {} path; the template(s) declare {}".format(letter, want[0].upper(), want[1], sorted(decos)),
                line=bf.node.lineno,
            )
        if letter_fn.get("U", 1) is None:
            ctx.note("the CLI admits CRUD letter 'U' but gen_routes maps it to None (TypeError when requested): outside the property's {C,R,D} domain")
        ctx.section(_bulk, ctx, index)

    ctx.section(_sec_crud)

    def _sec_params():
        nonlocal args, d, k, n, v, var
        # -------------------------------------------------------------- params
        ctx.need(item_var is not None, "item path template vanished")
        var, args, tpl_node = item_var
        # the field inside the literal braces `{{{<field>}}}` of the item path template, whatever it is called
        mt_ = re.search(r"\{\{\{(\w*)\}\}\}", tpl_node.func.value.value) if isinstance(tpl_node, ast.Call) and isinstance(tpl_node.func, ast.Attribute) and isinstance(tpl_node.func.value, ast.Constant) else None
        id_expr = args.get(mt_.group(1)) if mt_ and mt_.group(1) in args else (norm(tpl_node.args[0]) if mt_ and isinstance(tpl_node, ast.Call) and tpl_node.args else args.get("id"))
        decl_ok = False
        for n in iter_own(f.node):
            if isinstance(n, ast.Assign) and norm(n.targets[0]) == "paths[{}]".format(var) and isinstance(n.value, ast.Dict):
                for k, v in zip(n.value.keys, n.value.values):
                    if isinstance(k, ast.Constant) and k.value == "parameters" and isinstance(v, ast.List):
                        for e in v.elts:
                            if isinstance(e, ast.Dict):
                                d = {kk.value: vv for kk, vv in zip(e.keys, e.values) if isinstance(kk, ast.Constant)}
                                if norm(d.get("name")) == id_expr and isinstance(d.get("in"), ast.Constant) and d["in"].value == "path":
                                    decl_ok = True
        ctx.ob(
            "C16.params",
            f,
            "item path {} declares path parameter {}".format(short(tpl_node, 50), id_expr),
            decl_ok,
            "" if decl_ok else "the item path's template parameter `{}` is not declared (name / in: path) in the same path item".format(id_expr),
            line=tpl_node.lineno,
        )

    ctx.section(_sec_params)


    def _sec_state():
        # --------------------------------------------------------------- state
        # "1..3 models per document": the operation / schema objects of one model (and of one document) must
        # not be shared with the next. Re-runs C10's module-state and memoisation rules on the functions
        # reachable from the two document builders and the route parser.
        from ..core import RefGraph
        from . import c10

        graph = RefGraph(index)
        roots = [
            "cdd.compound.openapi.gen_openapi.openapi_bulk",
            "cdd.compound.openapi.emit.openapi",
            "cdd.compound.openapi.parse.openapi",
            "cdd.routes.parse.bottle.bottle",
            "cdd.compound.openapi.gen_routes.gen_routes",
        ]
        for r in roots:
            index.func(r)
        reach = graph.reachable(roots)
        ctx.count("state_functions", len(reach))
        ctx.need(len(reach) >= 20, "the OpenAPI pipeline shrank to {} functions: call graph no longer resolves it".format(len(reach)))
        c10._modstate(ctx.view(lambda w: getattr(w, "qual", None) in reach, rule="C16.state", prefix="state_"))

    ctx.section(_sec_state)

    def _sec_serialisable():
        # ------------------------------------------------------- serialisable
        # "serialisable JSON": the schema objects are the parameter entries of the parsed models, passed through the
        # JSON-schema emitter. A producer on that path that adopts the keywords of a `Column(...)` call without a
        # whitelist also adopts their VALUES — AST nodes such as `server_default=Identity()` of an inferred primary
        # key — and json.dumps of the document fails. C14's producer analysis (origin of the returned entry, whitelist
        # test) on the functions reachable from openapi_bulk.
        from ..core import RefGraph
        from . import c14

        graph = RefGraph(index)
        ob = index.func("cdd.compound.openapi.gen_openapi.openapi_bulk")
        reach = graph.reachable([ob.qual])
        n_prod = 0
        for q in sorted(reach):
            f = index.funcs.get(q)
            if f is None or f.mod.is_test:
                continue
            for r in iter_own(f.node):
                if not (isinstance(r, ast.Return) and isinstance(r.value, ast.Tuple) and len(r.value.elts) == 2 and isinstance(r.value.elts[1], ast.Name)):
                    continue
                x = r.value.elts[1].id
                origin = c14._origin(index, f, x)
                if origin is None or "dict(" not in origin:
                    continue
                n_prod += 1
                closed = c14._whitelisted(f, x)
                ctx.ob(
                    "C16.serialisable",
                    f,
                    "the column entry that becomes a schema property holds JSON values only",
                    closed,
                    ""
                    if closed
                    else "the entry `{}` is {} and reaches the schema object unfiltered: a keyword whose value is an AST node "
                    "(`server_default=Identity()` of an inferred primary key) ends up in the document, and json.dumps raises "
                    "TypeError: Object of type Call is not JSON serializable".format(x, origin),
                    line=r.lineno,
                )
        ctx.count("column_entry_producers_reaching_the_document", n_prod)
        ctx.need(n_prod >= 1, "no column-entry producer is reachable from openapi_bulk any more")

    ctx.section(_sec_serialisable)

    def _sec_keys():
        # --------------------------------------------------------------- keys
        # Routes refer to a model by the name of its CLASS (`#/components/schemas/UserProfile`). openapi_bulk must
        # file the schema of a class model under that very name: a key computed from the parsed table name with a
        # case-changing string method (`"user_profile".title()` == "User_Profile", `"UserProfile".title()` ==
        # "Userprofile") agrees with it for single-word names only, and every $ref of a multi-word model dangles.
        ob = index.func("cdd.compound.openapi.gen_openapi.openapi_bulk")
        CASE = ("title", "capitalize", "lower", "upper", "swapcase", "casefold")
        schemas = None
        for n in iter_own(ob.node):
            if isinstance(n, ast.Dict):
                for k_, v_ in zip(n.keys, n.values):
                    if isinstance(k_, ast.Constant) and k_.value == "schemas":
                        schemas = v_
        if schemas is None:
            ctx.note("C16.keys: no `\"schemas\": ...` entry in openapi_bulk's document literal (restructured); not decided")
            ctx.count("schema_key_arms", 0)
            return
        par = ob.mod.parents
        n_arms = 0
        for c in ast.walk(schemas):
            if not (isinstance(c, ast.Call) and (index.callee(ob.mod, c, ob) or "").endswith("json_schema.emit.json_schema")):
                continue
            tup = par.get(c)
            if not (isinstance(tup, ast.Tuple) and len(tup.elts) == 2 and tup.elts[1] is c):
                continue
            key = tup.elts[0]
            lam = par.get(tup)
            if not isinstance(lam, ast.Lambda) or len(lam.args.args) != 1:
                continue
            p_ = lam.args.args[0].arg
            mp = par.get(lam)
            if not (isinstance(mp, ast.Call) and norm(mp.func) == "map" and len(mp.args) == 2 and mp.args[0] is lam):
                continue
            src = mp.args[1]
            # the element producer: map(lambda node: <arms>, ...)
            if not (isinstance(src, ast.Call) and norm(src.func) == "map" and src.args and isinstance(src.args[0], ast.Lambda)):
                continue
            inner = src.args[0]

            def arms(e, table_only=False):
                if isinstance(e, ast.IfExp):
                    t = e.test
                    pos = None
                    if isinstance(t, ast.Call) and norm(t.func) == "isinstance" and len(t.args) == 2:
                        names = {norm(x).rpartition(".")[2] for x in (t.args[1].elts if isinstance(t.args[1], ast.Tuple) else [t.args[1]])}
                        pos = "ClassDef" not in names
                    yield from arms(e.body, table_only or bool(pos))
                    yield from arms(e.orelse, table_only)
                else:
                    yield table_only, e

            for table_only, arm in arms(inner.body):
                n_arms += 1
                # the key of this arm: <param>[0] selects the first element the arm builds; anything else is computed
                # from the arm's value by the key expression itself
                arm_key = key
                if isinstance(key, ast.Subscript) and isinstance(key.value, ast.Name) and key.value.id == p_ and isinstance(key.slice, ast.Constant) and key.slice.value == 0:
                    t_ = arm
                    if isinstance(t_, ast.Call) and isinstance(t_.func, ast.Lambda):
                        t_ = t_.func.body
                    if isinstance(t_, ast.Tuple) and t_.elts:
                        arm_key = t_.elts[0]
                    else:
                        ctx.note("C16.keys: cannot see which key the arm `{}` builds; not decided".format(short(arm, 50)))
                        continue
                bad = [x for x in ast.walk(arm_key) if isinstance(x, ast.Call) and isinstance(x.func, ast.Attribute) and x.func.attr in CASE]
                # any other transformation of a class's name (a helper such as pascal_to_upper_camelcase, .replace(...))
                # equally departs from what the routes write; str() / get_value() are identities here
                other = [
                    x
                    for x in ast.walk(arm_key)
                    if isinstance(x, ast.Call) and x not in bad and norm(x.func).rpartition(".")[2] not in ("str", "get_value")
                ]
                if not table_only and not bad and other:
                    bad = other
                ok = table_only or not bad
                ctx.ob(
                    "C16.keys",
                    ob,
                    "the schema of a {} model is filed under {}".format("Table" if table_only else "class", "a name derived from the table" if table_only else "the class's own name, unchanged"),
                    ok,
                    ""
                    if ok
                    else "the schema key of a class model is `{}`: `{}` rewrites the name (\"UserProfile\" -> \"Userprofile\", "
                    "\"user_profile\" -> \"User_Profile\", \"Order_Item\" -> \"OrderItem\"), while the routes refer to "
                    "`#/components/schemas/<ClassName>`: every $ref of a multi-word model dangles".format(short(arm_key, 60), short(bad[0].func, 40)),
                    line=getattr(arm_key, "lineno", ob.node.lineno),
                )
        ctx.count("schema_key_arms", n_arms)

    ctx.section(_sec_keys)

    def _sec_append():
        # ------------------------------------------------------------- append
        # "1..3 models per document", routes upserted one model (or one CRUD letter) after the other: upsert_routes
        # creates the routes file with rendered source (`to_code` emits no final newline) and later APPENDS further
        # routes to it. Unless the created text ends with a line break or the appended text starts with one, the first
        # appended decorator is glued to the last statement of the file (`response.status = 204@app.post(...)` still
        # parses — as a matrix multiplication — and the route silently loses its decorator).
        up = index.func("cdd.compound.openapi.gen_routes.upsert_routes")
        from ..region import Region
        from ..core import RefGraph

        def starts_with_newline(e):
            if isinstance(e, ast.Constant) and isinstance(e.value, str):
                return e.value.startswith(("\n", "\r"))
            if isinstance(e, ast.BinOp) and isinstance(e.op, ast.Add):
                return starts_with_newline(e.left)
            if isinstance(e, ast.Call) and isinstance(e.func, ast.Attribute) and e.func.attr == "format" and isinstance(e.func.value, ast.Constant):
                return str(e.func.value.value).startswith(("\n", "\r"))
            return False

        def ends_with_newline(e):
            if isinstance(e, ast.Constant) and isinstance(e.value, str):
                return e.value.endswith("\n")
            if isinstance(e, ast.BinOp) and isinstance(e.op, ast.Add):
                return ends_with_newline(e.right)
            if isinstance(e, ast.Call) and isinstance(e.func, ast.Attribute) and e.func.attr == "format" and isinstance(e.func.value, ast.Constant):
                return str(e.func.value.value).endswith("\n")
            return False

        created_ok, appended_ok, n_create, n_append = True, True, 0, 0
        for g_, w in Region(index, RefGraph(index), up).nodes():
            if not isinstance(w, ast.With):
                continue
            for it in w.items:
                c = it.context_expr
                if not (isinstance(c, ast.Call) and norm(c.func) == "open" and it.optional_vars is not None and isinstance(it.optional_vars, ast.Name)):
                    continue
                mode = c.args[1] if len(c.args) > 1 else next((k.value for k in c.keywords if k.arg == "mode"), None)
                mode = mode.value if isinstance(mode, ast.Constant) else "r"
                h = it.optional_vars.id
                writes = [x for st in w.body for x in ast.walk(st) if isinstance(x, ast.Call) and isinstance(x.func, ast.Attribute) and x.func.attr == "write" and norm(x.func.value) == h and x.args]
                if not writes:
                    continue
                if "a" in mode:
                    n_append += 1
                    appended_ok = appended_ok and starts_with_newline(writes[0].args[0])
                elif "w" in mode:
                    n_create += 1
                    created_ok = created_ok and ends_with_newline(writes[-1].args[0])
        ctx.count("routes_file_creations", n_create)
        ctx.count("routes_file_appends", n_append)
        if n_append:
            ok = appended_ok or (n_create > 0 and created_ok)
            ctx.ob(
                "C16.append",
                up,
                "routes appended to an existing routes file start on a line of their own",
                ok,
                ""
                if ok
                else "upsert_routes writes rendered source without a final newline and later appends more routes without a "
                "leading one: the first appended `@app.post(...)` is glued to the last statement of the file "
                "(`response.status = 204@app.post(...)`), so the routes of a second model — or of a later CRUD letter — "
                "lose their decorator and the document has no operation for them",
                line=up.node.lineno,
            )

    ctx.section(_sec_append)

    def _sec_exists():
        # ---------------------------------------------------------------- exists
        # upsert_routes appends the handlers that are NOT in the routes file yet. "Already there" is decided by
        # reading the path literal of an existing decorator (`call.args[0]`): it must be compared for EQUALITY with the
        # path built from `route` — a prefix / substring / suffix test also accepts the handler of another resource
        # whose path merely begins the same way (`/api/itemtag` for `/api/item`), the later model's handlers are then
        # not appended and the document lacks operations that were requested.
        up0 = index.func("cdd.compound.openapi.gen_routes.upsert_routes")
        n_reads = 0
        # ... in upsert_routes itself or in a function nested in it (`def is_requested_route(call)`)
        for up_, nd in [(g_, x_) for g_ in [up0] + [h_ for h_ in index.funcs.values() if h_.outer is up0] for x_ in iter_own(g_.node)]:
            if not (isinstance(nd, ast.Subscript) and norm(nd).endswith(".args[0]") and isinstance(nd.value, ast.Attribute) and nd.value.attr == "args"):
                continue
            if isinstance(up_.mod.parents.get(nd), ast.Attribute) and up_.mod.parents.get(nd).attr in ("lineno", "col_offset"):
                continue
            n_reads += 1
            # climb through value-preserving wrappers (get_value(...), str(...)) to the expression that consumes the text
            cur, par = nd, up_.mod.parents.get(nd)
            while isinstance(par, ast.Call) and cur in par.args and norm(par.func) in ("get_value", "str", "cdd.shared.ast_utils.get_value"):
                cur, par = par, up_.mod.parents.get(par)
            uses_ = [(cur, par)]
            if isinstance(par, (ast.Assign, ast.AnnAssign, ast.NamedExpr)) and par.value is cur:
                # an explaining variable: every read of it is a consumer
                t_ = par.targets[0] if isinstance(par, ast.Assign) else par.target
                if isinstance(t_, ast.Name):
                    uses_ = [(x, up_.mod.parents.get(x)) for x in iter_own(up_.node) if isinstance(x, ast.Name) and x.id == t_.id and isinstance(x.ctx, ast.Load)]
            for cur, par in uses_:
                how = None
                if isinstance(par, ast.Compare) and len(par.ops) == 1 and isinstance(par.ops[0], ast.Eq):
                    other = par.comparators[0] if par.left is cur else par.left
                    from ..defuse import expand_aliases as _expand

                    how = "route" in {x.id for o_ in (other, _expand(up_, other)) for x in ast.walk(o_) if isinstance(x, ast.Name)} or None
                    why_ = "" if how else "the existing handler's path is compared with `{}`, which does not depend on `route`".format(short(other, 60))
                elif isinstance(par, ast.Compare) and len(par.ops) == 1 and isinstance(par.ops[0], ast.In) and par.left is cur and isinstance(par.comparators[0], (ast.Tuple, ast.Set, ast.List)):
                    how = True
                    why_ = ""
                else:
                    why_ = (
                        "the existing handler's path is consumed by `{}` instead of an equality with the path built from `route`: a "
                        "prefix / substring test also accepts another resource's handler (`/api/itemtag` for `/api/item`), whose "
                        "presence then suppresses the handlers that were to be added".format(short(par, 70))
                    )
                ctx.ob("C16.exists", up_, cur, bool(how), why_, line=nd.lineno)
        ctx.floor("reads of an existing handler's path in upsert_routes", n_reads, 1)

    ctx.section(_sec_exists)

    def _sec_cli():
        # ---------------------------------------------------------------- cli
        # "for all non-empty CRUD subsets of {C,R,D}": every such subset must be requestable — the `--crud` choices of
        # gen_routes (a finite tuple, folded) contain all seven, spelled in the canonical letter order the emitters test
        from ..dispatch import cli_choices
        from ..fold import ModuleEnv

        ch = cli_choices(index, ModuleEnv(index)).get(("gen_routes", "--crud"))
        ctx.need(ch and not str(ch[0]).startswith("<unfoldable"), "cannot fold the --crud choices of gen_routes")
        wanted = ("C", "R", "D", "CR", "CD", "RD", "CRD")
        missing = [w for w in wanted if w not in ch]
        dup = sorted({c_ for c_ in ch if list(ch).count(c_) > 1})
        ok = not missing
        ctx.ob(
            "C16.crud",
            index.func("cdd.__main__._build_parser"),
            "every non-empty subset of {C, R, D} is a --crud choice",
            ok,
            ""
            if ok
            else "`gen_routes --crud {}` is rejected by the CLI (invalid choice): the choices are {}{} — that subset of operations "
            "cannot be requested".format(missing[0], tuple(ch), " (with {} listed twice)".format(dup) if dup else ""),
            line=index.func("cdd.__main__._build_parser").node.lineno,
        )

    ctx.section(_sec_cli)

    def _sec_fnkey():
        # ------------------------------------------------------------------ fnkey
        # "The operations present are exactly those requested": every handler the route templates generate is called by
        # its CRUD verb only (`def create():`, `def read({id}):`, `def destroy({id}):` — no model in the name), so one
        # routes file holds as many `create`s as it has models and apps. A mapping keyed by the handler's NAME therefore
        # keeps one handler per verb: the operations of every other model (or of the other app sharing the file) are
        # read off the wrong function or vanish. The readers of a routes module must go by the node, not by its name.
        import re as _re

        names = set()
        for var in ("create_route_variants", "read_route_variants", "delete_route_variants"):
            mv = index.module_var("cdd.routes.emit.bottle_constants_utils." + var)
            ctx.need(mv is not None, "the route template table {} vanished".format(var))
            tpls = [c.value for st in mv[1] for c in ast.walk(st) if isinstance(c, ast.Constant) and isinstance(c.value, str) and "def " in c.value]
            ctx.need(tpls, "no route template text in {}".format(var))
            for tpl in tpls:
                names.update(_re.findall(r"^def\s+([^\s(]+)\(", tpl, _re.M))
        ctx.need(names, "no handler definition found in the route templates")
        ctx.count("handler_names_in_templates", len(names))
        if any("{" in n_ for n_ in names):
            ctx.note("C16.fnkey: handler names are parametrised by the templates ({}); names may be unique, rule not applicable".format(sorted(names)))
            return

        def findings(fn_node, resolve):
            out = []
            for n in ast.walk(fn_node):
                comps = []
                if isinstance(n, ast.DictComp):
                    comps.append((n.key, n.generators))
                if isinstance(n, ast.Call) and norm(n.func) in ("dict", "OrderedDict") and n.args and isinstance(n.args[0], (ast.GeneratorExp, ast.ListComp)) and isinstance(n.args[0].elt, ast.Tuple) and len(n.args[0].elt.elts) == 2:
                    comps.append((n.args[0].elt.elts[0], n.args[0].generators))
                for key, gens in comps:
                    for g_ in gens:
                        it = g_.iter
                        # (a) `{node.name: ... for node in <module>.body ...}`
                        if isinstance(key, ast.Attribute) and key.attr == "name" and isinstance(key.value, ast.Name) and isinstance(g_.target, ast.Name) and g_.target.id == key.value.id and any(isinstance(x, ast.Attribute) and x.attr == "body" for x in ast.walk(it)):
                            out.append((n, "the name of a top-level function of the routes module"))
                        # (b) `{func_name: ... for func_name, app, path, method in get_route_meta(mod)}`
                        if isinstance(key, ast.Name) and isinstance(g_.target, ast.Tuple) and g_.target.elts and isinstance(g_.target.elts[0], ast.Name) and g_.target.elts[0].id == key.id:
                            if any(isinstance(x, ast.Call) and resolve(x) == "cdd.routes.parse.bottle_utils.get_route_meta" for x in ast.walk(it)):
                                out.append((n, "the handler name get_route_meta reports"))
            return out

        probe = ast.parse("def f(mod):\n    fs = {node.name: node for node in mod.body if isinstance(node, FunctionDef)}\n    return fs\n").body[0]
        ctx.need(len(findings(probe, lambda c: None)) == 1, "the name-keyed-mapping recogniser disagrees with its own example")
        n_f = 0
        for g in index.nontest_funcs():
            if not (g.mod.name.startswith("cdd.compound.openapi") or g.mod.name.startswith("cdd.routes.parse")) or g.outer is not None:
                continue
            n_f += 1
            for n, what in findings(g.node, lambda c, g=g: index.callee(g.mod, c, g)):
                ctx.ob(
                    "C16.fnkey",
                    g,
                    n,
                    False,
                    "a mapping keyed by {}: the route templates call every handler by its CRUD verb only ({}), so a routes file with two "
                    "models (or two apps) has several functions of each name and the mapping keeps one of them — the other model's "
                    "operations are read off the wrong handler or are missing from the document".format(what, ", ".join(sorted(names))),
                )
        ctx.count("functions_scanned_for_name_keyed_route_mappings", n_f)
        ctx.floor("readers of routes modules scanned", n_f, 5)

    ctx.section(_sec_fnkey)

    def _sec_group():
        # -------------------------------------------------------------- group
        # openapi_bulk merges the handlers of one path with itertools.groupby and keeps the groups in a dict. groupby
        # only merges NEIGHBOURS: routes upserted model after model (or letter after letter) are not adjacent per path,
        # a path then yields two groups and dict() keeps the last — operations vanish from the document. The grouped
        # iterable must be sorted by the very key it is grouped by.
        from ..core import RefGraph
        from ..defuse import expand_aliases
        from ..region import Region

        ob = index.func("cdd.compound.openapi.gen_openapi.openapi_bulk")
        n_g = 0
        for g_, n in Region(index, RefGraph(index), ob, allow_passed=True).nodes():
            if not (isinstance(n, ast.Call) and norm(n.func).rpartition(".")[2] == "groupby" and n.args):
                continue
            n_g += 1
            key = next((k.value for k in n.keywords if k.arg == "key"), n.args[1] if len(n.args) > 1 else None)
            src = expand_aliases(g_, n.args[0])
            skey = None
            if isinstance(src, ast.Call) and norm(src.func) == "sorted":
                skey = next((k.value for k in src.keywords if k.arg == "key"), None)
            ok = isinstance(src, ast.Call) and norm(src.func) == "sorted" and (norm(skey) if skey is not None else None) == (norm(key) if key is not None else None)
            ctx.ob(
                "C16.crud",
                g_,
                "handlers are grouped per path over an iterable sorted by that path",
                ok,
                ""
                if ok
                else "`{}` groups an iterable that is not sorted by the grouping key: groupby merges neighbours only, so when the "
                "handlers of one path are not adjacent in the routes file(s) (a second model, or a CRUD letter added later) the "
                "path comes out twice and dict() keeps the last group — an operation that was requested is missing".format(short(n, 60)),
                line=n.lineno,
            )
        ctx.count("groupby_calls_in_openapi_bulk", n_g)

    ctx.section(_sec_group)
