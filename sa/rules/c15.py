"""
C15 — docstring prose outside the parameter section is preserved (necessary part).

C15.tokens : the token sets _get_token_start_idx matches by prefix hold only marked tokens (':x' / 'X:'), bare-word
             numpydoc titles are matched as a whole line with an underline test.
C15.tile : in parse_docstring_into_header_args_footer the three returned parts are untransformed
           slices of the docstring sharing their boundaries: header = S[:a], args = S[a:b],
           footer = S[b:], with a, b computed by the token-index functions on the very string that is
           sliced. Anything applied to a part between the slice and the `return` (indent, strip,
           replace, re-slicing) breaks `header + args + footer == original`.
"""

import ast

from ..core import iter_own, norm, short
from ..defuse import local_defs

TRANSFORMS = frozenset(
    "indent dedent strip lstrip rstrip replace format join expandtabs title lower upper fill wrap deindent reindent".split()
)


def _tokens(ctx, index):
    """
    C15.tokens. _get_token_start_idx decides where the prose ends by testing every line against token sets.
    A set that is matched by PREFIX (`line.startswith`) must contain only marked tokens — a field marker that
    starts with ':' or a section title that ends with ':' — never a bare word: a header sentence whose first
    word is `Returns` / `Parameters` / `Raises` is otherwise taken for a section start and the prose from there
    on is moved into the parameter part and dropped by every conversion. A bare-word title may only be matched
    as a WHOLE line (`line in S`) whose next line is an underline. The sets are folded from the module.
    """
    from ..fold import ModuleEnv, Unknown

    env = ModuleEnv(index)
    f = index.func("cdd.shared.docstring_utils._get_token_start_idx")
    prefix_sets, whole_sets = [], []
    for n in iter_own(f.node):
        # any(filter(line.startswith, S)) / any(map(line.startswith, S)) / any(line.startswith(t) for t in S) / line.startswith(tuple(S))
        if isinstance(n, ast.Call) and norm(n.func) in ("filter", "map") and len(n.args) == 2 and isinstance(n.args[0], ast.Attribute) and n.args[0].attr == "startswith":
            prefix_sets.append(n.args[1])
        elif isinstance(n, ast.GeneratorExp) and isinstance(n.elt, ast.Call) and isinstance(n.elt.func, ast.Attribute) and n.elt.func.attr == "startswith" and len(n.generators) == 1:
            prefix_sets.append(n.generators[0].iter)
        elif isinstance(n, ast.Call) and isinstance(n.func, ast.Attribute) and n.func.attr == "startswith" and n.args and isinstance(n.args[0], ast.Call) and norm(n.args[0].func) == "tuple":
            prefix_sets.append(n.args[0].args[0])
        elif isinstance(n, ast.Compare) and len(n.ops) == 1 and isinstance(n.ops[0], ast.In) and isinstance(n.comparators[0], (ast.Name, ast.Attribute)):
            whole_sets.append(n.comparators[0])
    ctx.need(prefix_sets, "_get_token_start_idx no longer matches lines against a token set by prefix")
    n_tok = 0
    for e in prefix_sets:
        try:
            toks = env.in_module(f.mod, e)
        except Unknown as x:
            ctx.need(False, "cannot fold the token set `{}` matched by prefix: {}".format(norm(e), x))
        for t in sorted(toks):
            n_tok += 1
            marked = isinstance(t, str) and (t.startswith(":") or t.rstrip().endswith(":"))
            ctx.ob(
                "C15.tokens",
                f,
                "prefix-matched token {!r}".format(t),
                marked,
                ""
                if marked
                else "a line that merely STARTS WITH the bare word {!r} is taken for the start of the parameter section: a header "
                "sentence such as `{} the ...` and all prose after it is lost in every conversion".format(t, t),
                line=e.lineno,
            )
    # bare-word titles matched as a whole line must be confirmed by an underline test in the same arm
    for e in whole_sets:
        try:
            toks = env.in_module(f.mod, e)
        except Unknown:
            continue
        if not isinstance(toks, (set, frozenset, list, tuple)) or not all(isinstance(t, str) for t in toks):
            continue
        bare = [t for t in toks if not (t.startswith(":") or t.rstrip().endswith(":"))]
        if not bare:
            continue
        arm = f.mod.parents.get(f.mod.parents.get(e))
        while arm is not None and not isinstance(arm, ast.If):
            arm = f.mod.parents.get(arm)
        underline = arm is not None and any(
            isinstance(c, ast.Compare) and "count('-')" in norm(c) for b in arm.body for c in ast.walk(b)
        )
        ctx.ob(
            "C15.tokens",
            f,
            "whole-line titles {} need an underline".format(sorted(bare)),
            underline,
            "" if underline else "a line equal to one of {} starts a section without its underline being checked".format(sorted(bare)),
            line=e.lineno,
        )
    ctx.count("prefix_matched_tokens", n_tok)
    ctx.floor("tokens matched by prefix", n_tok, 6)


def run(ctx):
    """entry"""
    index = ctx.index
    ctx.section(_tokens, ctx, index)
    ctx.section(_position, ctx, index)
    ctx.section(_cut, ctx, index)
    from . import c10 as _c10_state

    ctx.section(_c10_state.state_slice, ctx, 'C15.state', ['cdd.shared.docstring_utils.parse_docstring_into_header_args_footer', 'cdd.docstring.emit.docstring', 'cdd.docstring.parse.docstring'], 5)
    ctx.explanation = (
        "Def-use shape of the three values returned by parse_docstring_into_header_args_footer: each must be "
        "a plain slice of the input string at boundaries produced by _get_token_start_idx / "
        "_get_token_last_idx of the same string; every other definition of a returned part (a call that "
        "transforms text) is reported."
    )
    ctx.assumptions += [
        "NOT decided: that the token indices land on the right lines for every combination of blank lines and "
        "indentation; that no prose line is absorbed into a type or default (value level)",
    ]
    f = index.func("cdd.shared.docstring_utils.parse_docstring_into_header_args_footer")
    rets = [n for n in iter_own(f.node) if isinstance(n, ast.Return) and isinstance(n.value, ast.Tuple) and len(n.value.elts) == 3]
    ctx.need(len(rets) >= 1, "parse_docstring_into_header_args_footer no longer returns a 3-tuple")
    final = rets[-1]
    names = [norm(e) for e in final.value.elts]
    ctx.need(all(isinstance(e, ast.Name) for e in final.value.elts), "the returned parts are no longer plain names: {}".format(names))
    defs = local_defs(f)
    header, middle, footer = names
    # boundaries come from the token-index functions applied to the sliced string
    bounds = {}
    for n in iter_own(f.node):
        if isinstance(n, ast.Assign) and isinstance(n.value, ast.Call) and isinstance(n.targets[0], ast.Name):
            callee = index.callee(f.mod, n.value, f) or ""
            if callee.endswith("_get_token_start_idx") or callee.endswith("_get_token_last_idx"):
                bounds[n.targets[0].id] = (callee.rpartition(".")[2], norm(n.value.args[0]) if n.value.args else None)
        # a, b = helper(S) where helper returns (_get_token_start_idx(p), _get_token_last_idx(p)) for its parameter p
        # (possibly through locals, possibly after an early `return None, None`)
        elif isinstance(n, ast.Assign) and isinstance(n.value, ast.Call) and isinstance(n.targets[0], ast.Tuple) and all(isinstance(t, ast.Name) for t in n.targets[0].elts):
            h = index.funcs.get(index.callee(f.mod, n.value, f) or "")
            if h is not None and h.mod is f.mod and len(n.value.args) == 1 and len(h.params) == 1:
                from ..defuse import expand_aliases

                for r in iter_own(h.node):
                    if isinstance(r, ast.Return) and isinstance(r.value, ast.Tuple) and len(r.value.elts) == len(n.targets[0].elts):
                        for t, e in zip(n.targets[0].elts, r.value.elts):
                            e = expand_aliases(h, e)
                            if isinstance(e, ast.Call) and e.args and norm(e.args[0]) == h.params[0]:
                                callee = index.callee(h.mod, e, h) or ""
                                if callee.endswith("_get_token_start_idx") or callee.endswith("_get_token_last_idx"):
                                    bounds[t.id] = (callee.rpartition(".")[2], norm(n.value.args[0]))
    ctx.need(len(bounds) >= 4, "the four boundary indices vanished: {}".format(bounds))

    def slice_of(e):
        """(string name, lower text, upper text) of a plain slice expression (through `x if c else None`)"""
        if isinstance(e, ast.IfExp):
            a, b = slice_of(e.body), slice_of(e.orelse)
            return a or b
        if isinstance(e, ast.Subscript) and isinstance(e.value, ast.Name):
            s = e.slice
            if isinstance(s, ast.Slice):
                return (e.value.id, norm(s.lower) if s.lower is not None else None, norm(s.upper) if s.upper is not None else None)
            if isinstance(s, ast.Call) and norm(s.func) == "slice" and len(s.args) == 2:
                def nm(x):
                    names = [y.id for y in ast.walk(x) if isinstance(y, ast.Name)]
                    return names[0] if names else None

                return (e.value.id, nm(s.args[0]), nm(s.args[1]))
        return None

    def check_part(name, which):
        ds = [d for d in defs.get(name, []) if not (isinstance(d, ast.Constant) and d.value is None)]
        ctx.need(ds, "no definition of the returned part `{}`".format(name))
        for d in ds:
            from .c02 import elementwise

            ew = elementwise(d) if isinstance(d, (ast.Call, ast.GeneratorExp, ast.ListComp)) else None
            if ew is not None and isinstance(ew[0], ast.Tuple) and not ew[3]:
                # the (current, original) pair is built by applying one slicing expression to two (string, start, end)
                # triples — map(lambda t: t[0][slice(..)], triples) or the same as a generator / comprehension
                body = ew[2]
                ok = isinstance(body, ast.Subscript) and isinstance(body.slice, ast.Call) and norm(body.slice.func) == "slice"
                trip = None
                if ok:
                    for t in ew[0].elts:
                        if isinstance(t, ast.Tuple) and len(t.elts) == 3 and "current" in norm(t.elts[0]):
                            trip = [norm(x) for x in t.elts]
                good = ok and trip is not None and bounds.get(trip[1], (None, None))[1] == trip[0] and bounds.get(trip[2], (None, None))[1] == trip[0]
                ctx.ob(
                    "C15.tile",
                    f,
                    "{} = {}[{}:{}]".format(name, *(trip or ["?", "?", "?"])),
                    bool(good),
                    "" if good else "the {} part is not a plain slice of the docstring at its own token boundaries".format(which),
                    line=d.lineno,
                )
                continue
            sl = slice_of(d)
            if sl is None and isinstance(d, ast.Call):
                # a private slicing helper: `return <param>[slice(a, b)]` / `<param>[a:b]` with the arguments bound at the call
                h = index.funcs.get(index.callee(f.mod, d, f) or "")
                if h is not None and h.mod is f.mod:
                    from ..defuse import expand_aliases

                    rets = [x for x in h.node.body if isinstance(x, ast.Return)]
                    # a single return, preceded at most by plain single-definition locals (explaining variables)
                    plain = all(
                        isinstance(x, ast.Return) or (isinstance(x, ast.Expr) and isinstance(x.value, ast.Constant)) or (isinstance(x, ast.Assign) and isinstance(x.targets[0], ast.Name))
                        for x in h.node.body
                    )
                    inner = slice_of(expand_aliases(h, rets[0].value)) if len(rets) == 1 and plain else None
                    if inner is not None:
                        bound = {p_: norm(a_) for p_, a_ in zip(h.params, d.args)}
                        bound.update({k_.arg: norm(k_.value) for k_ in d.keywords if k_.arg})
                        sl = tuple(bound.get(x, x) if x is not None else None for x in inner)
            if sl is not None:
                s, lo, hi = sl
                if which == "header":
                    good = lo is None and hi in bounds and bounds[hi][0] == "_get_token_start_idx" and bounds[hi][1] == s
                elif which == "footer":
                    good = hi is None and lo in bounds and bounds[lo][0] == "_get_token_last_idx" and bounds[lo][1] == s
                else:
                    good = lo in bounds and hi in bounds and bounds[lo][1] == s and bounds[hi][1] == s
                ctx.ob(
                    "C15.tile",
                    f,
                    "{} = {}[{}:{}]".format(name, s, lo, hi),
                    bool(good),
                    "" if good else "the {} part is sliced at a boundary that is not the token index of the same string".format(which),
                    line=d.lineno,
                )
                continue
            callee = norm(d.func).rpartition(".")[2] if isinstance(d, ast.Call) else type(d).__name__
            ctx.ob(
                "C15.tile",
                f,
                "the {} part is an untransformed slice [transformed by {}]".format(which, callee),
                False,
                "the {} part is transformed by `{}` between the slice and the return: header + args + footer no longer "
                "reproduces the docstring (e.g. whenever the parameter section is indented)".format(which, callee),
                line=d.lineno,
            )

    check_part(header, "header")
    check_part(middle, "args/returns")
    check_part(footer, "footer")


def _position(ctx, index):
    """
    C15.position — the split points of a docstring are character POSITIONS. A loop that walks the pieces of
    `S.split(sep)` / `S.splitlines()` and then asks `S.index(piece)` / `S.find(piece)` gets the position of the FIRST
    piece with that text, not of the piece it is looking at: a header sentence that happens to read like a later
    line (a prose line `Returns` above the `Returns` section title) moves the split point and header prose is cut.
    Position must be carried (enumerate + running offset), not re-discovered by content. Zero such lookups exist
    today; a built-in example keeps the recogniser honest.
    """
    from ..defuse import expand_aliases

    def pieces_of(f_node, expander):
        """{loop variable: name of the string whose split it iterates}"""
        out = {}
        for n in ast.walk(f_node):
            if isinstance(n, (ast.For, ast.comprehension)):
                it = expander(n.iter)
                src = None
                for c in ast.walk(it):
                    if isinstance(c, ast.Call) and isinstance(c.func, ast.Attribute) and c.func.attr in ("split", "splitlines", "rsplit") and isinstance(c.func.value, ast.Name):
                        src = c.func.value.id
                if src is None:
                    continue
                for t in ast.walk(n.target):
                    if isinstance(t, ast.Name):
                        out[t.id] = src
        return out

    def lookups(f_node, pieces):
        for n in ast.walk(f_node):
            if (
                isinstance(n, ast.Call)
                and isinstance(n.func, ast.Attribute)
                and n.func.attr in ("index", "find", "rindex", "rfind")
                and isinstance(n.func.value, ast.Name)
                and n.args
                and isinstance(n.args[0], ast.Name)
                and pieces.get(n.args[0].id) == n.func.value.id
            ):
                yield n

    probe = ast.parse("def f(s):\n    ls = s.split('\\n')\n    for i, l in enumerate(ls[:-1]):\n        if l:\n            return s.index(l)\n").body[0]

    class _P(object):
        node = probe
        params = ["s"]

    ctx.need(len(list(lookups(probe, pieces_of(probe, lambda e: expand_aliases(_P, e))))) == 1, "the position recogniser disagrees with its own example")
    n_loops = 0
    for f in index.nontest_funcs():
        if not (f.mod.name in ("cdd.shared.docstring_utils", "cdd.shared.docstring_parsers") or f.mod.name.startswith("cdd.docstring.")):
            continue
        pieces = pieces_of(f.node, lambda e, _f=f: expand_aliases(_f, e))
        n_loops += len(pieces)
        for n in lookups(f.node, pieces):
            ctx.ob(
                "C15.position",
                f,
                n,
                False,
                "`{}` looks a piece of `{}.split(...)` up by its TEXT: it finds the first piece that reads the same, not the one "
                "the loop is at — an earlier prose line equal to (or containing) a later title moves the split point".format(short(n, 60), n.func.value.id),
            )
    ctx.count("loops_over_split_pieces_in_docstring_code", n_loops)


CUT_SCOPE = ("cdd.shared.docstring_utils", "cdd.shared.docstring_parsers", "cdd.docstring.", "cdd.shared.defaults_utils", "cdd.shared.pure_utils")


def _cut(ctx, index, rule="C15.cut"):
    """
    `S[:-N]` keeps NOTHING when N is 0 (`S[:-0]` is `S[:0]`). In the docstring splitters / parsers a slice whose upper
    bound is the negation of a run-time quantity must either cut an affix by its length (`len(...)` of the affix) or
    be dominated by the fact that N is positive (`if N:`, `N > 0`, `N >= 1`); otherwise the input in which the measured
    quantity is zero (no indentation, no trailing blanks) loses the whole text — for a header, every prose line.
    """
    from ..defuse import expand_aliases
    from ..walker import GuardWalker

    n_sites = 0
    for g in index.nontest_funcs():
        if not g.mod.name.startswith(CUT_SCOPE):
            continue
        sites = [
            n
            for n in iter_own(g.node)
            if isinstance(n, ast.Subscript)
            and isinstance(n.slice, ast.Slice)
            and isinstance(n.slice.upper, ast.UnaryOp)
            and isinstance(n.slice.upper.op, ast.USub)
            and not isinstance(n.slice.upper.operand, ast.Constant)
        ]
        if not sites:
            continue
        facts_at = {}
        GuardWalker(on_expr=lambda e, f: facts_at.__setitem__(id(e), dict(f))).walk_function(g.node)
        for n in sites:
            n_sites += 1
            raw = n.slice.upper.operand
            full = expand_aliases(g, raw)
            why = None
            if isinstance(full, ast.Call) and norm(full.func) == "len":
                why = "cuts an affix by its length"
            elif isinstance(full, ast.Name) and not any(
                isinstance(a_, (ast.Assign, ast.AnnAssign, ast.AugAssign)) and any(isinstance(t_, ast.Name) and t_.id == full.id for t_ in (a_.targets if isinstance(a_, ast.Assign) else [a_.target]))
                for a_ in iter_own(g.node)
            ):
                # a parameter, or a loop variable unpacked from a precomputed table of (affix, length) pairs: nothing is
                # MEASURED here; the rule is about quantities the function computes from the text it is cutting
                why = "not computed in this function (parameter / loop variable)"
            else:
                txt = norm(raw)
                for text, truth in (facts_at.get(id(n)) or {}).items():
                    t = " ".join(text.split())
                    if truth is True and t in (txt, txt + " > 0", txt + " >= 1", "0 < " + txt, txt + " != 0"):
                        why = "dominated by `{}`".format(t)
                    if truth is False and t in ("not " + txt, txt + " == 0", txt + " <= 0", txt + " < 1"):
                        why = "dominated by `{}` being false".format(t)
            ctx.ob(
                rule,
                g,
                n,
                why is not None,
                ""
                if why is not None
                else "`{}` keeps nothing when `{}` is 0 (`S[:-0]` is `S[:0]`) and nothing on the way says it is positive: the input in "
                "which the measured quantity is zero loses the whole text".format(short(n, 60), short(raw, 40)),
            )
    ctx.floor("slices cut from the end by a run-time quantity in the docstring splitters / parsers", n_sites, 2)
