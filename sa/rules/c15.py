"""
C15 — docstring prose outside the parameter section is preserved (necessary part).

C15.tile : in parse_docstring_into_header_args_footer the three returned parts are untransformed
           slices of the docstring sharing their boundaries: header = S[:a], args = S[a:b],
           footer = S[b:], with a, b computed by the token-index functions on the very string that is
           sliced. Anything applied to a part between the slice and the `return` (indent, strip,
           replace, re-slicing) breaks `header + args + footer == original`.
"""

import ast

from ..core import iter_own, norm, short
from ..defuse import local_defs

TRANSFORMS = frozenset(
    "indent dedent strip lstrip rstrip replace format join expandtabs title lower upper fill wrap deindent reindent".split()
)


def run(ctx):
    """entry"""
    index = ctx.index
    ctx.explanation = (
        "Def-use shape of the three values returned by parse_docstring_into_header_args_footer: each must be "
        "a plain slice of the input string at boundaries produced by _get_token_start_idx / "
        "_get_token_last_idx of the same string; every other definition of a returned part (a call that "
        "transforms text) is reported."
    )
    ctx.assumptions += [
        "NOT decided: that the token indices land on the right lines for every combination of blank lines and "
        "indentation; that no prose line is absorbed into a type or default (value level)",
    ]
    f = index.func("cdd.shared.docstring_utils.parse_docstring_into_header_args_footer")
    rets = [n for n in iter_own(f.node) if isinstance(n, ast.Return) and isinstance(n.value, ast.Tuple) and len(n.value.elts) == 3]
    ctx.need(len(rets) >= 1, "parse_docstring_into_header_args_footer no longer returns a 3-tuple")
    final = rets[-1]
    names = [norm(e) for e in final.value.elts]
    ctx.need(all(isinstance(e, ast.Name) for e in final.value.elts), "the returned parts are no longer plain names: {}".format(names))
    defs = local_defs(f)
    header, middle, footer = names
    # boundaries come from the token-index functions applied to the sliced string
    bounds = {}
    for n in iter_own(f.node):
        if isinstance(n, ast.Assign) and isinstance(n.value, ast.Call) and isinstance(n.targets[0], ast.Name):
            callee = index.callee(f.mod, n.value, f) or ""
            if callee.endswith("_get_token_start_idx") or callee.endswith("_get_token_last_idx"):
                bounds[n.targets[0].id] = (callee.rpartition(".")[2], norm(n.value.args[0]) if n.value.args else None)
    ctx.need(len(bounds) >= 4, "the four boundary indices vanished: {}".format(bounds))

    def slice_of(e):
        """(string name, lower text, upper text) of a plain slice expression (through `x if c else None`)"""
        if isinstance(e, ast.IfExp):
            a, b = slice_of(e.body), slice_of(e.orelse)
            return a or b
        if isinstance(e, ast.Subscript) and isinstance(e.value, ast.Name):
            s = e.slice
            if isinstance(s, ast.Slice):
                return (e.value.id, norm(s.lower) if s.lower is not None else None, norm(s.upper) if s.upper is not None else None)
            if isinstance(s, ast.Call) and norm(s.func) == "slice" and len(s.args) == 2:
                def nm(x):
                    names = [y.id for y in ast.walk(x) if isinstance(y, ast.Name)]
                    return names[0] if names else None

                return (e.value.id, nm(s.args[0]), nm(s.args[1]))
        return None

    def check_part(name, which):
        ds = [d for d in defs.get(name, []) if not (isinstance(d, ast.Constant) and d.value is None)]
        ctx.need(ds, "no definition of the returned part `{}`".format(name))
        for d in ds:
            if isinstance(d, ast.Call) and index.callee(f.mod, d, f) == "builtins.map":
                # the (current, original) pair is built by mapping one slicing lambda over two triples
                lam = d.args[0] if d.args else None
                ok = isinstance(lam, ast.Lambda) and isinstance(lam.body, ast.Subscript) and isinstance(lam.body.slice, ast.Call) and norm(lam.body.slice.func) == "slice"
                trip = None
                if ok and len(d.args) == 2 and isinstance(d.args[1], ast.Tuple):
                    for t in d.args[1].elts:
                        if isinstance(t, ast.Tuple) and len(t.elts) == 3 and "current" in norm(t.elts[0]):
                            trip = [norm(x) for x in t.elts]
                good = ok and trip is not None and bounds.get(trip[1], (None, None))[1] == trip[0] and bounds.get(trip[2], (None, None))[1] == trip[0]
                ctx.ob(
                    "C15.tile",
                    f,
                    "{} = {}[{}:{}]".format(name, *(trip or ["?", "?", "?"])),
                    bool(good),
                    "" if good else "the {} part is not a plain slice of the docstring at its own token boundaries".format(which),
                    line=d.lineno,
                )
                continue
            sl = slice_of(d)
            if sl is not None:
                s, lo, hi = sl
                if which == "header":
                    good = lo is None and hi in bounds and bounds[hi][0] == "_get_token_start_idx" and bounds[hi][1] == s
                elif which == "footer":
                    good = hi is None and lo in bounds and bounds[lo][0] == "_get_token_last_idx" and bounds[lo][1] == s
                else:
                    good = lo in bounds and hi in bounds and bounds[lo][1] == s and bounds[hi][1] == s
                ctx.ob(
                    "C15.tile",
                    f,
                    "{} = {}[{}:{}]".format(name, s, lo, hi),
                    bool(good),
                    "" if good else "the {} part is sliced at a boundary that is not the token index of the same string".format(which),
                    line=d.lineno,
                )
                continue
            callee = norm(d.func).rpartition(".")[2] if isinstance(d, ast.Call) else type(d).__name__
            ctx.ob(
                "C15.tile",
                f,
                "{} = {}".format(name, short(d, 70)),
                False,
                "the {} part is transformed by `{}` between the slice and the return: header + args + footer no longer "
                "reproduces the docstring (e.g. whenever the parameter section is indented)".format(which, callee),
                line=d.lineno,
            )

    check_part(header, "header")
    check_part(middle, "args/returns")
    check_part(footer, "footer")
