"""
C06 — emitted JSON-schema is valid, self-consistent and round-trips (necessary parts).

C06.tables   : typ2json_type maps every domain type to a JSON-Schema primitive type name and
               json_type2typ maps it back (tables folded from source).
C06.required : on every path of param2json_schema_property the property is appended to
               `required` exactly once when its type is not Optional and never when it is.
C06.meta     : the top-level literal returned by json_schema() has the types the draft 2020-12
               meta-schema demands ($schema constant, type "object", properties dict, required
               list, description str — never None).
C06.pattern  : Literal <-> pattern siblings: the emitter joins *sorted* members with the constant
               the parser splits on.
"""

import ast

from ..core import RefGraph, iter_own, norm, short
from ..defuse import local_defs
from ..fold import ModuleEnv, Unknown
from .c11 import PathFact, body_paths

DOMAIN = ("int", "float", "str", "bool", "dict", "list")
JSON7 = frozenset("string number integer boolean object array null".split())
STR_METHODS = frozenset(
    "lstrip rstrip strip format join replace lower upper title capitalize expandtabs ljust rjust center zfill".split()
)
DRAFT = "https://json-schema.org/draft/2020-12/schema"


def str_type(f, e, depth=0):
    """'str' | 'none' | 'str|none' | '?' for an expression (tiny local inference)"""
    if depth > 6:
        return "?"
    if isinstance(e, ast.Constant):
        if isinstance(e.value, str):
            return "str"
        if e.value is None:
            return "none"
        return "?"
    if isinstance(e, ast.JoinedStr):
        return "str"
    if isinstance(e, ast.Call):
        if isinstance(e.func, ast.Attribute) and e.func.attr in STR_METHODS:
            return "str"
        if isinstance(e.func, ast.Name) and e.func.id in ("str", "repr", "deindent", "indent", "dumps"):
            return "str"
        return "?"
    if isinstance(e, ast.BoolOp) and isinstance(e.op, ast.Or):
        kinds = [str_type(f, v, depth + 1) for v in e.values]
        if "none" in kinds[-1:] or kinds[-1] == "str|none":
            # `x or None`: None whenever x is falsy (e.g. the empty string)
            return "str|none" if any(k.startswith("str") for k in kinds[:-1]) else "none"
        if all(k == "str" for k in kinds):
            return "str"
        return "?"
    if isinstance(e, ast.IfExp):
        a, b = str_type(f, e.body, depth + 1), str_type(f, e.orelse, depth + 1)
        if a == b:
            return a
        if {a, b} <= {"str", "none", "str|none"}:
            return "str|none"
        return "?"
    if isinstance(e, ast.BinOp) and isinstance(e.op, (ast.Add, ast.Mod)):
        a = str_type(f, e.left, depth + 1)
        return "str" if a == "str" else "?"
    if isinstance(e, ast.Name):
        defs = local_defs(f).get(e.id, [])
        kinds = {str_type(f, d, depth + 1) for d in defs}
        if len(kinds) == 1:
            return kinds.pop()
        if kinds and kinds <= {"str", "none", "str|none"}:
            return "str|none"
    return "?"


def run(ctx):
    """entry"""
    ok = None
    t = None
    index = ctx.index
    env = ModuleEnv(index)
    ctx.explanation = (
        "Constant folding of json_type2typ / typ2json_type (a comprehension inverse) and inverse check on "
        "the JSON-representable domain; path enumeration of param2json_schema_property counting "
        "`required.append` per path against the Optional guard fact; local type inference of the values in "
        "the top-level schema literal; constant agreement of the Literal<->pattern separator between the "
        "emitter and the parser."
    )
    ctx.assumptions += [
        "NOT decided: validation of arbitrary defaults against their property schema; round trip of the "
        "parsed-back interface (value level)",
    ]
    p2j = index.func("cdd.json_schema.utils.emit_utils.param2json_schema_property")
    js = index.func("cdd.json_schema.emit.json_schema")
    j2p = index.func("cdd.json_schema.utils.parse_utils.json_schema_property_to_param")
    def _sec_tables():
        nonlocal ok, t
        # ----------------------------------------------------------- tables
        try:
            t2j = env.value("cdd.json_schema.utils.emit_utils.typ2json_type")
            j2t = env.value("cdd.json_schema.utils.parse_utils.json_type2typ")
        except Unknown as x:
            ctx.need(False, "cannot fold the JSON type tables: {}".format(x))
        ctx.count("table_entries_folded", len(t2j) + len(j2t))
        for t in DOMAIN:
            j = t2j.get(t)
            ok = j in JSON7 and j2t.get(j) == t
            ctx.ob(
                "C06.tables",
                p2j.mod,
                "typ2json_type[{!r}] = {!r}; json_type2typ[{!r}] = {!r}".format(t, j, j, j2t.get(j) if j else None),
                ok,
                ""
                if ok
                else "domain type {!r} maps to {!r}, which is {} and maps back to {!r}".format(
                    t, j, "a JSON-Schema type" if j in JSON7 else "NOT one of the seven JSON-Schema type names", j2t.get(j) if j else None
                ),
                line=1,
            )

    ctx.section(_sec_tables)

    def _sec_required():
        nonlocal ok
        # --------------------------------------------------------- required
        classes = {}
        n_paths = 0
        from ..core import RefGraph
        from .c11 import helper_inliner

        inl = helper_inliner(index, RefGraph(index), p2j)
        for kind, stmts in body_paths(p2j.node.body, inline=inl):
            n_paths += 1
            appends = sum(
                1
                for s in stmts
                if isinstance(s, ast.Expr)
                and not isinstance(s, PathFact)
                and isinstance(s.value, ast.Call)
                and norm(s.value.func) == "required.append"
            )
            facts = [(norm(s.value), s.truth) for s in stmts if isinstance(s, PathFact)]
            optional = any("startswith('Optional[')" in t and tr for t, tr in facts)
            typed_tests = [(t, tr) for t, tr in facts if "'typ'" in t and ("==" in t or " in " in t or " is " in t)]
            # `x.get('typ', S) is S` false  <=>  `... is not S` true  <=>  a type is present
            typed = any((not tr) if (" is " in t and " is not " not in t) else tr for t, tr in typed_tests)
            cls = "optional" if optional else ("typed-not-optional" if typed else "untyped")
            classes.setdefault(cls, set()).add(appends)
        ctx.count("paths_through_param2json_schema_property", n_paths)
        ctx.need({"optional", "typed-not-optional"} <= set(classes), "could not classify the paths of param2json_schema_property: {}".format(classes))
        want = {"optional": {0}, "typed-not-optional": {1}, "untyped": {0}}
        for cls, counts in sorted(classes.items()):
            ok = counts == want[cls]
            ctx.ob(
                "C06.required",
                p2j,
                "paths with a {} type append to `required` {} time(s)".format(cls, sorted(counts)),
                ok,
                ""
                if ok
                else "required <=> not Optional is violated: on some path with a {} type the property is appended {} "
                "time(s) (want {})".format(cls, sorted(counts), sorted(want[cls])),
                line=p2j.node.lineno,
            )
        # parse side: the declared JSON type has primacy — no constant type may overwrite it afterwards
        n_over = 0
        worst = None
        for kind, stmts in body_paths(j2p.node.body):
            mapped_at = None
            for i, st in enumerate(stmts):
                if isinstance(st, PathFact) or not isinstance(st, ast.Assign):
                    continue
                if norm(st.targets[0]) != "_param['typ']":
                    continue
                val = norm(st.value)
                if "json_type2typ" in val or "_param.pop('type')" in val:
                    mapped_at = i
                elif mapped_at is not None and isinstance(st.value, ast.Constant):
                    n_over += 1
                    worst = st
        ctx.ob(
            "C06.required",
            j2p,
            "the declared JSON type is never overwritten by a constant type",
            n_over == 0,
            ""
            if n_over == 0
            else "on {} path(s) `{}` runs AFTER the type declared by the schema was mapped: the declared type (and with it "
            "required <=> not Optional) is overridden".format(n_over, short(worst, 60)),
            line=(worst.lineno if worst is not None else j2p.node.lineno),
        )

    ctx.section(_sec_required)

    def _sec_meta():
        nonlocal ok
        # ------------------------------------------------------------- meta
        rets = [n for n in iter_own(js.node) if isinstance(n, ast.Return) and isinstance(n.value, ast.Dict)]
        lit = rets[-1].value if rets else None
        if lit is None:
            # `schema = {...}; <optional extra keys>; return schema`: the literal the returned local was bound to; the six
            # keys decided here must not be stored again afterwards
            named = [n for n in iter_own(js.node) if isinstance(n, ast.Return) and isinstance(n.value, ast.Name)]
            for r in named:
                lits = [
                    a.value
                    for a in iter_own(js.node)
                    if isinstance(a, (ast.Assign, ast.AnnAssign)) and isinstance(a.value, ast.Dict) and norm(a.targets[0] if isinstance(a, ast.Assign) else a.target) == r.value.id
                ]
                if len(lits) == 1:
                    lit = lits[0]
                    restored = [
                        a
                        for a in iter_own(js.node)
                        if isinstance(a, ast.Assign)
                        and isinstance(a.targets[0], ast.Subscript)
                        and norm(a.targets[0].value) == r.value.id
                        and isinstance(a.targets[0].slice, ast.Constant)
                        and a.targets[0].slice.value in ("$id", "$schema", "description", "type", "properties", "required")
                    ]
                    ctx.need(not restored, "a key of the top-level schema is stored again after the literal: {}".format([short(a, 50) for a in restored]))
        ctx.need(lit is not None, "json_schema() no longer returns a dict literal (or a local bound to one)")
        items = {k.value: v for k, v in zip(lit.keys, lit.values) if isinstance(k, ast.Constant)}
        for key in ("$id", "$schema", "description", "type", "properties", "required"):
            ctx.need(key in items, "top-level schema literal lost key {}".format(key))
        ok = isinstance(items["$schema"], ast.Constant) and items["$schema"].value == DRAFT
        ctx.ob("C06.meta", js, "$schema = " + short(items["$schema"], 60), ok, "" if ok else "$schema must be the draft 2020-12 URI", line=items["$schema"].lineno)
        ok = isinstance(items["type"], ast.Constant) and items["type"].value == "object"
        ctx.ob("C06.meta", js, "type = " + short(items["type"], 30), ok, "" if ok else 'top-level "type" must be "object"', line=items["type"].lineno)
        d = str_type(js, items["description"])
        ok = d == "str"
        ctx.ob(
            "C06.meta",
            js,
            "description : " + d,
            ok,
            ""
            if ok
            else 'the value of "description" can be {}: for an interface without prose the schema gets '
            '"description": null, which the draft 2020-12 meta-schema rejects'.format(d)
            if "none" in d
            else 'cannot show that "description" is a string ({})'.format(d),
            line=items["description"].lineno,
        )
        v = items["required"]
        defs = local_defs(js).get(v.id, []) if isinstance(v, ast.Name) else [v]
        ok = bool(defs) and all(isinstance(x, (ast.List, ast.ListComp)) or (isinstance(x, ast.Call) and norm(x.func) in ("list", "sorted")) for x in defs)
        ctx.ob("C06.meta", js, "required : list", ok, "" if ok else '"required" must be a list (is {})'.format([short(x, 30) for x in defs]), line=v.lineno)
        v = items["properties"]
        defs = local_defs(js).get(v.id, []) if isinstance(v, ast.Name) else [v]
        ok = bool(defs) and all(isinstance(x, (ast.Dict, ast.DictComp)) or (isinstance(x, ast.Call) and norm(x.func) in ("dict", "OrderedDict")) for x in defs)
        ctx.ob("C06.meta", js, "properties : dict", ok, "" if ok else '"properties" must be an object', line=v.lineno)
        ctx.section(_pattern, ctx, index, p2j, j2p)

    ctx.section(_sec_meta)

    def _sec_stale():
        # --------------------------------------------------------------- stale
        # the property translators rename keys in place; a later guard that still reads the old key is no guard
        from ..keystate import stale_rule

        fs = [f for f in index.nontest_funcs() if f.mod.name.startswith("cdd.json_schema.")]
        n = stale_rule(ctx, "C06.stale", fs, "the conversion of the value (e.g. a string default being re-typed)")
        ctx.floor("dicts with constant keys in the JSON-schema emitters/parsers", n, 4)

    ctx.section(_sec_stale)
    from . import c10

    ctx.section(c10.state_slice, ctx, "C06.state", ["cdd.json_schema.emit.json_schema", "cdd.json_schema.parse.json_schema"], 4)

    def _sec_inputmut():
        # "required exactly when not Optional" must also hold for the second emission of one object: the emitter
        # must not turn the caller's parameter mappings into JSON-schema properties
        f_ = index.func("cdd.json_schema.emit.json_schema")
        c10.inputmut_rule(ctx, "C06.inputmut", [(f_, f_.params[0])], "a second emission of the same object lists other properties as required")

    ctx.section(_sec_inputmut)

    def _sec_vocab():
        # "parsing the emitted schema back yields the same interface": every JSON-schema keyword the property
        # emitter can write into a property must at least be LOOKED AT by the property parser. A keyword the reader
        # never mentions (`format` of a date-time string) cannot be translated back: it stays in the parameter entry
        # as a stray key and whatever it encoded (the `datetime` type) is lost.
        w_ = index.func("cdd.json_schema.utils.emit_utils.param2json_schema_property")
        r_ = index.func("cdd.json_schema.utils.parse_utils.json_schema_property_to_param")
        ir_keys = {"typ", "doc", "default", "x_typ"}
        written = {}
        from ..region import Region as _Region

        # the emitter and the private helpers of its module it hands the property to
        wnodes = [n for g_, n in _Region(index, RefGraph(index), w_).nodes() if g_.mod is w_.mod]
        for n in wnodes:
            if isinstance(n, (ast.Assign, ast.AugAssign)):
                for t in n.targets if isinstance(n, ast.Assign) else [n.target]:
                    if isinstance(t, ast.Subscript) and isinstance(t.slice, ast.Constant) and isinstance(t.slice.value, str):
                        written.setdefault(t.slice.value, n)
            if isinstance(n, ast.Call) and isinstance(n.func, ast.Attribute) and n.func.attr == "update" and n.args and isinstance(n.args[0], ast.Dict):
                for k in n.args[0].keys:
                    if isinstance(k, ast.Constant) and isinstance(k.value, str):
                        written.setdefault(k.value, n)
        from ..region import Region

        mentioned = set()
        for g_, n in Region(index, RefGraph(index), r_).nodes():
            if isinstance(n, ast.Constant) and isinstance(n.value, str):
                mentioned.add(n.value)
        ctx.floor("JSON-schema keywords written by the property emitter", len(written), 3)
        for k in sorted(written):
            if k in ir_keys:
                continue
            ok = k in mentioned
            ctx.ob(
                "C06.vocab",
                w_,
                "property keyword {!r} written by the emitter".format(k),
                ok,
                ""
                if ok
                else "the emitter writes the JSON-schema keyword {!r} (`{}`) but the property parser never looks at it: parsed back, the "
                "entry keeps {!r} as a stray key and what it encoded is lost (the round trip cannot be the identity)".format(k, short(written[k], 60), k),
                line=written[k].lineno,
            )

    ctx.section(_sec_vocab)
    # "every emitted default validates ... parsing back yields the same interface": a default of 0 / False / '' must
    # reach the schema like any other (C02's rule on truthiness tests of a default, which covers the JSON-schema emitter)
    from . import c02

    ctx.section(c02._falsy, ctx, index)



def _pattern(ctx, index, p2j=None, j2p=None):
    """Literal <-> pattern siblings (also run by C08: a transform on emit that parse does not undo grows each round)"""
    p2j = p2j or index.func("cdd.json_schema.utils.emit_utils.param2json_schema_property")
    j2p = j2p or index.func("cdd.json_schema.utils.parse_utils.json_schema_property_to_param")
    seps_emit = []
    for n in iter_own(p2j.node):
        if isinstance(n, ast.Dict):
            for k, v in zip(n.keys, n.values):
                if isinstance(k, ast.Constant) and k.value == "pattern":
                    seps_emit.append((v, n))
        if isinstance(n, ast.Assign) and norm(n.targets[0]) == "_param['pattern']":
            seps_emit.append((n.value, n))
    ctx.need(seps_emit, "the emitter no longer writes a pattern")
    seps_parse = [
        n
        for n in iter_own(j2p.node)
        if isinstance(n, ast.Call)
        and isinstance(n.func, ast.Attribute)
        and n.func.attr == "split"
        and "pattern" in norm(n.func.value)
        and n.args
        and isinstance(n.args[0], ast.Constant)
    ]
    ctx.need(seps_parse, "the parser no longer splits the pattern")
    psep = seps_parse[0].args[0].value
    for v, node in seps_emit:
        ok_shape = isinstance(v, ast.Call) and isinstance(v.func, ast.Attribute) and v.func.attr == "join" and isinstance(v.func.value, ast.Constant)
        sep = v.func.value.value if ok_shape else None
        ok = ok_shape and sep == psep
        ctx.ob(
            "C06.pattern",
            p2j,
            v,
            ok,
            "" if ok else "the emitter joins Literal members with {!r} but the parser splits on {!r}".format(sep, psep),
        )
        if ok_shape:
            arg = v.args[0]
            if isinstance(arg, ast.Call) and norm(arg.func) == "map" and len(arg.args) == 2:
                ctx.ob(
                    "C06.pattern",
                    p2j,
                    "members joined as written: " + short(arg, 40),
                    False,
                    "Literal members are transformed by `{}` before being joined, but the parser splits the pattern "
                    "and takes the pieces verbatim: members do not come back as they were".format(norm(arg.args[0])),
                    line=v.lineno,
                )
                arg = arg.args[1]
            srt = isinstance(arg, ast.Call) and norm(arg.func) == "sorted"
            if isinstance(arg, ast.Name):
                ds = local_defs(p2j).get(arg.id, [])
                srt = bool(ds) and all(isinstance(d, ast.Call) and norm(d.func) == "sorted" for d in ds)
            ctx.ob(
                "C06.pattern",
                p2j,
                "members sorted before joining: " + short(arg, 40),
                srt,
                "" if srt else "Literal members are joined without sorting (set-valued choices would come out in hash order)",
                line=v.lineno,
            )
