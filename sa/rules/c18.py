"""
C18 — every public module imports cleanly on its own, in any order.

Rule C18.import : simulate the import protocol for every start module (exhaustive) and for
                  ordered pairs (quick: pairs touching import cycles + seeded sample;
                  thorough: all N x N); bound-name sets must agree in both orders.
Rule C18.ext    : module-level imports of third-party distributions are declared or guarded.
"""

import ast
import os
import random
import re
import sys

from ..core import attr_chain
from ..importsim import ImportMachine


def _fmt_stack(stack):
    return " -> ".join("{}:{}".format(m, ln) for m, ln in stack)


def import_graph(machine):
    """static module-level import graph among repo modules (for cycle discovery)"""
    g = {}
    mods = machine.mods
    for m, evs in machine.events.items():
        out = g.setdefault(m, set())
        for e in evs:
            if e[0] == "import":
                parts = e[1].split(".")
                for i in range(1, len(parts) + 1):
                    p = ".".join(parts[:i])
                    if p in mods:
                        out.add(p)
            elif e[0] == "from":
                base = e[1]
                if base in mods:
                    out.add(base)
                    for name, _ in e[2]:
                        if base + "." + name in mods:
                            out.add(base + "." + name)
    return g


def cyclic_modules(g):
    """modules on a module-level import cycle (Tarjan)"""
    sys.setrecursionlimit(10000)
    idx, low, on, stack, res = {}, {}, set(), [], set()
    c = [0]

    def strong(v):
        idx[v] = low[v] = c[0]
        c[0] += 1
        stack.append(v)
        on.add(v)
        for w in g.get(v, ()):
            if w not in idx:
                strong(w)
                low[v] = min(low[v], low[w])
            elif w in on:
                low[v] = min(low[v], idx[w])
        if low[v] == idx[v]:
            comp = []
            while True:
                w = stack.pop()
                on.discard(w)
                comp.append(w)
                if w == v:
                    break
            if len(comp) > 1:
                res.update(comp)

    for v in sorted(g):
        if v not in idx:
            strong(v)
    return res


def run(ctx):
    """entry"""
    index = ctx.index
    machine = ImportMachine(index)
    starts = index.nontest_modules()
    ctx.count("modules_parsed", len(index.modules))
    ctx.count("start_modules", len(starts))
    ctx.count("import_events", sum(len(v) for v in machine.events.values()))
    ctx.floor("non-test modules", len(starts), 44)
    ctx.explanation = (
        "Abstract interpretation of CPython's import protocol (sys.modules absent/loading/done, "
        "per-module bound-name sets, submodule bound on its parent only when it finishes) over the "
        "import-time events extracted from every module body; run for every start module and for "
        "ordered pairs; the report names the failing statement, the import stack and the error the "
        "interpreter would raise. C18.ext: third-party module-level imports are declared or guarded."
    )
    ctx.assumptions += [
        "external (non-cdd) modules import successfully",
        "all arms of module-level if/try are walked in source order (over-approximation)",
        "import-time events come from module bodies, class bodies, decorators, defaults and "
        "annotations; a function body runs when a module-level statement calls it (directly, or through a "
        "consumed map/filter/partial): its local imports, module attribute chains, global names of a "
        "still-loading module, nested calls (depth <= 6) and import_module(<foldable>) are executed in the "
        "machine, `if` tests folded with the constant arguments; an import_module whose argument cannot be "
        "folded at import time is reported",
    ]
    n_call_events = sum(1 for v in machine.events.values() for e in v if e[0] == "call")
    ctx.count("import_time_call_events", n_call_events)
    ctx.floor("module-level calls into repository functions", n_call_events, 8)
    ok_single = {}
    fails = {}
    for m in starts:
        fail, ns = machine.run([m])
        if fail is None:
            ok_single[m] = ns
            ctx.ob("C18.import.single", index.modules[m], "import " + m, True, line=1)
        else:
            fails[m] = fail
    # group failures by root cause (the failing statement): one obligation per failing statement
    by_stmt = {}
    for m, f in fails.items():
        by_stmt.setdefault((f.module, f.line, f.kind, f.text), []).append((m, f))
    for (fm, ln, kind, text), lst in sorted(by_stmt.items()):
        mod = index.modules.get(fm)
        stmt_text = ""
        if mod is not None and ln:
            for n in ast.walk(mod.tree):
                if isinstance(n, ast.stmt) and getattr(n, "lineno", None) == ln:
                    stmt_text = " ".join(ast.unparse(n).split())[:150]
                    break
        starts_txt = ", ".join(sorted(s for s, _ in lst))
        ctx.ob(
            "C18.import.single",
            mod if mod is not None else (fm, "<module>"),
            stmt_text or text,
            False,
            "{}: {} | fails when the first import is any of [{}] | stack: {}".format(
                kind, text, starts_txt, _fmt_stack(lst[0][1].stack)
            ),
            line=ln,
        )
    # ordered pairs
    g = import_graph(machine)
    cyc = sorted(cyclic_modules(g) & set(starts))
    ctx.count("modules_on_import_cycles", len(cyc))
    good = sorted(ok_single)
    if ctx.tier == "thorough":
        pairs = [(a, b) for a in good for b in good if a != b]
        ctx.exhaustive = True
    else:
        sel = set()
        for a in cyc:
            for b in good:
                if a != b and a in ok_single:
                    sel.add((a, b))
                    sel.add((b, a))
        rnd = random.Random(ctx.seed)
        allp = [(a, b) for a in good for b in good if a != b]
        for p in rnd.sample(allp, min(600, len(allp))):
            sel.add(p)
        pairs = sorted(sel)
    pair_fail = {}
    final = {}
    n_pairs = 0
    ns_diff = 0
    name_diffs = {}
    for a, b in pairs:
        fail, ns = machine.run([a, b])
        n_pairs += 1
        if fail is not None:
            pair_fail.setdefault((fail.module, fail.line, fail.kind, fail.text), []).append(
                ((a, b), fail)
            )
            continue
        key = frozenset((a, b))
        if key in final:
            other = final.pop(key)
            if other != ns:
                ns_diff += 1
                for dm in sorted(set(ns) | set(other)):
                    if ns.get(dm) != other.get(dm):
                        only_ab = sorted((ns.get(dm) or set()) - (other.get(dm) or set()))
                        only_ba = sorted((other.get(dm) or set()) - (ns.get(dm) or set()))
                        name_diffs.setdefault((dm, tuple(only_ab[:6]), tuple(only_ba[:6])), []).append((a, b))
        elif ctx.tier == "thorough" or (b, a) in sel:
            final[key] = ns
    for (dm, only_ab, only_ba), lst in sorted(name_diffs.items()):
        a, b = lst[0]
        ctx.ob(
            "C18.import.names",
            index.modules[dm] if dm in index.modules else (dm, "<module>"),
            "names bound in {} depend on import order".format(dm),
            False,
            "after `import {a}; import {b}` module {dm} additionally binds {x} while after `import {b}; "
            "import {a}` it additionally binds {y} ({n} ordered pairs differ)".format(
                a=a, b=b, dm=dm, x=list(only_ab), y=list(only_ba), n=len(lst)
            ),
            line=1,
        )
    ctx.count("ordered_pairs_simulated", n_pairs)
    ctx.count("import_time_function_bodies_executed", machine.calls_executed)
    for (fm, ln, kind, text), lst in sorted(pair_fail.items()):
        mod = index.modules.get(fm)
        ctx.ob(
            "C18.import.pair",
            mod if mod is not None else (fm, "<module>"),
            "{}:{} {}".format(fm, ln, text)[:160],
            False,
            "{} for {} ordered pairs, e.g. import {} then {} | stack: {}".format(
                kind, len(lst), lst[0][0][0], lst[0][0][1], _fmt_stack(lst[0][1].stack)
            ),
            line=ln,
        )
    if not pair_fail and not ns_diff:
        ctx.ob(
            "C18.import.pair",
            ("cdd", "<all>"),
            "{} ordered pairs".format(n_pairs),
            True,
            line=0,
        )
    ctx.section(_ext, ctx)
    ctx.section(_foreign, ctx)
    ctx.samples = [
        {"start": m, "modules_loaded": len(ns), "result": "ok"}
        for m, ns in list(sorted(ok_single.items()))[:: max(1, len(ok_single) // 5)][:6]
    ] + [
        {"start": m, "result": "{}: {}".format(f.kind, f.text), "stack": _fmt_stack(f.stack)}
        for m, f in sorted(fails.items())[:4]
    ]
    ctx.extra["states"] = n_pairs + len(starts)


GUARD_WORDS = ("find_spec", "PY_GTE", "PY3", "version_info", "python_major_minor")


_MUTATORS = frozenset("append extend insert pop remove clear update add discard setdefault popitem sort reverse".split())


def _foreign(ctx):
    """
    C18.foreign — "importing any two modules in either order leaves the same public names bound". A module that, while
    it is being imported, MUTATES an object it imported from a module outside the package (`from typing import __all__
    as names; names.remove("Text")`) changes that module for the whole interpreter: what another module's
    `from typing import *` binds then depends on whether this module was imported before it. Reading, copying
    (`frozenset(names)`, `list(names)`), and deleting the local NAME (`del names`) are fine.
    """
    index = ctx.index
    n_names = 0
    for name in index.nontest_modules():
        m = index.modules[name]
        foreign = {}
        for st in ast.walk(m.tree):
            if isinstance(st, ast.ImportFrom) and not st.level and st.module and not st.module.startswith("cdd"):
                for a in st.names:
                    if a.name != "*":
                        foreign[a.asname or a.name] = "{}.{}".format(st.module, a.name)
        if not foreign:
            continue
        n_names += len(foreign)

        def module_level(stmts):
            for st in stmts:
                if isinstance(st, (ast.FunctionDef, ast.AsyncFunctionDef, ast.ClassDef)):
                    continue
                yield st
                for fld in ("body", "orelse", "finalbody"):
                    sub = getattr(st, fld, None)
                    if isinstance(sub, list) and sub and isinstance(sub[0], ast.stmt):
                        for x in module_level(sub):
                            yield x
                for h in getattr(st, "handlers", []) or []:
                    for x in module_level(h.body):
                        yield x

        for st in module_level(m.tree.body):
            own = [st.value] if isinstance(st, ast.Expr) else ([st] if isinstance(st, (ast.Assign, ast.AugAssign, ast.Delete)) else [])
            for root in own:
                for x in ast.walk(root):
                    hit = None
                    if isinstance(x, ast.Call) and isinstance(x.func, ast.Attribute) and x.func.attr in _MUTATORS and isinstance(x.func.value, ast.Name) and x.func.value.id in foreign:
                        hit = x.func.value.id
                    if isinstance(x, (ast.Assign, ast.AugAssign)):
                        for t in x.targets if isinstance(x, ast.Assign) else [x.target]:
                            if isinstance(t, (ast.Subscript, ast.Attribute)) and isinstance(t.value, ast.Name) and t.value.id in foreign:
                                hit = t.value.id
                            if isinstance(x, ast.AugAssign) and isinstance(t, ast.Name) and t.id in foreign and isinstance(x.op, ast.Add):
                                hit = t.id
                    if isinstance(x, ast.Delete):
                        for t in x.targets:
                            if isinstance(t, ast.Subscript) and isinstance(t.value, ast.Name) and t.value.id in foreign:
                                hit = t.value.id
                    if hit is not None:
                        ctx.ob(
                            "C18.foreign",
                            m,
                            st,
                            False,
                            "import of this module mutates `{}` (= {}), an object owned by a module outside the package: every module "
                            "imported LATER sees the changed object (e.g. `from {} import *` binds other names), so the public names "
                            "depend on import order".format(hit, foreign[hit], foreign[hit].rpartition(".")[0]),
                            line=st.lineno,
                        )
    ctx.count("names_imported_from_outside_the_package", n_names)
    ctx.floor("names imported from modules outside the package", n_names, 50)


def _ext(ctx):
    """C18.ext"""
    index = ctx.index
    stdlib = set(sys.stdlib_module_names)
    declared = set()
    req = os.path.join(index.root, "requirements.txt")
    if os.path.isfile(req):
        with open(req) as f:
            for line in f:
                line = line.split("#egg=")[-1] if "#egg=" in line else line.split("#")[0]
                mt = re.match(r"\s*([A-Za-z0-9_.\-]+)", line)
                if mt:
                    declared.add(mt.group(1).lower().replace("_", "-"))
    setup = os.path.join(index.root, "setup.py")
    if os.path.isfile(setup):
        with open(setup) as f:
            try:
                tree = ast.parse(f.read())
            except SyntaxError:
                tree = None
        if tree is not None:
            for n in ast.walk(tree):
                if isinstance(n, ast.keyword) and n.arg in ("install_requires", "setup_requires"):
                    for c in ast.walk(n.value):
                        if isinstance(c, ast.Constant) and isinstance(c.value, str):
                            mt = re.match(r"\s*([A-Za-z0-9_.\-]+)", c.value)
                            if mt:
                                declared.add(mt.group(1).lower().replace("_", "-"))
    dist_of = {"yaml": "pyyaml", "typing_extensions": "typing-extensions"}
    n = 0
    for name in index.nontest_modules():
        m = index.modules[name]

        def visit(stmts, guarded):
            nonlocal n
            for s in stmts:
                if isinstance(s, (ast.Import, ast.ImportFrom)):
                    if isinstance(s, ast.ImportFrom):
                        if s.level:
                            continue
                        roots = [(s.module or "").split(".")[0]]
                    else:
                        roots = [a.name.split(".")[0] for a in s.names]
                    for r in roots:
                        if r in stdlib or r == "cdd" or not r:
                            continue
                        n += 1
                        dist = dist_of.get(r, r).lower()
                        ok = guarded or dist.replace("_", "-") in declared
                        ctx.ob(
                            "C18.ext",
                            m,
                            s,
                            ok,
                            ""
                            if ok
                            else "module-level import of undeclared, unguarded third-party "
                            "distribution {!r}".format(r),
                        )
                elif isinstance(s, ast.If):
                    t = ast.unparse(s.test)
                    g = guarded or any(w in t for w in GUARD_WORDS)
                    visit(s.body, g)
                    visit(s.orelse, g)
                elif isinstance(s, ast.Try):
                    catches = any(
                        h.type is None
                        or any(
                            x in ast.unparse(h.type)
                            for x in ("ImportError", "ModuleNotFoundError", "Exception")
                        )
                        for h in s.handlers
                    )
                    visit(s.body, guarded or catches)
                    for h in s.handlers:
                        visit(h.body, guarded)
                    visit(s.orelse + s.finalbody, guarded)
                elif isinstance(s, (ast.With, ast.For, ast.While)):
                    visit(s.body, guarded)
                elif isinstance(s, ast.ClassDef):
                    visit(s.body, guarded)

        visit(m.tree.body, False)
    ctx.count("third_party_import_sites", n)

