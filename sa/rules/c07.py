"""
C07 — doctrans changes only docstrings and annotations, never the program (necessary parts).

C07.write    : doctrans() has exactly one write; it is the last thing that happens, nothing fallible
               (no call into cdd.*) runs once the file has been truncated.
C07.frame    : every mutation of the CST list indexes cst_idx (a def/class header found by
               find_cst_at_ast) or cst_idx + 1; deletion / overwrite at cst_idx + 1 only where that
               node is an existing docstring, insertion only where it is not.
C07.writeset : the AST fields DocTrans assigns are annotations, type comments, returns, bodies (via
               visit) and args.args through an arity-preserving map that copies the names.
C07.header   : a function that re-renders an `ast.arguments` into header text delegates the whole node
               to to_code/ast.unparse or reads ALL parameter-carrying fields.
"""

import ast

from ..core import RefGraph, iter_own, norm, short
from ..effects import Effects
from ..walker import GuardWalker
from ..writes import WriteModel

ARGUMENTS_FIELDS = ("posonlyargs", "args", "vararg", "kwonlyargs", "kw_defaults", "kwarg", "defaults")
ALLOWED_FIELDS = frozenset(("annotation", "type_comment", "returns", "body", "args"))
LIST_MUTATORS = frozenset("insert append extend pop remove clear sort reverse __setitem__ __delitem__".split())


def run(ctx):
    """entry"""
    f = None
    n = None
    ok = None
    q = None
    t = None
    index = ctx.index
    graph = RefGraph(index)
    eff = Effects(index)
    wm = WriteModel(index, graph, eff)
    ctx.explanation = (
        "Position of the single truncating write in doctrans() relative to every call into the package; "
        "index expressions and guard facts of every mutation of the CST list; inventory of AST attribute "
        "stores in the DocTrans transformer; field coverage of functions that turn ast.arguments back into "
        "header text."
    )
    ctx.assumptions += [
        "NOT decided: that the text spliced into a header/docstring node denotes the intended annotation for "
        "every program; comment preservation inside a re-rendered header (value level)",
        "with C09 (concatenation is the identity on untouched nodes) the frame rule gives: every line that is "
        "not a definition header or a docstring is byte-identical",
    ]
    def _sec_write():
        nonlocal ok
        # --------------------------------------------------------------- write
        dt = index.func("cdd.compound.doctrans.doctrans")
        writes = wm.direct.get(dt.qual, [])
        ok = len(writes) == 1
        ctx.ob("C07.write", dt, "exactly one write sink in doctrans()", ok, "" if ok else "{} write sinks".format(len(writes)), line=dt.node.lineno)
        for e in writes:
            w = None
            p = dt.mod.parents.get(e.call)
            while p is not None and p is not dt.node:
                if isinstance(p, ast.With):
                    w = p
                p = dt.mod.parents.get(p)
            ctx.need(w is not None, "the write in doctrans() is no longer a `with open(...)`")
            # nothing after the with-statement, on any path
            tail_ok = True
            child, p = w, dt.mod.parents.get(w)
            while p is not None:
                for fld in ("body", "orelse", "finalbody"):
                    blk = getattr(p, fld, None)
                    if isinstance(blk, list) and child in blk and blk.index(child) != len(blk) - 1:
                        tail_ok = False
                if p is dt.node:
                    break
                child, p = p, dt.mod.parents.get(p)
            ctx.ob("C07.write", dt, "the write is the last statement on its path", tail_ok, "" if tail_ok else "statements follow the truncating write: a failure there leaves a half-converted file", line=w.lineno)
            from ..region import inline_return

            def harmless(c):
                """a one-line helper of the package that only concatenates the nodes' values (what used to be written inline)"""
                e_ = inline_return(index, dt, c)
                return e_ is not None and not any(
                    isinstance(x, ast.Call) and (index.callee(dt.mod, x, dt) or "").startswith("cdd.") for x in ast.walk(e_)
                ) and isinstance(e_, ast.Call) and isinstance(e_.func, ast.Attribute) and e_.func.attr == "join"

            inner = [
                c
                for b in w.body
                for c in ast.walk(b)
                if isinstance(c, ast.Call) and (index.callee(dt.mod, c, dt) or "").startswith("cdd.") and not harmless(c)
            ]
            ctx.ob(
                "C07.write",
                dt,
                "no call into the package once the file is truncated",
                not inner,
                "" if not inner else "`{}` runs after open(filename, 'wt') truncated the file: if it raises, the file is lost".format(short(inner[0], 50)),
                line=w.lineno,
            )
            ex = e.call.args[0] if e.call.args else None
            ok = isinstance(ex, ast.Name) and ex.id == "filename"
            ctx.ob("C07.write", dt, e.call, ok, "" if ok else "the file written is not exactly `filename`")
            # the file is REPLACED by the concatenation of the node texts: a truncating text mode, one write() of that
            # concatenation on the handle and nothing else (no seek / truncate / second write: offsets in a text file
            # are bytes, lengths of str are characters)
            from ..effects import open_mode_arg
            from ..fold import try_fold

            mode = try_fold(open_mode_arg(e.call)) if open_mode_arg(e.call) is not None else "r"
            ok = isinstance(mode, str) and set(mode) <= set("wt") and "w" in mode
            ctx.ob(
                "C07.write",
                dt,
                "open(filename, {!r}) replaces the file".format(mode),
                ok,
                "" if ok else "the file is opened with mode {!r}: the old content is not discarded before the new text is written "
                "(whatever trims the remainder afterwards works in bytes, the text is measured in characters)".format(mode),
                line=e.call.lineno,
            )
            handle = None
            for it in w.items:
                if it.context_expr is e.call and isinstance(it.optional_vars, ast.Name):
                    handle = it.optional_vars.id
            ctx.need(handle is not None, "the write in doctrans() no longer binds the file handle with `as`")
            hcalls = [c for b in w.body for c in ast.walk(b) if isinstance(c, ast.Call) and isinstance(c.func, ast.Attribute) and isinstance(c.func.value, ast.Name) and c.func.value.id == handle]
            ok = len(hcalls) == 1 and hcalls[0].func.attr == "write" and len(hcalls[0].args) == 1
            ctx.ob(
                "C07.write",
                dt,
                "the handle is used for exactly one write()",
                ok,
                "" if ok else "the handle is used for {}: the file is no longer simply replaced by the new text".format([c.func.attr for c in hcalls]),
                line=w.lineno,
            )
            if ok:
                from ..defuse import local_defs

                v = hcalls[0].args[0]
                if isinstance(v, ast.Name):
                    ds = local_defs(dt).get(v.id, [])
                    v = ds[0] if len(ds) == 1 else v
                if inline_return(index, dt, v) is not None:
                    v = inline_return(index, dt, v)
                def values_of_every_node(e):
                    """map(attrgetter('value'), L) / (n.value for n in L) / [n.value for n in L] — every node, in order"""
                    if isinstance(e, ast.Call) and norm(e.func) == "map" and len(e.args) == 2:
                        fn = e.args[0]
                        if isinstance(fn, ast.Call) and norm(fn.func).rpartition(".")[2] == "attrgetter" and len(fn.args) == 1 and isinstance(fn.args[0], ast.Constant) and fn.args[0].value == "value":
                            return True
                        if isinstance(fn, ast.Lambda) and len(fn.args.args) == 1 and norm(fn.body) == fn.args.args[0].arg + ".value":
                            return True
                    if isinstance(e, (ast.GeneratorExp, ast.ListComp)) and len(e.generators) == 1:
                        g = e.generators[0]
                        return not g.ifs and isinstance(g.target, ast.Name) and norm(e.elt) == g.target.id + ".value"
                    return False

                ok2 = (
                    isinstance(v, ast.Call)
                    and isinstance(v.func, ast.Attribute)
                    and v.func.attr == "join"
                    and isinstance(v.func.value, ast.Constant)
                    and v.func.value.value == ""
                    and len(v.args) == 1
                    and values_of_every_node(v.args[0])
                )
                ctx.ob(
                    "C07.write",
                    dt,
                    "what is written is ''.join of the nodes' .value",
                    ok2,
                    "" if ok2 else "the text written is `{}`, not the plain concatenation of the CST nodes' values".format(short(v, 70)),
                    line=hcalls[0].lineno,
                )

    ctx.section(_sec_write)

    def _sec_frame():
        nonlocal f, n, ok, q, t
        # --------------------------------------------------------------- frame
        # the local of maybe_replace_doc_str_in_function_or_class that says "the node after the header is an
        # existing docstring": the one whose definition tests TripleQuoted and is_docstr, whatever it is called
        mr = index.func("cdd.shared.ast_cst_utils.maybe_replace_doc_str_in_function_or_class")
        ed = [
            n
            for n in iter_own(mr.node)
            if isinstance(n, (ast.Assign, ast.AnnAssign))
            and n.value is not None
            and isinstance(n.targets[0] if isinstance(n, ast.Assign) else n.target, ast.Name)
            and "TripleQuoted" in norm(n.value)
            and "isinstance(" in norm(n.value)
        ]
        ctx.need(len(ed) == 1, "the is-an-existing-docstring flag vanished from maybe_replace_doc_str_in_function_or_class")
        flag = norm(ed[0].targets[0] if isinstance(ed[0], ast.Assign) else ed[0].target)
        n_mut = 0
        for q in (
            "cdd.compound.doctrans_utils.doctransify_cst",
            "cdd.shared.ast_cst_utils.maybe_replace_doc_str_in_function_or_class",
            "cdd.shared.ast_cst_utils.maybe_replace_function_return_type",
            "cdd.shared.ast_cst_utils.maybe_replace_function_args",
        ):
            f = index.func(q)
            sa = {}

            def on_stmt(s, facts, _sa=sa):
                _sa[id(s)] = facts

            def on_expr(n, facts, _sa=sa):
                _sa[id(n)] = facts

            GuardWalker(on_stmt=on_stmt, on_expr=on_expr).walk_function(f.node)
            for n in iter_own(f.node):
                idx_expr, kind, site = None, None, None
                if isinstance(n, ast.Assign) and isinstance(n.targets[0], ast.Subscript) and norm(n.targets[0].value) == "cst_list":
                    idx_expr, kind, site = n.targets[0].slice, "overwrite", n
                elif isinstance(n, ast.Delete) and any(isinstance(t, ast.Subscript) and norm(t.value) == "cst_list" for t in n.targets):
                    t = [t for t in n.targets if isinstance(t, ast.Subscript)][0]
                    idx_expr, kind, site = t.slice, "delete", n
                elif isinstance(n, ast.Call) and isinstance(n.func, ast.Attribute) and norm(n.func.value) == "cst_list" and n.func.attr in LIST_MUTATORS:
                    kind, site = n.func.attr, n
                    idx_expr = n.args[0] if n.func.attr in ("insert", "pop") and n.args else None
                if site is None:
                    continue
                n_mut += 1
                itxt = norm(idx_expr) if idx_expr is not None else None
                if itxt not in ("cst_idx", "cst_idx + 1"):
                    ctx.ob("C07.frame", f, site, False, "the CST list is mutated at `{}` ({}): only the definition header (cst_idx) and the node right after it may change".format(itxt, kind))
                    continue
                if kind not in ("overwrite", "delete", "insert"):
                    ctx.ob("C07.frame", f, site, False, "unexpected list mutation `{}` of the CST".format(kind))
                    continue
                facts = sa.get(id(site)) or {}
                if itxt == "cst_idx + 1":
                    doc = facts.get(flag)
                    ok = (doc is True) if kind in ("overwrite", "delete") else (doc is False)
                    ctx.ob(
                        "C07.frame",
                        f,
                        site,
                        ok,
                        ""
                        if ok
                        else "{} of the node after the header is not dominated by the is-an-existing-docstring flag being {}: a statement "
                        "that is not a docstring can be {}".format(kind, kind != "insert", "destroyed" if kind != "insert" else "preceded by a second docstring"),
                    )
                else:
                    ctx.ob("C07.frame", f, site, True)
        ctx.count("cst_list_mutations", n_mut)
        ctx.floor("mutations of the CST list", n_mut, 2)
        v = norm(ed[0].value)
        ok = "isinstance(" in v and "TripleQuoted" in v and "is_docstr" in v and " and " in v
        ctx.ob("C07.frame", mr, ed[0], ok, "" if ok else "the existing-docstring flag must require a TripleQuoted node AND its is_docstr flag")
        # cst_idx provenance in the driver
        dcst = index.func("cdd.compound.doctrans_utils.doctransify_cst")
        # what the driver hands to the helpers' cst_idx / cst_list parameters
        idx_names, list_names = set(), set()
        helper_calls = []
        for n in iter_own(dcst.node):
            callee = index.callee(dcst.mod, n, dcst) if isinstance(n, ast.Call) else None
            if callee and callee.startswith("cdd.shared.ast_cst_utils.maybe_"):
                tf = index.funcs[callee]
                bound = {}
                for i, a in enumerate(n.args):
                    if i < len(tf.params):
                        bound[tf.params[i]] = a
                for k in n.keywords:
                    if k.arg:
                        bound[k.arg] = k.value
                helper_calls.append((n, bound))
                ok = isinstance(bound.get("cst_idx"), ast.Name) and isinstance(bound.get("cst_list"), ast.Name)
                ctx.ob("C07.frame", dcst, "{}(cst_idx=<plain local>, cst_list=<plain local>)".format(tf.node.name), ok, "" if ok else "a maybe_* helper is not handed cst_idx / cst_list unchanged", line=n.lineno)
                if ok:
                    idx_names.add(bound["cst_idx"].id)
                    list_names.add(bound["cst_list"].id)
        ctx.need(helper_calls, "doctransify_cst no longer calls the maybe_* helpers")
        src = [
            n
            for n in iter_own(dcst.node)
            if isinstance(n, ast.Assign) and any(x.id in idx_names for t in n.targets for x in ast.walk(t) if isinstance(x, ast.Name))
        ]
        ok = bool(src) and all(isinstance(n.value, ast.Call) and (index.callee(dcst.mod, n.value, dcst) or "").endswith("find_cst_at_ast") for n in src)
        ctx.ob("C07.frame", dcst, "cst_idx comes from find_cst_at_ast", ok, "" if ok else "cst_idx is computed some other way", line=dcst.node.lineno)

    ctx.section(_sec_frame)

    def _sec_writeset():
        nonlocal f, n, ok, q, t
        # ------------------------------------------------------------ writeset
        cls = "cdd.compound.doctrans_utils.DocTrans"
        ctx.need(cls in index.classes, "DocTrans vanished")
        n_w = 0
        for q, f in sorted(index.funcs.items()):
            if not q.startswith(cls + "."):
                continue
            for n in iter_own(f.node):
                targets = []
                if isinstance(n, (ast.Assign, ast.AugAssign, ast.AnnAssign)):
                    targets = [t for t in (n.targets if isinstance(n, ast.Assign) else [n.target]) if isinstance(t, ast.Attribute)]
                elif isinstance(n, ast.Call) and norm(n.func) == "setattr" and len(n.args) == 3 and isinstance(n.args[1], ast.Constant):
                    targets = [ast.Attribute(value=n.args[0], attr=n.args[1].value, ctx=ast.Store())]
                for t in targets:
                    root = t.value
                    while isinstance(root, ast.Attribute):
                        root = root.value
                    if isinstance(root, ast.Name) and root.id == "self":
                        continue  # transformer configuration, not the program
                    n_w += 1
                    chain = norm(t)
                    field = t.attr
                    ok = field in ALLOWED_FIELDS
                    why = ""
                    if chain.endswith(".args.args") or field == "args":
                        # arity-preserving map over the same list that copies the names
                        val = n.value if isinstance(n, ast.Assign) else None
                        vt = " ".join(norm(val).split()) if val is not None else ""
                        from .c02 import elementwise, elementwise_loop

                        ew = elementwise(val) if val is not None else None
                        if ew is None and isinstance(val, ast.Name):
                            # the loop spelling: `new = []; for a in node.args.args: new.append(...)`; node.args.args = new
                            ew = elementwise_loop(f, val.id)
                        # one new arg per old arg, in order: an element-wise build over node.args.args without a filter
                        ok = ew is not None and norm(ew[0]) == "node.args.args" and not ew[3] and "filter(" not in vt
                        why = "args.args must be rebuilt by an arity-preserving map over node.args.args"
                    if not ok and not why:
                        why = "DocTrans assigns `{}`: only annotations, type comments, returns and visited bodies may change".format(chain)
                    ctx.ob("C07.writeset", f, n, ok, "" if ok else why)
        ctx.count("doctrans_ast_field_stores", n_w)
        ctx.floor("AST field stores in DocTrans", n_w, 4)
        if not any(q == cls + ".visit_AsyncFunctionDef" for q in index.funcs):
            ctx.note("DocTrans has no visit_AsyncFunctionDef: async functions are left untouched (program unchanged, docstrings not converted)")

    ctx.section(_sec_writeset)

    def _sec_header():
        nonlocal f, ok
        # -------------------------------------------------------------- header
        n_h = 0
        from ..core import RefGraph

        graph_h = RefGraph(index)
        for f in index.nontest_funcs():
            if f.mod.name != "cdd.shared.ast_cst_utils":
                continue
            builds = [
                n
                for n in iter_own(f.node)
                if isinstance(n, ast.Call) and norm(n.func) == "FunctionDefinitionStart"
            ]
            if not builds:
                continue
            # does it render parameters from an arguments object itself? (reads `.arg` of elements) — in its own
            # body or in a private helper it calls / maps over the arguments
            from ..region import Region

            own = [n for _g, n in Region(index, graph_h, f, allow_passed=True).nodes()]
            renders = any(isinstance(n, ast.Attribute) and n.attr == "arg" for n in own)
            if not renders:
                continue
            n_h += 1
            read = {n.attr for n in own if isinstance(n, ast.Attribute) and n.attr in ARGUMENTS_FIELDS}
            read |= {c for n in own if isinstance(n, ast.Constant) and isinstance(n.value, str) for c in ARGUMENTS_FIELDS if c in n.value.split(".")}
            delegates = any(
                isinstance(n, ast.Call) and norm(n.func) in ("to_code", "ast.unparse", "unparse") and n.args and norm(n.args[0]).endswith(".args")
                for n in own
            )
            missing = [x for x in ARGUMENTS_FIELDS if x not in read]
            ok = delegates or not missing
            ctx.ob(
                "C07.header",
                f,
                "{} re-renders the parameter list".format(f.short),
                ok,
                ""
                if ok
                else "the header is rebuilt from args.args names and annotations only; {} are never read: `def f(a=1, *r, "
                "k=2, **kw)` loses its defaults, *r, the keyword-only marker and **kw whenever an annotation "
                "changes".format(missing),
                line=f.node.lineno,
            )
        ctx.count("header_rendering_functions", n_h)
        ctx.floor("functions re-rendering a def header", n_h, 1)

    ctx.section(_sec_header)
    from . import c10 as _c10_state

    ctx.section(_c10_state.state_slice, ctx, 'C07.state', ['cdd.compound.doctrans.doctrans'], 5)

