"""
C17 — analysing source never executes it or touches anything but the output.

C17.exec    : complete inventory of execution / import / spawn / network / deserialisation sinks in
              non-test code; each one is a closed constant, a `cdd.<kind>.{parse,emit}` dispatch,
              dominated by its explicit opt-in guard, character-bounded (the doc-derived eval), or
              a delegating helper whose callers are a frozen, individually justified table.
C17.reach   : parsers, AST emitters, doctrans and sync reach only the justified sinks.
C17.charset : the alphabet of the doc-derived string handed to eval excludes ( ) _ = : @ { } \\.
C17.write   : parsers and AST emitters reach no write sink; commands write only paths rooted at
              their output-file parameters; input files are opened read-only.
"""

import ast

from ..charset import TOP, CharsetInterp, show
from ..core import RefGraph, iter_own, short
from ..defuse import param_roots
from ..effects import OPEN_NAMES, Effects, open_mode_arg
from ..walker import GuardWalker
from ..writes import WriteModel

PARSERS = [
    "cdd.docstring.parse.docstring",
    "cdd.shared.docstring_parsers.parse_docstring",
    "cdd.class_.parse.class_",
    "cdd.function.parse.function",
    "cdd.argparse_function.parse.argparse_ast",
    "cdd.json_schema.parse.json_schema",
    "cdd.sqlalchemy.parse.sqlalchemy",
    "cdd.sqlalchemy.parse.sqlalchemy_table",
    "cdd.sqlalchemy.parse.sqlalchemy_hybrid",
    "cdd.routes.parse.bottle.bottle",
    "cdd.compound.openapi.parse.openapi",
]
EMITTERS = [
    "cdd.docstring.emit.docstring",
    "cdd.class_.emit.class_",
    "cdd.function.emit.function",
    "cdd.argparse_function.emit.argparse_function",
    "cdd.json_schema.emit.json_schema",
    "cdd.sqlalchemy.emit.sqlalchemy",
    "cdd.sqlalchemy.emit.sqlalchemy_table",
    "cdd.sqlalchemy.emit.sqlalchemy_hybrid",
    "cdd.compound.openapi.emit.openapi",
    "cdd.routes.emit.bottle.create",
    "cdd.routes.emit.bottle.read",
    "cdd.routes.emit.bottle.destroy",
]
# command -> {parameter names that name an output file by contract}
COMMANDS = {
    "cdd.compound.doctrans.doctrans": {"filename"},
    "cdd.shared.conformance.ground_truth": {"args"},
    "cdd.compound.sync_properties.sync_properties": {"output_filename"},
    "cdd.compound.gen.gen": {"output_filename"},
    "cdd.compound.openapi.gen_routes.upsert_routes": {"routes_path"},
    "cdd.compound.openapi.gen_routes.gen_routes": set(),
    "cdd.compound.openapi.gen_openapi.openapi_bulk": set(),
    "cdd.json_schema.emit.json_schema_file": {"output_filename"},
}
# parameters that name a file to be written, per function containing a primitive write
OUTPUT_PARAMS = {
    "cdd.compound.doctrans.doctrans": {"filename"},
    "cdd.compound.gen_utils.gen_file": {"output_filename"},
    "cdd.json_schema.emit.json_schema_file": {"output_filename"},
    "cdd.compound.openapi.gen_routes.upsert_routes": {"routes_path"},
    "cdd.sqlalchemy.utils.emit_utils.update_with_imports_from_columns": {"filename"},
    "cdd.sqlalchemy.utils.emit_utils.update_fk_for_file": {"filename"},
    "cdd.shared.emit.file.file": {"filename"},
    "cdd.shared.conformance._conform_filename": {"filename"},
    "cdd.compound.sync_properties.sync_properties": {"output_filename"},
    "cdd.compound.gen.gen": {"output_filename"},
}
INPUT_PARAMS = frozenset(
    "input_filename truth_file input_mapping imports_from_file model_path module module_path".split()
)

# (function, sink) -> justification kind
JUSTIFIED = {
    (
        "cdd.shared.docstring_parsers.__set_name_and_type_handle_doc_in_param",
        "builtins.eval",
    ): "charset",
    ("cdd.compound.gen.gen", "builtins.eval"): "guard:prepend",
    ("cdd.compound.gen.gen", "builtins.compile"): "guard:prepend",
    ("cdd.compound.sync_properties.sync_property", "builtins.eval"): "guard:input_eval",
    ("cdd.compound.sync_properties.sync_property", "builtins.compile"): "guard:input_eval",
    ("cdd.shared.pure_utils.get_module", "importlib.import_module"): "delegate:name",
    ("cdd.shared.pure_utils.find_module_filepath", "importlib.util.find_spec"): "delegate:module_name",
    (
        "cdd.shared.pure_utils.filename_from_mod_or_filename",
        "importlib.util.find_spec",
    ): "delegate:mod_or_filename",
    ("cdd.shared.emit.utils.emitter_utils.get_emitter", "importlib.import_module"): "dispatch:emit",
    ("cdd.shared.parse.utils.parser_utils.get_parser", "importlib.import_module"): "dispatch:parse",
}
# who may call the delegating helpers: (caller, helper) -> (class, expected parameter roots, reason)
#   explicit = the name is what the user asked to import on the command line
#   exmod    = exmod's job is to resolve the analysed package (outside this property's entry list)
#   source   = the name comes out of the analysed source text
DELEGATES = {
    "cdd.shared.pure_utils.get_module",
    "cdd.shared.pure_utils.find_module_filepath",
    "cdd.shared.pure_utils.filename_from_mod_or_filename",
    "cdd.shared.ast_utils.module_to_all",
}
DELEGATE_CALLERS = {
    ("cdd.compound.gen.gen", "cdd.shared.pure_utils.get_module"): (
        "explicit",
        {"input_mapping", "imports_from_file", "emit_name", "parse_name"},
        "--input-mapping / --imports-from-file name a module to import (emit/parse kinds are CLI enums)",
    ),
    ("cdd.compound.gen_utils.get_input_mapping_from_path", "cdd.shared.pure_utils.find_module_filepath"): (
        "explicit",
        {"module_path", "symbol_name"},
        "halves of --input-mapping",
    ),
    ("cdd.compound.openapi.gen_routes.gen_routes", "cdd.shared.pure_utils.filename_from_mod_or_filename"): (
        "explicit",
        {"model_path"},
        "--model-path",
    ),
    ("cdd.compound.openapi.gen_routes.upsert_routes", "cdd.shared.pure_utils.filename_from_mod_or_filename"): (
        "explicit",
        {"routes_path"},
        "--routes-path",
    ),
    ("cdd.shared.ast_utils.module_to_all", "cdd.shared.pure_utils.find_module_filepath"): (
        "explicit",
        {"module_or_filepath"},
        "delegates further; callers below",
    ),
    ("cdd.compound.exmod.exmod", "cdd.shared.pure_utils.find_module_filepath"): (
        "exmod",
        {"module"},
        "--module",
    ),
    ("cdd.compound.exmod.exmod", "cdd.shared.ast_utils.module_to_all"): (
        "exmod",
        {"extra_modules"},
        "--extra-modules",
    ),
    ("cdd.compound.exmod._create_sqlalchemy_mod", "cdd.shared.ast_utils.module_to_all"): (
        "exmod",
        {"sqlalchemy_mod_dir_join"},
        "file paths just written by exmod itself (path.exists short-circuits find_spec)",
    ),
    ("cdd.compound.exmod.exmod_single_folder", "cdd.shared.pure_utils.find_module_filepath"): (
        "exmod",
        {"module_root_dir"},
        "ImportFrom names of the analysed package's __init__ (exmod resolves the package it exposes)",
    ),
    ("cdd.compound.exmod_utils.get_module_contents", "cdd.shared.pure_utils.find_module_filepath"): (
        "exmod",
        {"module_root_dir"},
        "ImportFrom names of the analysed module (exmod only)",
    ),
    (
        "cdd.sqlalchemy.utils.emit_utils.rewrite_fk.rewrite_fk_from_import",
        "cdd.shared.pure_utils.find_module_filepath",
    ): (
        "source",
        {"symbol_to_module", "column_name"},
        "module names taken from `from X import Y` lines of the analysed file (gen --phase 2)",
    ),
}
FORBIDDEN_CHARS = frozenset("()_=:@{}\\")
PY_CONSTS = frozenset(
    "PY3_8 PY_GTE_3_8 PY_GTE_3_9 PY_GTE_3_10 PY_GTE_3_11 PY_GTE_3_12 version_info".split()
)


def closed_constant(e):
    """expression built only from constants, version flags and pure operators"""
    for n in ast.walk(e):
        if isinstance(n, ast.Name):
            if n.id not in PY_CONSTS:
                return False
        elif isinstance(n, ast.Call):
            return False
        elif isinstance(n, (ast.Attribute, ast.Lambda, ast.Starred)):
            return False
    return True


def closed_constant_name(e, site):
    """
    a bare name every binding of which — in the function (or module body) the sink sits in — is an assignment from a
    closed constant, tuple unpacking included: `m, f = ("astor", "to_source") if version_info[:2] < (3, 9) else ("ast", "unparse")`
    """
    if not isinstance(e, ast.Name):
        return False
    scope = site.func.node if site.func is not None else site.mod.tree
    own = iter_own(scope) if site.func is not None else _module_level(scope)
    n_binds = 0
    for st in own:
        if isinstance(st, (ast.Assign, ast.AnnAssign, ast.AugAssign, ast.NamedExpr, ast.For, ast.comprehension, ast.withitem, ast.Import, ast.ImportFrom, ast.ExceptHandler, ast.FunctionDef, ast.ClassDef, ast.Global, ast.Nonlocal)):
            if isinstance(st, ast.Assign):
                names = {x.id for t in st.targets for x in ast.walk(t) if isinstance(x, ast.Name)}
                if e.id in names:
                    if not closed_constant(st.value):
                        return False
                    n_binds += 1
            else:
                bound = set()
                for fld in ("target", "optional_vars"):
                    t = getattr(st, fld, None)
                    if t is not None:
                        bound |= {x.id for x in ast.walk(t) if isinstance(x, ast.Name)}
                if isinstance(st, (ast.Import, ast.ImportFrom)):
                    bound |= {(a.asname or a.name).partition(".")[0] for a in st.names}
                if isinstance(st, (ast.FunctionDef, ast.ClassDef)):
                    bound.add(st.name)
                if isinstance(st, ast.ExceptHandler) and st.name:
                    bound.add(st.name)
                if isinstance(st, (ast.Global, ast.Nonlocal)):
                    bound |= set(st.names)
                if e.id in bound:
                    return False
    if site.func is not None and e.id in site.func.params:
        return False
    return n_binds > 0


def _module_level(tree):
    """nodes of a module body that run at import time (function and class bodies left out, their headers kept)"""
    stack = list(tree.body)
    while stack:
        n = stack.pop()
        yield n
        if isinstance(n, (ast.FunctionDef, ast.AsyncFunctionDef, ast.Lambda)):
            continue
        stack.extend(ast.iter_child_nodes(n))


def is_dispatch(e, leaf):
    """`".".join(("cdd", <kind expr>, "<leaf>"))`"""
    if not (
        isinstance(e, ast.Call)
        and isinstance(e.func, ast.Attribute)
        and e.func.attr == "join"
        and isinstance(e.func.value, ast.Constant)
        and e.func.value.value == "."
        and len(e.args) == 1
        and isinstance(e.args[0], ast.Tuple)
    ):
        return False
    elts = e.args[0].elts
    return (
        len(elts) == 3
        and isinstance(elts[0], ast.Constant)
        and elts[0].value == "cdd"
        and isinstance(elts[2], ast.Constant)
        and elts[2].value == leaf
    )


def _only_constant_callers(index, graph, e, closed_constant):
    """
    the import sink's argument is a bare parameter of a helper, and every reference to that helper anywhere in
    the package — inside functions or at module level — is a direct call that passes a closed constant for it
    """
    h = e.func
    arg = e.call.args[0] if e.call.args else None
    if h is None or not isinstance(arg, ast.Name) or arg.id not in h.params or h.outer is not None:
        return False
    pos = h.params.index(arg.id)
    n_calls = 0
    for m in index.modules.values():
        if m.is_test:
            continue
        for n in ast.walk(m.tree):
            if not (isinstance(n, (ast.Name, ast.Attribute)) and isinstance(getattr(n, "ctx", None), ast.Load)):
                continue
            par = m.parents.get(n)
            if isinstance(par, ast.Attribute) and par.value is n:
                continue
            # resolve in the innermost enclosing function, if any
            fn = None
            up = par
            while up is not None:
                if isinstance(up, (ast.FunctionDef, ast.AsyncFunctionDef)):
                    fn = next((g for g in index.funcs.values() if g.node is up), None)
                    break
                up = m.parents.get(up)
            if index.resolve(m, n, fn) != h.qual:
                continue
            if not (isinstance(par, ast.Call) and par.func is n):
                return False
            a = par.args[pos] if pos < len(par.args) else next((k.value for k in par.keywords if k.arg == arg.id), None)
            if a is None or not closed_constant(a):
                return False
            n_calls += 1
    return n_calls > 0


def run(ctx):
    """entry"""
    arg = None
    bad = None
    call = None
    e = None
    f = None
    key = None
    msg = None
    ok = None
    p = None
    q = None
    roots = None
    index = ctx.index
    graph = RefGraph(index)
    eff = Effects(index)
    wm = WriteModel(index, graph, eff)
    ctx.explanation = (
        "Complete inventory of EXEC sinks (eval/exec/compile/__import__/import_module/find_spec/"
        "pickle/yaml.load/os.system/subprocess/socket/urllib/...) over all non-test code, each "
        "discharged by one of: closed constant argument, cdd.<kind>.{parse,emit} dispatch shape, "
        "dominance by its opt-in guard, character-set bound, or delegation to a frozen who-may-call "
        "table; reachability of sinks from every parser / emitter / command over the reference graph; "
        "character-set abstract interpretation of parse_adhoc_doc_for_typ and helpers; write-sink "
        "reachability and path-root parameters."
    )
    ctx.assumptions += [
        "third-party callees (black.format_str, yaml.safe_load, json) are not analysed",
        "an expression over the bounded alphabet (names, digits, quotes, . / | [ ] , ; whitespace) "
        "cannot call, reach a dunder, bind or interpolate: it can only look up names / attributes / "
        "subscripts in docstring_parsers' namespace",
        "the sink inventory of sa/effects.py defines execution / spawn / network / write",
        "exmod is outside this property's entry list (it resolves the package it is asked to expose)",
    ]
    for q in PARSERS + EMITTERS + list(COMMANDS):
        index.func(q)
    exec_sites = [e for e in eff.sites if e.kind == "EXEC"]
    ctx.count("exec_sinks", len(exec_sites))
    ctx.count("write_sinks", len([e for e in eff.sites if e.kind == "FSWRITE"]))
    ctx.floor("EXEC sinks in non-test code", len(exec_sites), 12)
    charset_ok = _charset(ctx)
    def _sec_c17_exec():
        nonlocal arg, e, key, msg, ok, p, roots
        # ------------------------------------------------------------- C17.exec
        facts_cache = {}

        def facts_at(f, node):
            if f.qual not in facts_cache:
                fa = {}

                def on_expr(n, facts, _fa=fa):
                    _fa[id(n)] = facts

                GuardWalker(on_expr=on_expr).walk_function(f.node)
                facts_cache[f.qual] = fa
            return facts_cache[f.qual].get(id(node))

        justified_sites = set()
        from ..region import Facts, Region

        ctx_facts = Facts(index, graph)
        regions = {}
        present = set()

        def justification(e):
            """the table entry for this sink: its own function's, or — when the sink was extracted into a private helper
            that only the justified function calls — that function's guard entry"""
            fq_ = e.func.qual if e.func is not None else None
            j = JUSTIFIED.get((fq_, e.callee))
            if j is not None:
                present.add((fq_, e.callee))
                return j, e.func
            if e.func is None:
                return None, None
            for (gq, cal), j in JUSTIFIED.items():
                if cal != e.callee or not j.startswith("guard:") or gq not in index.funcs:
                    continue
                if gq not in regions:
                    regions[gq] = Region(index, graph, index.funcs[gq])
                if e.func in regions[gq].funcs[1:]:
                    present.add((gq, cal))
                    return j, index.funcs[gq]
            return None, None

        for e in exec_sites:
            where = e.where()
            arg = e.call.args[0] if e.call.args else None
            fq = e.func.qual if e.func is not None else None
            just, owner = justification(e)
            ok, msg = False, ""
            if e.sub == "import" and arg is not None and closed_constant(arg):
                ok = True
                kind = "constant"
            elif e.sub == "import" and arg is not None and closed_constant_name(arg, e):
                ok = True
                kind = "constant (a name bound only to closed constants where the sink sits)"
            elif e.sub == "import" and just is None and _only_constant_callers(index, graph, e, closed_constant):
                ok = True
                kind = "constant (bare parameter of a private helper that is only ever called with closed constants)"
            elif just is None:
                kind = "unlisted"
                msg = (
                    "new execution/import sink {}({}) outside the justified inventory".format(
                        e.callee, short(arg, 50)
                    )
                )
            elif just == "charset":
                kind = just
                # the argument must be the (only) result of parse_adhoc_doc_for_typ
                roots_ok = False
                if isinstance(arg, ast.Name):
                    from ..defuse import local_defs

                    defs = local_defs(e.func).get(arg.id, [])
                    roots_ok = bool(defs) and all(
                        isinstance(d, ast.Call)
                        and index.callee(e.func.mod, d, e.func)
                        == "cdd.docstring.utils.parse_utils.parse_adhoc_doc_for_typ"
                        for d in defs
                    )
                ok = roots_ok and charset_ok
                if not roots_ok:
                    msg = "eval argument is no longer exactly the result of parse_adhoc_doc_for_typ"
                elif not charset_ok:
                    msg = "the doc-derived eval argument is not character-bounded (see C17.charset)"
            elif just.startswith("guard:"):
                kind = just
                g = just.split(":")[1]
                facts = ctx_facts.at(e.func, e.call) or {}
                ok = facts.get(g) is True
                if not ok:
                    msg = "{} is no longer dominated by the explicit opt-in `{}`".format(e.callee, g)
                if ok and g == "prepend":
                    # the compiled text is built from Import/ImportFrom nodes of the prepend string only
                    if e.func is owner:
                        roots = param_roots(e.func, e.call)
                    else:
                        roots = set()
                        for caller_, call_ in regions[owner.qual].callsites.get(e.func.qual, ()):
                            for a_ in list(call_.args) + [k_.value for k_ in call_.keywords]:
                                roots |= param_roots(caller_, a_)
                    ok = "prepend" in roots and not (roots & {"input_mapping", "output_filename"})
                    if not ok:
                        msg = "eval in gen depends on {} rather than on --prepend only".format(sorted(roots))
            elif just.startswith("delegate:"):
                kind = just
                p = just.split(":")[1]
                ok = isinstance(arg, ast.Name) and arg.id == p and p in e.func.params
                if not ok:
                    msg = "argument of {} is no longer the bare parameter `{}`".format(e.callee, p)
            elif just.startswith("dispatch:"):
                kind = just
                ok = arg is not None and is_dispatch(arg, just.split(":")[1])
                if not ok:
                    msg = "import_module argument no longer has the shape '.'.join(('cdd', kind, '{}'))".format(
                        just.split(":")[1]
                    )
            else:  # pragma: no cover
                kind = just
            if ok:
                justified_sites.add(id(e.call))
            ctx.ob("C17.exec", where, e.call, ok, msg or kind)
        # table entries must still exist
        for key in JUSTIFIED:
            ctx.need(key in present, "justified sink vanished (table out of date): {}".format(key))

    ctx.section(_sec_c17_exec)

    def _sec_who_may_call_delegates():
        nonlocal call, f, key, roots
        # ------------------------------------------------- who may call delegates
        n_del = 0
        seen_pairs = set()
        del_regions = {}
        from ..region import Region

        def roots_in(owner_f, g, node, depth=3):
            """parameters of owner_f that `node` (inside g, a private helper of owner_f's region, or owner_f) depends on"""
            got_ = param_roots(g, node)
            if g is owner_f:
                return got_
            if depth <= 0:
                return {"?"}
            out_ = set()
            for caller_, call_ in del_regions[owner_f.qual].callsites.get(g.qual, ()):
                for p_ in got_:
                    bound_ = None
                    if p_ in g.params and g.params.index(p_) < len(call_.args):
                        bound_ = call_.args[g.params.index(p_)]
                    for k_ in call_.keywords:
                        if k_.arg == p_:
                            bound_ = k_.value
                    if bound_ is None:
                        continue  # default value of the helper's parameter: a constant, no root
                    out_ |= roots_in(owner_f, caller_, bound_, depth - 1)
            return out_
        for f in index.nontest_funcs():
            for helper in sorted(DELEGATES):
                for node in graph.sites.get((f.qual, helper), []):
                    if f.qual == helper:
                        continue
                    par = f.mod.parents.get(node)
                    n_del += 1
                    key = (f.qual, helper)
                    seen_pairs.add(key)
                    ent = DELEGATE_CALLERS.get(key)
                    owner_f = f
                    if ent is None:
                        # the call was extracted into a private helper that only a listed caller uses: that entry
                        # applies, with the helper's parameters traced back to the listed caller's
                        for (oq, hq), ent_ in sorted(DELEGATE_CALLERS.items()):
                            if hq != helper or oq not in index.funcs:
                                continue
                            if oq not in del_regions:
                                del_regions[oq] = Region(index, graph, index.funcs[oq])
                            if f in del_regions[oq].funcs[1:]:
                                ent, owner_f, key = ent_, index.funcs[oq], (oq, hq)
                                seen_pairs.add(key)
                                break
                    if ent is None:
                        ctx.ob(
                            "C17.exec",
                            f,
                            par if isinstance(par, ast.Call) else node,
                            False,
                            "new caller of the importing helper {}: needs review (is the name explicit "
                            "user input or taken from analysed source?)".format(helper),
                        )
                        continue
                    cls, roots, reason = ent
                    call = par if isinstance(par, ast.Call) and par.func is node else None
                    got = param_roots(f, ast.Tuple(elts=list(call.args) + [k.value for k in call.keywords if k.arg not in ("extra_symbols", "none_when_no_spec")], ctx=ast.Load())) if call is not None else set()
                    if call is not None:
                        # re-run on the original nodes so that lambda scoping is visible
                        got = set()
                        for a in list(call.args) + [k.value for k in call.keywords if k.arg not in ("extra_symbols", "none_when_no_spec")]:
                            got |= roots_in(owner_f, f, a)
                    shape_ok = call is not None and got <= roots and bool(got)
                    if not shape_ok:
                        ctx.ob(
                            "C17.exec",
                            f,
                            par if isinstance(par, ast.Call) else node,
                            False,
                            "argument of {} now depends on {} (confirmed: {})".format(
                                helper, sorted(got), sorted(roots)
                            ),
                        )
                        continue
                    if cls == "source":
                        reach_from = [
                            c for c in COMMANDS if f.qual in graph.reachable([c])
                        ]
                        ctx.ob(
                            "C17.exec",
                            f,
                            "a module name taken from the analysed source is handed to {}".format(helper.rpartition(".")[2]),
                            False,
                            "a module name taken from the analysed source reaches {} -> find_spec, which "
                            "imports the parent package(s) of a dotted name ({}); reachable from {}".format(
                                helper, reason, reach_from
                            ),
                        )
                    else:
                        ctx.ob("C17.exec", f, call, True, "{}: {}".format(cls, reason))
        for key in DELEGATE_CALLERS:
            ctx.need(key in seen_pairs, "who-may-call table entry vanished: {}".format(key))
        ctx.count("delegate_call_sites", n_del)

    ctx.section(_sec_who_may_call_delegates)

    def _sec_c17_reach():
        nonlocal arg, bad, e, f, key, ok, q
        # ------------------------------------------------------------ C17.reach
        allowed_for_pure = {
            ("cdd.shared.docstring_parsers.__set_name_and_type_handle_doc_in_param", "builtins.eval"),
        }
        pure_entries = PARSERS + EMITTERS + [
            "cdd.compound.doctrans.doctrans",
            "cdd.shared.conformance.ground_truth",
        ]
        from ..region import Region

        sp_region = Region(index, graph, index.func("cdd.compound.sync_properties.sync_property"))
        for q in pure_entries + ["cdd.compound.sync_properties.sync_properties"]:
            r = graph.reachable([q])
            bad = []
            for e in exec_sites:
                if e.func is None or e.func.qual not in r:
                    continue
                key = (e.func.qual, e.callee)
                arg = e.call.args[0] if e.call.args else None
                if e.sub == "import" and arg is not None and closed_constant(arg):
                    continue
                if key in allowed_for_pure:
                    continue
                if q.endswith("sync_properties") and e.func in sp_region.funcs:
                    continue  # the opt-in --input-eval sink (checked for its guard in C17.exec), possibly in a private helper
                bad.append(e)
            ok = not bad
            f = index.funcs[q]
            ctx.ob(
                "C17.reach",
                f,
                "EXEC sinks reachable from " + f.short,
                ok,
                ""
                if ok
                else "entry point reaches {} via {}".format(
                    [(b.func.qual, b.callee) for b in bad][:3],
                    " -> ".join(graph.path(q, bad[0].func.qual) or []),
                ),
                line=f.node.lineno,
            )

    ctx.section(_sec_c17_reach)

    def _sec_c17_write():
        nonlocal bad, call, e, f, msg, ok, p, q, roots
        # ------------------------------------------------------------ C17.write
        for q in PARSERS + EMITTERS:
            f = index.funcs[q]
            ok = q not in wm.may
            ctx.ob(
                "C17.write",
                f,
                "write sinks reachable from " + f.short,
                ok,
                "" if ok else "a parser/emitter may write: {}".format(" -> ".join(wm.path(q))),
                line=f.node.lineno,
            )
        cmd_reach = set()
        for q in COMMANDS:
            cmd_reach |= graph.reachable([q])
        n_w = 0
        for q in sorted(cmd_reach):
            f = index.funcs.get(q)
            if f is None or f.mod.is_test:
                continue
            sites = [(e.call, e.callee + ":" + e.sub) for e in wm.direct.get(q, ())]
            sites += [(n, "wrapper " + w) for n, w, mode in wm.wrapper_write_sites.get(q, ()) if isinstance(n, ast.Call)]
            # the wrappers themselves (open(filename, mode)) are checked at their call sites
            for call, what in sites:
                n_w += 1
                p = _path_arg(index, wm, f, call, what)
                if p is None:
                    ctx.need(False, "cannot find the path argument of {}".format(short(call)))
                roots = param_roots(f, p)
                allowed = OUTPUT_PARAMS.get(q)
                if allowed is None:
                    # a private helper of a designated writer: the path must be exactly one of the helper's parameters,
                    # bound at every call site to exactly the writer's output parameter
                    from ..region import Region

                    via = None
                    ex_h = exact_param(index, f, p)
                    for wq, wallowed in OUTPUT_PARAMS.items():
                        g = index.funcs.get(wq)
                        if g is None or ex_h is None or ex_h not in f.params:
                            continue
                        reg = Region(index, graph, g)
                        if f not in reg.funcs[1:]:
                            continue
                        pos = f.params.index(ex_h)
                        good = True
                        for caller, cs in reg.callsites.get(f.qual, ()):
                            a = cs.args[pos] if pos < len(cs.args) else next((k.value for k in cs.keywords if k.arg == ex_h), None)
                            exc = exact_param(index, caller, a) if a is not None else None
                            callowed = OUTPUT_PARAMS.get(caller.qual, wallowed if caller is g else set())
                            if exc is None or exc not in callowed:
                                good = False
                        if good and reg.callsites.get(f.qual):
                            via = wq
                            break
                    if via is not None:
                        ctx.ob("C17.write", f, call, True, "private helper of the designated writer {}".format(via))
                        continue
                    ctx.ob(
                        "C17.write",
                        f,
                        call,
                        False,
                        "write sink in a function that is not a designated output writer "
                        "(path depends on {})".format(sorted(roots)),
                    )
                    continue
                ok = bool(roots) and roots <= allowed
                msg = ""
                if not ok:
                    msg = "written path depends on {} — only {} name the output file".format(
                        sorted(roots), sorted(allowed)
                    )
                else:
                    ex = exact_param(index, f, p)
                    if ex is None or ex not in allowed:
                        ok = False
                        msg = (
                            "the file written is `{}`, not exactly the named output ({}): a second file is "
                            "created/modified".format(short(p, 60), sorted(allowed))
                        )
                ctx.ob("C17.write", f, call, ok, msg)
        ctx.count("command_write_sites", n_w)
        ctx.floor("command write sites", n_w, 5)
        # input files are opened read-only: every open() whose path depends on an input parameter
        for q in sorted(cmd_reach):
            f = index.funcs.get(q)
            if f is None or f.mod.is_test:
                continue
            for e in eff.by_func.get(q, ()):
                if e.kind == "FSWRITE" and e.callee in OPEN_NAMES and e.call.args:
                    roots = param_roots(f, e.call.args[0])
                    bad = roots & INPUT_PARAMS
                    if bad:
                        ctx.ob(
                            "C17.write",
                            f,
                            e.call,
                            False,
                            "file derived from input parameter {} opened with mode {}".format(
                                sorted(bad), short(open_mode_arg(e.call), 20)
                            ),
                        )

    ctx.section(_sec_c17_write)
    def _sec_state():
        # "no name taken from the analysed source is imported": whether a location is a file (parsed) or a module name
        # (imported, the opt-in path) is decided by looking at the file system NOW. A memoised answer (`lru_cache` on the
        # probe) is stale after the file has been written: the next command in the process imports the analysed file.
        # C10's memoisation rule on everything reachable from the commands (the module-state part of that rule set is
        # C10's own known finding for gen and is not repeated here).
        from ..core import RefGraph as _RG
        from . import c10 as _c10_state

        roots_ = ["cdd.compound.gen.gen", "cdd.compound.doctrans.doctrans", "cdd.docstring.parse.docstring", "cdd.__main__.main"]
        for r_ in roots_:
            index.func(r_)
        reach_ = _RG(index).reachable(roots_)
        ctx.count("state_functions", len(reach_))
        ctx.need(len(reach_) >= 20, "the command slice shrank to {} functions".format(len(reach_)))
        _c10_state._memoised(ctx.view(lambda w: getattr(w, "qual", None) in reach_, rule="C17.state", prefix="state_"))

    ctx.section(_sec_state)



NORMALISERS = frozenset(
    (
        "os.path.realpath os.path.expanduser os.path.abspath os.path.normpath os.path.normcase "
        "os.fspath builtins.str cdd.shared.pure_utils.filename_from_mod_or_filename"
    ).split()
)


def exact_param(index, f, e, depth=0):
    """
    the parameter of f that `e` denotes *exactly* (modulo path normalisers and re-binding
    `p = normalise(p)`), or None when e is any other function of its inputs
    """
    from ..defuse import local_defs

    if depth > 6:
        return None
    if isinstance(e, ast.Name):
        defs = local_defs(f).get(e.id, [])
        if not defs:
            return e.id if e.id in f.params else None
        got = set()
        for d in defs:
            if isinstance(d, ast.Name) and d.id == e.id:
                continue
            # p = normalise(p): look through, but do not loop on ourselves
            r = exact_param_nodef(index, f, d, e.id, depth + 1)
            got.add(r)
        if e.id in f.params:
            got.add(e.id)
        return got.pop() if len(got) == 1 and None not in got else None
    if isinstance(e, ast.Call) and index.callee(f.mod, e, f) in NORMALISERS and len(e.args) == 1:
        return exact_param(index, f, e.args[0], depth + 1)
    return None


def exact_param_nodef(index, f, e, self_name, depth):
    """like exact_param, but a reference to `self_name` stands for the parameter itself"""
    if isinstance(e, ast.Name) and e.id == self_name:
        return self_name if self_name in f.params else None
    if isinstance(e, ast.Call) and index.callee(f.mod, e, f) in NORMALISERS and len(e.args) == 1:
        return exact_param_nodef(index, f, e.args[0], self_name, depth + 1)
    return exact_param(index, f, e, depth)


def _path_arg(index, wm, f, call, what):
    if what.startswith("wrapper "):
        wq = what.split(" ", 1)[1]
        tf = index.funcs[wq]
        pname = None
        from ..core import iter_own

        for n in iter_own(tf.node):
            if isinstance(n, ast.Call) and index.callee(tf.mod, n, tf) in OPEN_NAMES and n.args:
                if isinstance(n.args[0], ast.Name):
                    pname = n.args[0].id
        if pname is None:
            return None
        for k in call.keywords:
            if k.arg == pname:
                return k.value
        pos = tf.params.index(pname)
        return call.args[pos] if len(call.args) > pos else None
    if call.args:
        return call.args[0]
    for k in call.keywords:
        if k.arg in ("file", "name", "path"):
            return k.value
    return None


def _charset(ctx):
    """C17.charset; returns True when the eval argument is bounded away from FORBIDDEN_CHARS"""
    index = ctx.index
    m = "cdd.docstring.utils.parse_utils."
    names = (
        "parse_adhoc_doc_for_typ",
        "_parse_adhoc_doc_for_typ_phase0",
        "_parse_adhoc_doc_for_typ_phase1",
        "_union_literal_from_sentence",
        "_union_literal_from_sentence_phase0",
    )
    entry = index.func(m + names[0])
    # the analysed set = everything in that module reachable from the entry
    mod_funcs = [f for f in index.funcs.values() if f.mod.name == entry.mod.name]
    ctx.need(len(mod_funcs) >= 3, "parse_utils helpers vanished")
    seeds = {(entry.qual, p): TOP for p in entry.params}
    ci = CharsetInterp(index, mod_funcs, seeds)
    converged = ci.run()
    ctx.need(converged, "charset interpretation did not converge")
    ret = ci.rets.get(entry.qual, frozenset())
    ctx.count("charset_functions_interpreted", len(mod_funcs))
    ctx.count("charset_guard_refined_uses", len(ci.refined_sites))
    ctx.extra["eval_argument_alphabet"] = show(ret)
    ctx.extra["charset_unmodelled_calls"] = ci.unknown_calls[:10]
    ctx.floor("guard-refined character uses", len(ci.refined_sites), 2)
    if ret == TOP:
        ok, msg = False, (
            "the string handed to eval is not character-bounded: text of the docstring reaches the "
            "result of parse_adhoc_doc_for_typ without passing a character filter (unmodelled: {})".format(
                ci.unknown_calls[:3]
            )
        )
    else:
        bad = sorted(FORBIDDEN_CHARS & ret)
        ok = not bad
        msg = (
            ""
            if ok
            else "the doc-derived string handed to eval may contain {!r}: with these an expression can "
            "call / reach dunders / bind".format("".join(bad))
        )
    ctx.ob(
        "C17.charset",
        entry,
        "alphabet of parse_adhoc_doc_for_typ(...) handed to eval",
        ok,
        msg or "alphabet = " + show(ret),
        line=entry.node.lineno,
    )
    # every guarded character source: report the refined uses as obligations (for the evidence)
    for q, name, line, cs in ci.refined_sites:
        f = index.funcs[q]
        bad = sorted(FORBIDDEN_CHARS & cs) if cs != TOP else ["<unbounded>"]
        ctx.ob(
            "C17.charset",
            f,
            "guarded use of `{}`".format(name),
            not bad,
            "" if not bad else "character filter admits {!r}".format("".join(bad)),
            line=line,
        )
    return ok
