"""
C03 — any chain of format conversions preserves the interface (necessary parts only).

C03.dispatch : dispatch-by-name closure: for every kind the CLI admits (and every result `infer`
               can return) get_parser / get_emitter / exmod's emitter lookup resolve to a module
               that exists and defines the attribute; `sync --truth` choices are keys of the
               conformance table.
C03.ir       : one IR vocabulary: every top-level IR dict literal built anywhere in the package
               uses only keys of the IntermediateRepr TypedDict (shared with C14.shape).
C03.none     : one None sentinel: ast_utils.NoneStr == defaults_utils.NoneStr == none_types[-1]
               in every version branch.
C02.optional, C02.falsy, C10.modstate (memoisation) are re-run here: a chain cannot preserve what
               a single hop loses, and hops cannot commute if a result depends on call history.
"""

import ast

from ..core import iter_own, norm
from ..dispatch import cli_choices, exists, peval
from ..fold import ModuleEnv, Unknown, fold


def typed_dict_keys(index, name):
    """keys of TypedDict `name` in cdd/shared/types.py"""
    m = index.module("cdd.shared.types")
    ent = m.top.get(name)
    if ent is None or ent[0] != "var":
        return None
    v = ent[1][-1].value
    if isinstance(v, ast.Call) and len(v.args) >= 2 and isinstance(v.args[1], ast.Dict):
        return [k.value for k in v.args[1].keys if isinstance(k, ast.Constant)]
    return None


def run(ctx):
    """entry"""
    index = ctx.index
    env = ModuleEnv(index)
    ctx.explanation = (
        "Partial evaluation (constant folding) of get_parser, get_emitter, sanitise_emit_name and "
        "exmod's emitter lookup for every constant kind the CLI admits plus every constant `infer` "
        "can return; existence of the resulting module/attribute in the parsed package; set "
        "comparison of `sync --truth` choices with the conformance table; IR dict-literal keys vs the "
        "IntermediateRepr TypedDict; folded equality of the None sentinels."
    )
    ctx.assumptions += [
        "NOT decided: commutation of conversions / equality of the interface after several hops "
        "(value level, over histories)",
    ]
    get_parser = index.func("cdd.shared.parse.utils.parser_utils.get_parser")
    get_emitter = index.func("cdd.shared.emit.utils.emitter_utils.get_emitter")
    infer = index.func("cdd.shared.parse.utils.parser_utils.infer")
    choices = cli_choices(index, env)
    parse_kinds = choices.get(("gen", "--parse"))
    emit_kinds = choices.get(("gen", "--emit"))
    truth = choices.get(("sync", "--truth"))
    ctx.need(parse_kinds and emit_kinds and truth, "CLI choices could not be read from _build_parser")
    rows = []
    # parse side
    infer_results = sorted(
        {
            n.value.value
            for n in iter_own(infer.node)
            if isinstance(n, ast.Return) and isinstance(n.value, ast.Constant) and isinstance(n.value.value, str)
        }
    )
    ctx.need(len(infer_results) >= 4, "cannot enumerate the constants infer() returns")
    ctx.count("infer_results", len(infer_results))
    for k, origin in [(k, "gen --parse") for k in parse_kinds if k != "infer"] + [
        (k, "infer()") for k in infer_results
    ]:
        r = peval(index, env, get_parser, {"parse_name": k})
        ctx.need(r[0] in ("attr", "keyerror"), "cannot partially evaluate get_parser({!r}): {}".format(k, r))
        if r[0] == "keyerror":
            ctx.ob("C03.dispatch", get_parser, "get_parser(node, {!r})".format(k), False, r[1], line=get_parser.node.lineno)
            continue
        ok, msg = exists(index, r[1], r[2])
        rows.append({"side": "parse", "kind": k, "from": origin, "resolves_to": "{}.{}".format(r[1], r[2]), "exists": ok})
        ctx.ob(
            "C03.dispatch",
            get_parser,
            "get_parser(node, {!r})".format(k),
            ok,
            ""
            if ok
            else "kind {!r} ({}) dispatches to {}.{}: {} -> ModuleNotFoundError at run time".format(
                k, origin, r[1], r[2], msg
            ),
            line=get_parser.node.lineno,
        )
    # emit side
    try:
        san = env.value("cdd.shared.pure_utils.sanitise_emit_name")
    except Unknown as x:
        ctx.need(False, "cannot fold sanitise_emit_name: {}".format(x))
    es = index.func("cdd.compound.exmod_utils._emit_symbol")
    from ..defuse import expand_aliases

    # the local holding the dispatched emitter: the one assignment whose value — explaining variables read through —
    # sanitises emit_name and getattr()s
    lam_assign = []
    for n in iter_own(es.node):
        if isinstance(n, ast.Assign) and len(n.targets) == 1 and isinstance(n.targets[0], ast.Name):
            full = expand_aliases(es, n.value)
            if "sanitise_emit_name(emit_name)" in norm(full) and "getattr(" in norm(n.value):
                lam_assign.append(ast.Assign(targets=n.targets, value=full))
    ctx.need(len(lam_assign) == 1, "emitter lookup vanished from _emit_symbol")
    from ..dispatch import eval_return

    for k in emit_kinds:
        try:
            s = san(k)
        except KeyError:
            ctx.ob("C03.dispatch", get_emitter, "sanitise_emit_name[{!r}]".format(k), False, "KeyError", line=1)
            continue
        for who, r in (
            ("get_emitter", peval(index, env, get_emitter, {"emit_name": s})),
            ("_emit_symbol", eval_return(index, env, es, lam_assign[0].value, {"emit_name": k})),
        ):
            f = get_emitter if who == "get_emitter" else es
            ctx.need(r[0] in ("attr", "keyerror"), "cannot partially evaluate {}({!r}): {}".format(who, s, r))
            if r[0] == "keyerror":
                ctx.ob("C03.dispatch", f, "{}({!r})".format(who, k), False, r[1], line=f.node.lineno)
                continue
            ok, msg = exists(index, r[1], r[2])
            rows.append({"side": "emit", "kind": k, "via": who, "resolves_to": "{}.{}".format(r[1], r[2]), "exists": ok})
            ctx.ob("C03.dispatch", f, "{}({!r})".format(who, k), ok, msg, line=f.node.lineno)
    # exmod passes the symbol's name to the emitter under a keyword it derives from the kind: the emitter must accept it
    from ..dispatch import underlying_function

    exmod_kinds = choices.get(("exmod", "--emit")) or ()
    key_nodes = []
    for n in iter_own(es.node):
        if isinstance(n, ast.Dict):
            for k_ in n.keys:
                if k_ is not None and not isinstance(k_, ast.Constant):
                    full = expand_aliases(es, k_)
                    if any(isinstance(x, ast.Name) and x.id == "emit_name" for x in ast.walk(full)):
                        key_nodes.append(full)
    ctx.count("exmod_name_keyword_expressions", len(key_nodes))
    for k in exmod_kinds:
        r = eval_return(index, env, es, lam_assign[0].value, {"emit_name": k})
        if r[0] != "attr":
            continue  # reported above
        tf, bound = underlying_function(index, r[1], r[2])
        if tf is None:
            continue
        for kn in key_nodes:
            try:
                kw = env.in_module(es.mod, kn, {"emit_name": k})
            except Unknown as x:
                ctx.need(False, "cannot fold the keyword exmod passes the name under, for kind {!r}: {}".format(k, x))
            ok = isinstance(kw, str) and (kw in tf.params and kw not in bound or tf.node.args.kwarg is not None)
            rows.append({"side": "exmod", "kind": k, "name_keyword": kw, "emitter": tf.qual, "accepted": bool(ok)})
            ctx.ob(
                "C03.dispatch",
                es,
                "_emit_symbol({!r}) passes the name as a keyword the emitter accepts".format(k),
                bool(ok),
                ""
                if ok
                else "`exmod --emit {}` calls {}({}=...), which has no such parameter ({}): TypeError for every symbol, "
                "nothing is generated".format(k, tf.short, kw, ", ".join(p_ for p_ in tf.params if p_.endswith("name") or p_ == "identifier")),
                line=es.node.lineno,
            )
    # sync --truth choices vs conformance table
    gt = index.func("cdd.shared.conformance.ground_truth")
    table = None
    for n in iter_own(gt.node):
        # the kind table of ground_truth: the dict literal that is subscripted by args.truth, whatever it is called
        if isinstance(n, ast.Assign) and isinstance(n.targets[0], ast.Name) and isinstance(n.value, ast.Dict) and any(
            isinstance(x, ast.Subscript) and norm(x.value) == n.targets[0].id and norm(x.slice).endswith(".truth") for x in iter_own(gt.node)
        ):
            table = [k.value for k in n.value.keys if isinstance(k, ast.Constant)]
    ctx.need(table is not None, "the --truth kind table vanished from ground_truth")
    for t in truth:
        ok = t in table
        ctx.ob(
            "C03.dispatch",
            gt,
            "sync --truth {}".format(t),
            ok,
            ""
            if ok
            else "the CLI admits `--truth {}` but ground_truth's table only has {} -> KeyError".format(t, table),
            line=gt.node.lineno,
        )
    # ----------------------------------------------------------------- ir
    ir_keys = typed_dict_keys(index, "IntermediateRepr")
    ctx.need(ir_keys and {"name", "doc", "params", "returns"} <= set(ir_keys), "IntermediateRepr TypedDict not readable")
    n_lit = 0
    for f in index.nontest_funcs():
        if ".parse" not in f.mod.name and "docstring_parsers" not in f.mod.name and "parser_utils" not in f.mod.name:
            continue
        for n in iter_own(f.node):
            if not isinstance(n, ast.Dict):
                continue
            keys = [k.value for k in n.keys if isinstance(k, ast.Constant) and isinstance(k.value, str)]
            if not ({"params", "returns"} <= set(keys) or {"name", "params"} <= set(keys)):
                continue
            n_lit += 1
            extra = sorted(set(keys) - set(ir_keys))
            ctx.ob(
                "C03.ir",
                f,
                "IR literal with keys {}".format(sorted(keys)),
                not extra,
                "" if not extra else "IR literal uses key(s) {} outside the IntermediateRepr vocabulary {}".format(extra, ir_keys),
                line=n.lineno,
            )
    ctx.count("ir_literals", n_lit)
    ctx.floor("IR dict literals in parsers", n_lit, 4)
    # --------------------------------------------------------------- none
    vals = {}
    for py in ((3, 8), (3, 9), (3, 12)):
        e2 = ModuleEnv(index, py)
        for dotted in ("cdd.shared.ast_utils.NoneStr", "cdd.shared.defaults_utils.NoneStr"):
            try:
                vals[(py, dotted)] = e2.value(dotted)
            except Unknown:
                vals[(py, dotted)] = None
        try:
            nt = e2.value("cdd.shared.pure_utils.none_types")
            vals[(py, "none_types[-1]")] = nt[-1] if isinstance(nt, (tuple, list)) else None
        except Unknown:
            vals[(py, "none_types[-1]")] = None
    for py in ((3, 8), (3, 9), (3, 12)):
        trio = [vals[(py, "cdd.shared.ast_utils.NoneStr")], vals[(py, "cdd.shared.defaults_utils.NoneStr")]]
        known = [v for v in trio if v is not None]
        if len(known) < 1:
            ctx.note("NoneStr not foldable for Python {}".format(py))
            continue
        same = len(set(known)) == 1
        ctx.ob(
            "C03.none",
            index.module("cdd.shared.ast_utils"),
            "NoneStr agreement for Python {}.{}".format(*py),
            same,
            "" if same else "None sentinels differ: {}".format(trio),
            line=1,
        )
        nt = vals[(py, "none_types[-1]")]
        if nt is not None:
            ok = nt == known[0] or known[0] in (vals[(py, "none_types[-1]")],)
            ctx.ob("C03.none", index.module("cdd.shared.pure_utils"), "none_types[-1] == NoneStr for Python {}.{}".format(*py), ok, "" if ok else "{!r} != {!r}".format(nt, known[0]), line=1)
    ctx.samples = rows
    ctx.exhaustive = True
    # single-hop necessary conditions shared with C02 / C10: a chain cannot preserve what one hop loses,
    # and conversions cannot commute if a hop's result depends on what the process converted before
    from . import c02, c10

    ctx.section(c02._optional, ctx, index)
    ctx.section(c02._falsy, ctx, index)
    ctx.section(c10._memoised, ctx)
    ctx.section(c02._escape, ctx, index)
    ctx.section(c02._exacttype, ctx, index)
    from . import c01

    ctx.section(c01.numeric_rule, ctx, index, "C03.numeric")

    from . import c10 as _c10_state

    ctx.section(_c10_state.state_slice, ctx, 'C03.state', ['cdd.class_.emit.class_', 'cdd.class_.parse.class_', 'cdd.function.emit.function', 'cdd.function.parse.function', 'cdd.argparse_function.emit.argparse_function', 'cdd.argparse_function.parse.argparse_ast', 'cdd.docstring.emit.docstring', 'cdd.docstring.parse.docstring'], 5)

