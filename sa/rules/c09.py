"""
C09 — the concrete syntax tree is lossless for every input string.

C09.conserve : typestate analysis of cst_scanner / cst_scan proving the invariant
               concat(scanned) + "".join(stack) == source[:i]:
   O1 push-all        every loop character is appended to the buffer unconditionally
   O2 no loss         a buffer is never cleared / rebound while holding un-emitted characters
   O3 no duplication  a buffer is never emitted twice, nor appended to after emission, without clear
   O4 final flush     at every exit the buffers are empty or emitted-and-cleared
   O5 output purity   the output list only ever receives valid joins of a buffer
C09.bounds  : no slice bound in the scanner is a find()/rfind() result on which -1 has not been excluded.
C09.lines    : line accounting in cst_parse_one_node / set_prev_node / cst_parser / cst_parse.
"""

import ast

from ..core import AnalysisError, iter_own, norm, short

CLEAN, DIRTY, EMITTED, TRANSFERRED, TRANSFERRED_CLEARED = "C", "D", "E", "T", "TC"


class St(object):
    """abstract state: per buffer typestate + which string variables are valid joins of a buffer"""

    __slots__ = ("buf", "alias", "emitted_any")

    def __init__(self, buf, alias, emitted_any=False):
        self.buf = dict(buf)
        self.alias = dict(alias)
        self.emitted_any = emitted_any

    def key(self):
        """hashable identity"""
        return (tuple(sorted(self.buf.items())), tuple(sorted(self.alias.items())), self.emitted_any)

    def copy(self):
        """copy"""
        return St(self.buf, self.alias, self.emitted_any)


def join_of(e):
    """`"".join(B)` -> 'B'"""
    if (
        isinstance(e, ast.Call)
        and isinstance(e.func, ast.Attribute)
        and e.func.attr == "join"
        and isinstance(e.func.value, ast.Constant)
        and e.func.value.value == ""
        and len(e.args) == 1
        and isinstance(e.args[0], ast.Name)
    ):
        return e.args[0].id
    return None


class Conserve(object):
    """the typestate engine for one function"""

    def __init__(self, fn, out, buffers, helpers, call_summaries):
        self.fn = fn
        self.out = out
        self.buffers = set(buffers)
        self.helpers = helpers
        self.calls = call_summaries
        self.checks = {}  # (id(node), rule) -> [node, rule, ok, msg]

    def chk(self, node, rule, ok, msg=""):
        """record an obligation instance (aggregated per node and rule over all abstract states)"""
        k = (id(node), rule)
        cur = self.checks.get(k)
        if cur is None:
            self.checks[k] = [node, rule, ok, msg]
        elif not ok and cur[2]:
            cur[2] = False
            cur[3] = msg

    # --------------------------------------------------------- primitive ops
    def do_emit(self, st, node, strexpr):
        if isinstance(strexpr, ast.Name):
            b = st.alias.get(strexpr.id)
        else:
            b = join_of(strexpr)
        if b is None or b not in self.buffers:
            self.chk(
                node,
                "O5",
                False,
                "the output list receives `{}`, which is not a valid join of a character buffer at "
                "this point (text would be altered/invented)".format(short(strexpr, 50)),
            )
            return
        self.chk(node, "O5", True)
        if st.buf[b] == EMITTED:
            self.chk(node, "O3", False, "buffer {} emitted twice without clear (duplication)".format(b))
        else:
            self.chk(node, "O3", True)
        st.buf[b] = EMITTED
        st.emitted_any = True

    def do_clear(self, st, node, b):
        if st.buf[b] == DIRTY:
            self.chk(node, "O2", False, "buffer {} cleared while holding un-emitted characters (loss)".format(b))
        else:
            self.chk(node, "O2", True)
        st.buf[b] = CLEAN
        for k in [k for k, v in st.alias.items() if v == b]:
            del st.alias[k]

    def do_append(self, st, node, b):
        if st.buf[b] == EMITTED:
            self.chk(node, "O3", False, "append to {} after emission without clear (duplication)".format(b))
        else:
            self.chk(node, "O3", True)
        if st.buf[b] not in (TRANSFERRED,):
            st.buf[b] = DIRTY
        for k in [k for k, v in st.alias.items() if v == b]:
            del st.alias[k]

    # ------------------------------------------------------------- statements
    def run_block(self, stmts, states):
        for s in stmts:
            nxt = {}
            for st in states:
                for o in self.step(s, st):
                    nxt[o.key()] = o
            states = list(nxt.values())
        return states

    def refine(self, test, st, truth):
        """`if B:` on a buffer prunes infeasible arms"""
        if isinstance(test, ast.Name) and test.id in self.buffers:
            if truth and st.buf[test.id] == CLEAN:
                return None
            if not truth and st.buf[test.id] == DIRTY:
                return None
        return st

    def expr_stmt(self, st, s):
        v = s.value
        if not isinstance(v, ast.Call):
            return [st]
        f = v.func
        if isinstance(f, ast.Attribute) and isinstance(f.value, ast.Name):
            recv, meth = f.value.id, f.attr
            if recv == self.out:
                if meth == "append" and len(v.args) == 1:
                    self.do_emit(st, s, v.args[0])
                else:
                    self.chk(s, "O5", False, "unexpected mutation of the output list: .{}()".format(meth))
                return [st]
            if recv in self.buffers:
                if meth == "append" and len(v.args) == 1:
                    self.do_append(st, s, recv)
                elif meth == "clear" and not v.args:
                    self.do_clear(st, s, recv)
                else:
                    raise AnalysisError("unrecognised buffer operation {}.{} at line {}".format(recv, meth, s.lineno))
                return [st]
        if isinstance(f, ast.Name) and f.id in self.helpers:
            args = v.args
            for e in self.helpers[f.id]:
                if e[0] == "emit":
                    tgt = args[e[2]]
                    if not (isinstance(tgt, ast.Name) and tgt.id == self.out):
                        self.chk(s, "O5", False, "helper emits into something that is not the output list")
                        continue
                    self.do_emit(st, s, args[e[1]])
                else:
                    a = args[e[1]]
                    if isinstance(a, ast.Name) and a.id in self.buffers:
                        if st.buf[a.id] == TRANSFERRED:
                            st.buf[a.id] = TRANSFERRED_CLEARED
                            self.chk(s, "O2", True)
                        elif st.buf[a.id] == TRANSFERRED_CLEARED:
                            self.chk(s, "O2", True)
                        else:
                            self.do_clear(st, s, a.id)
                    else:
                        raise AnalysisError("helper clears a non-buffer argument at line {}".format(s.lineno))
            return [st]
        if isinstance(f, ast.Name) and f.id in self.calls:
            return self.calls[f.id](st, v)
        # any other expression statement must not touch buffers / output
        for n in ast.walk(v):
            if isinstance(n, ast.Name) and (n.id in self.buffers or n.id == self.out):
                raise AnalysisError("unrecognised use of buffer/output in `{}` line {}".format(short(v, 50), s.lineno))
        return [st]

    def step(self, s, st):
        st = st.copy()
        if isinstance(s, ast.Expr) and isinstance(s.value, ast.Constant):
            return [st]
        if isinstance(s, (ast.FunctionDef, ast.Pass)):
            return [st]
        if isinstance(s, (ast.Continue, ast.Break)):
            # reported by O1 in loop(); keep exploring conservatively
            return [st]
        if isinstance(s, (ast.Assign, ast.AnnAssign)):
            tgt = s.targets[0] if isinstance(s, ast.Assign) else s.target
            val = s.value
            if isinstance(tgt, ast.Tuple) and isinstance(val, ast.Tuple) and len(tgt.elts) == len(val.elts):
                out = [st]
                for t, v in zip(tgt.elts, val.elts):
                    fake = ast.Assign(targets=[t], value=v, lineno=s.lineno)
                    out = [o2 for o in out for o2 in self.step(fake, o)]
                return out
            if isinstance(tgt, ast.Name):
                b = join_of(val) if val is not None else None
                st.alias.pop(tgt.id, None)
                if b in self.buffers:
                    st.alias[tgt.id] = b
                elif isinstance(val, ast.Name) and val.id in st.alias:
                    st.alias[tgt.id] = st.alias[val.id]
                if tgt.id in self.buffers:
                    if isinstance(val, ast.List) and not val.elts:
                        if st.buf.get(tgt.id, CLEAN) == DIRTY:
                            self.chk(s, "O2", False, "buffer {} rebound while holding un-emitted characters".format(tgt.id))
                        else:
                            self.chk(s, "O2", True)
                        st.buf[tgt.id] = CLEAN
                    else:
                        raise AnalysisError("unrecognised rebinding of buffer {} line {}".format(tgt.id, s.lineno))
                elif tgt.id == self.out:
                    raise AnalysisError("output list rebound at line {}".format(s.lineno))
                return [st]
            raise AnalysisError("unrecognised assignment target `{}` line {}".format(short(tgt, 30), s.lineno))
        if isinstance(s, ast.Expr):
            return self.expr_stmt(st, s)
        if isinstance(s, ast.If):
            res = []
            a = self.refine(s.test, st, True)
            if a is not None:
                res += self.run_block(s.body, [a.copy()])
            b = self.refine(s.test, st, False)
            if b is not None:
                res += self.run_block(s.orelse, [b.copy()])
            return res
        if isinstance(s, ast.For):
            return self.loop(s, st)
        if isinstance(s, ast.Return):
            if s.value is not None and not (isinstance(s.value, ast.Name) and s.value.id == self.out):
                if any(isinstance(n, ast.Name) and n.id in self.buffers for n in ast.walk(s.value)):
                    raise AnalysisError("unrecognised return at line {}".format(s.lineno))
            self.exits.append(st)
            return []
        if isinstance(s, (ast.Delete, ast.AugAssign, ast.Assert, ast.Global, ast.Nonlocal, ast.Import, ast.ImportFrom)):
            # statements that neither write a buffer / the output list nor create a join alias are transparent
            written = set()
            if isinstance(s, ast.Delete):
                written = {n.id for t in s.targets for n in ast.walk(t) if isinstance(n, ast.Name)}
            elif isinstance(s, ast.AugAssign):
                written = {n.id for n in ast.walk(s.target) if isinstance(n, ast.Name)}
            calls_on_buffers = any(
                isinstance(n, ast.Call) and isinstance(n.func, ast.Attribute) and isinstance(n.func.value, ast.Name) and (n.func.value.id in self.buffers or n.func.value.id == self.out)
                for n in ast.walk(s)
            )
            if written & (self.buffers | {self.out}) or calls_on_buffers:
                raise AnalysisError("unrecognised {} touching a buffer / the output list at line {}".format(type(s).__name__, s.lineno))
            for nm in written:
                st.alias.pop(nm, None)
            return [st]
        if isinstance(s, ast.Raise):
            return []
        if isinstance(s, ast.With):
            for it in s.items:
                if any(isinstance(n, ast.Name) and (n.id in self.buffers or n.id == self.out) for n in ast.walk(it.context_expr)):
                    raise AnalysisError("a with-statement manages a buffer at line {}".format(s.lineno))
            return self.run_block(s.body, [st])
        raise AnalysisError("unrecognised statement kind {} at line {}".format(type(s).__name__, s.lineno))

    def loop(self, s, st):
        it = s.iter
        src = None
        if (
            isinstance(it, ast.Call)
            and isinstance(it.func, ast.Name)
            and it.func.id == "enumerate"
            and it.args
            and isinstance(it.args[0], ast.Name)
        ):
            src = it.args[0].id
            ok_t = isinstance(s.target, ast.Tuple) and len(s.target.elts) == 2 and isinstance(s.target.elts[1], ast.Name)
            if not ok_t:
                raise AnalysisError("unrecognised enumerate target line {}".format(s.lineno))
            loopvar = s.target.elts[1].id
        elif isinstance(it, ast.Name) and isinstance(s.target, ast.Name):
            src, loopvar = it.id, s.target.id
        else:
            raise AnalysisError("unrecognised loop header line {}".format(s.lineno))
        drained = st.alias.get(src)
        is_source_loop = src in self.sources
        if drained is None and not is_source_loop:
            raise AnalysisError("loop at line {} iterates `{}`, neither the source nor a buffer snapshot".format(s.lineno, src))
        # O1: exactly one unconditional push of the loop variable at the top level of the body
        pushes = [
            b
            for b in s.body
            if isinstance(b, ast.Expr)
            and isinstance(b.value, ast.Call)
            and isinstance(b.value.func, ast.Attribute)
            and b.value.func.attr == "append"
            and isinstance(b.value.func.value, ast.Name)
            and b.value.func.value.id in self.buffers
            and len(b.value.args) == 1
            and isinstance(b.value.args[0], ast.Name)
            and b.value.args[0].id == loopvar
        ]
        other_pushes = [
            n
            for n in ast.walk(s)
            if isinstance(n, ast.Call)
            and isinstance(n.func, ast.Attribute)
            and n.func.attr in ("append", "extend", "insert")
            and isinstance(n.func.value, ast.Name)
            and n.func.value.id in self.buffers
            and not any(n is p.value for p in pushes)
        ]
        jumps = [n for n in ast.walk(s) if isinstance(n, (ast.Continue, ast.Break))]
        early = [n for n in ast.walk(s) if isinstance(n, ast.Return)]
        ok = len(pushes) == 1 and not other_pushes and not jumps and not early
        why = ""
        if len(pushes) != 1:
            why = "the loop character is pushed {} times at the top level of the body (need exactly one unconditional push)".format(len(pushes))
        elif other_pushes:
            why = "extra/conditional push into a buffer: `{}`".format(short(other_pushes[0], 50))
        elif jumps or early:
            why = "continue/break/return inside the character loop can skip characters"
        self.chk(s, "O1", ok, why)
        if drained is not None:
            st.buf[drained] = TRANSFERRED
        head = {st.key(): st}
        work = [st]
        outs = {st.key(): st}
        while work:
            cur = work.pop()
            for o in self.run_block(s.body, [cur.copy()]):
                if o.key() not in head:
                    head[o.key()] = o
                    work.append(o)
                outs[o.key()] = o
        return list(outs.values())

    def analyse(self, init, sources):
        """run; returns exit states"""
        self.sources = set(sources)
        self.exits = []
        tail = self.run_block(self.fn.body, [init])
        return self.exits + tail


def summarize_helper(fn):
    """effects of a straight-line helper on its parameters: ('emit', str param, list param) / ('clear', param)"""
    params = [a.arg for a in fn.args.args]
    eff = []
    for s in fn.body:
        if isinstance(s, ast.Expr) and isinstance(s.value, ast.Constant):
            continue
        if (
            isinstance(s, ast.Expr)
            and isinstance(s.value, ast.Call)
            and isinstance(s.value.func, ast.Attribute)
            and isinstance(s.value.func.value, ast.Name)
            and s.value.func.value.id in params
        ):
            recv, meth = s.value.func.value.id, s.value.func.attr
            if (
                meth == "append"
                and len(s.value.args) == 1
                and isinstance(s.value.args[0], ast.Name)
                and s.value.args[0].id in params
            ):
                eff.append(("emit", params.index(s.value.args[0].id), params.index(recv)))
                continue
            if meth == "clear" and not s.value.args:
                eff.append(("clear", params.index(recv)))
                continue
        raise AnalysisError("helper {}: unrecognised statement at line {}".format(fn.name, s.lineno))
    return eff


def _bounds(ctx, index):
    """
    C09.bounds: in the scanner (cst_scanner, cst_scan and their nested helpers) a slice bound that is the
    result of str.find / str.rfind must be used only where a dominating test has excluded -1: `s[a:s.find(x)]`
    with no match is `s[a:-1]`, which silently drops the last character — exactly the "input whose last line
    has no newline" case. Independent of the typestate analysis, so it is reported even when the scanner was
    restructured beyond what the typestate engine recognises.
    """
    from ..defuse import local_defs
    from ..walker import GuardWalker

    roots = [index.func("cdd.shared.cst_utils.cst_scanner"), index.func("cdd.shared.cst_utils.cst_scan")]
    funcs = roots + [g for g in index.funcs.values() if g.outer in roots]
    n = 0
    for f in funcs:
        defs = local_defs(f)
        facts_at = {}
        GuardWalker(on_expr=lambda x, fa, _d=facts_at: _d.__setitem__(id(x), fa)).walk_function(f.node)
        for x in iter_own(f.node):
            if not (isinstance(x, ast.Subscript) and isinstance(x.slice, ast.Slice)):
                continue
            for b in (x.slice.lower, x.slice.upper):
                if b is None:
                    continue
                var = None
                if isinstance(b, ast.Call) and isinstance(b.func, ast.Attribute) and b.func.attr in ("find", "rfind"):
                    var = ""
                elif isinstance(b, ast.Name) and any(
                    isinstance(d, ast.Call) and isinstance(d.func, ast.Attribute) and d.func.attr in ("find", "rfind") for d in defs.get(b.id, [])
                ):
                    var = b.id
                if var is None:
                    continue
                n += 1
                facts = facts_at.get(id(x)) or {}
                excluded = bool(var) and any(
                    (k in ("{} == -1".format(var), "{} < 0".format(var)) and v is False)
                    or (k in ("{} != -1".format(var), "{} > -1".format(var), "{} >= 0".format(var)) and v is True)
                    for k, v in facts.items()
                    if isinstance(k, str)
                )
                ctx.ob(
                    "C09.bounds",
                    f,
                    x,
                    excluded,
                    ""
                    if excluded
                    else "a slice bound comes from str.find()/rfind() and -1 (no match) has not been excluded here: the slice then "
                    "ends at the LAST BUT ONE character, so the final character of an input without a trailing newline is lost",
                    line=x.lineno,
                )
    ctx.count("find_derived_slice_bounds_in_scanner", n)


def run(ctx):
    """entry"""
    index = ctx.index
    ctx.explanation = (
        "Typestate abstract interpretation of cst_scanner and cst_scan over buffer states "
        "{clean, dirty, emitted, transferred, transferred+cleared} with alias validity of "
        "`\"\".join(B)` variables, the helper summary derived from add_and_clear's body, truthiness "
        "refinement on `if buffer:`, a loop-head fixpoint, and the derived summary of cst_scan used "
        "inside cst_scanner; all paths explored. Plus structural line accounting of the parser."
    )
    ctx.assumptions += [
        "Python list/str semantics: concatenating the appended characters reproduces the text",
        "strip()-based predicates only choose a branch; they never produce output (checked by O5)",
        "a restructured scanner yields ANALYSIS-ERROR (exit 2), never a silent pass",
    ]
    ctx.section(_bounds, ctx, index)
    scan = index.func("cdd.shared.cst_utils.cst_scan")
    scanner = index.func("cdd.shared.cst_utils.cst_scanner")
    helpers = {}
    for q, f in index.funcs.items():
        if f.outer is scan:
            helpers[f.node.name] = summarize_helper(f.node)
    # the emitting helper may have been moved to module level: a function of the same module that cst_scan calls by
    # its bare name and whose body is a straight line of appends / clears on its parameters is summarised the same way
    for n_ in iter_own(scan.node):
        if isinstance(n_, ast.Call) and isinstance(n_.func, ast.Name) and n_.func.id not in helpers:
            h_ = index.funcs.get(index.callee(scan.mod, n_, scan) or "")
            if h_ is not None and h_.mod is scan.mod and h_.outer is None and h_ is not scan:
                try:
                    summ_ = summarize_helper(h_.node)
                except AnalysisError:
                    continue  # not an emitting helper (a predicate over strings, ...): calls are judged as ordinary calls
                if summ_:
                    helpers[n_.func.id] = summ_
    ctx.need(scan.params[:2] == ["scanned", "stack"], "cst_scan(scanned, stack) signature changed")
    buffers = {"stack"} | {
        t.id
        for n in iter_own(scan.node)
        if isinstance(n, ast.Assign) and isinstance(n.value, ast.List) and not n.value.elts
        for t in n.targets
        if isinstance(t, ast.Name)
    }
    eng = Conserve(scan.node, "scanned", buffers, helpers, {})
    init = St({b: (DIRTY if b == "stack" else CLEAN) for b in buffers}, {})
    exits = eng.analyse(init, sources=())
    summ = sorted({(e.buf["stack"],) + tuple(e.buf.get(b) for b in sorted(buffers - {"stack"})) + (e.emitted_any,) for e in exits})
    ctx.extra["cst_scan_exit_states"] = [list(map(str, s)) for s in summ]
    ctx.count("cst_scan_exit_states", len(summ))
    # exit obligations of cst_scan
    touched = False
    for e in exits:
        s_state = e.buf["stack"]
        others = {b: e.buf[b] for b in buffers if b != "stack"}
        if s_state == DIRTY and not e.emitted_any:
            continue  # untouched: fine
        if (
            s_state == TRANSFERRED
            and not e.emitted_any
            and all(v == CLEAN for v in others.values())
        ):
            continue  # drain loop ran zero times (empty snapshot): nothing moved, nothing emitted
        touched = True
        ok, msg = True, ""
        if s_state == DIRTY and e.emitted_any:
            ok, msg = False, "something was emitted but the stack still holds its characters (duplication on the next flush)"
        elif s_state == EMITTED:
            ok, msg = False, "stack emitted but never cleared (its text is emitted again later)"
        elif s_state == TRANSFERRED:
            ok, msg = (not e.emitted_any), "drained content emitted but the stack was not cleared"
            if not e.emitted_any:
                ok, msg = False, "stack drained into a buffer that was never emitted"
        for b, v in others.items():
            if v == DIRTY:
                ok, msg = False, "buffer {} still holds un-emitted characters at exit (loss)".format(b)
            elif v == EMITTED:
                ok, msg = False, "buffer {} emitted but not cleared at exit".format(b)
        ctx.ob("C09.conserve.O4", scan, "exit state stack={} {}".format(s_state, others), ok, msg, line=scan.node.lineno)
    ctx.need(touched, "cst_scan never emits anything: recogniser out of date")
    _flush(ctx, scan, eng)
    # cst_scanner with the derived summary: cst_scan either leaves both untouched, or emits all of stack and clears it
    all_or_nothing = all(
        (e.buf["stack"] in (DIRTY, TRANSFERRED) and not e.emitted_any)
        or e.buf["stack"] in (CLEAN, TRANSFERRED_CLEARED)
        for e in exits
    )

    # what cst_scanner calls its output list and its character stack: the two plain locals it hands to cst_scan
    pairs = {
        tuple(norm(a) for a in c.args)
        for c in iter_own(scanner.node)
        if isinstance(c, ast.Call) and norm(c.func) == "cst_scan" and len(c.args) == 2 and all(isinstance(a, ast.Name) for a in c.args)
    }
    ctx.need(len(pairs) == 1, "cst_scanner no longer calls cst_scan(<output list>, <stack>) with one pair of locals: {}".format(sorted(pairs)))
    out2, stk2 = next(iter(pairs))

    def scan_summary(st, call):
        args = [norm(a) for a in call.args]
        if args != [out2, stk2]:
            raise AnalysisError("cst_scan called with {} at line {}".format(args, call.lineno))
        a = st.copy()
        b = st.copy()
        b.buf[stk2] = CLEAN
        b.emitted_any = True
        b.alias = {}
        return [a, b] if st.buf[stk2] != CLEAN else [a]

    ctx.ob(
        "C09.conserve.O4",
        scan,
        "summary: cst_scan is all-or-nothing on the stack",
        all_or_nothing,
        "" if all_or_nothing else "cst_scan can return having emitted only part of the stack / without clearing it",
        line=scan.node.lineno,
    )
    eng2 = Conserve(scanner.node, out2, {stk2}, {}, {"cst_scan": scan_summary})
    # the first statement `scanned, stack = [], []` initialises both
    init2 = St({stk2: CLEAN}, {})
    body = list(scanner.node.body)
    start = 0
    # ... or two (annotated) assignments `scanned: List[str] = []` / `stack: List[str] = []`, in either order
    initialised = set()
    for i, s in enumerate(body):
        if isinstance(s, ast.Expr) and isinstance(s.value, ast.Constant):
            start = i + 1
            continue
        if (
            isinstance(s, ast.Assign)
            and norm(s.targets[0]).replace("(", "").replace(")", "") == "{}, {}".format(out2, stk2)
            and norm(s.value).replace("(", "").replace(")", "") == "[], []"
        ):
            start = i + 1
            initialised = {out2, stk2}
            break
        if isinstance(s, (ast.Assign, ast.AnnAssign)) and s.value is not None:
            t = s.targets[0] if isinstance(s, ast.Assign) else s.target
            if isinstance(t, ast.Name) and t.id in (out2, stk2) and t.id not in initialised and isinstance(s.value, ast.List) and not s.value.elts:
                initialised.add(t.id)
                start = i + 1
                if initialised == {out2, stk2}:
                    break
                continue
        break
    ctx.need(start > 0 and start <= len(body) and initialised == {out2, stk2}, "cst_scanner no longer starts by binding its output list and its stack to fresh empty lists")
    eng2.fn = ast.FunctionDef(name="x", args=scanner.node.args, body=body[start:], decorator_list=[])
    ex2 = eng2.analyse(init2, sources=(scanner.params[0],))
    for e in ex2:
        # EMITTED at the very end is fine: the local buffer is dropped when the function returns
        ok = e.buf[stk2] != DIRTY
        ctx.ob(
            "C09.conserve.O4",
            scanner,
            "exit state stack={}".format(e.buf[stk2]),
            ok,
            ""
            if ok
            else "the residual buffer is not flushed (or flushed without clear) at the end of the scan: trailing "
            "characters of the input are lost/duplicated",
            line=scanner.node.lineno,
        )
    rets = [n for n in iter_own(scanner.node) if isinstance(n, ast.Return)]
    ok = bool(rets) and all(isinstance(r.value, ast.Name) and r.value.id == out2 for r in rets)
    ctx.ob("C09.conserve.O5", scanner, "return scanned", ok, "" if ok else "cst_scanner returns something other than the output list", line=scanner.node.lineno)
    _flush(ctx, scanner, eng2)
    ctx.count("typestate_functions", 2)
    ctx.section(_lines, ctx)


def _flush(ctx, f, eng):
    for node, rule, ok, msg in eng.checks.values():
        ctx.ob("C09.conserve." + rule, f, node, ok, msg)


def _lines(ctx):
    index = ctx.index
    one = index.func("cdd.shared.cst_utils.cst_parse_one_node")
    parser = index.func("cdd.shared.cst_utils.cst_parser")
    parse = index.func("cdd.shared.cst.cst_parse")
    wrap = index.func("cdd.shared.cst_utils.set_prev_node.wrapper")
    ctx.need(one.params[:2] == ["statement", "state"], "cst_parse_one_node(statement, state) signature changed")
    # common_kwargs
    ck = [
        n
        for n in iter_own(one.node)
        # the dict of fields every node shares: the one local assigned a dict that carries value / line_no_start / line_no_end
        if isinstance(n, ast.Assign)
        and isinstance(n.targets[0], ast.Name)
        and (
            (isinstance(n.value, ast.Call) and norm(n.value.func) == "dict" and {"value", "line_no_start", "line_no_end"} <= {k.arg for k in n.value.keywords})
            or (isinstance(n.value, ast.Dict) and {"value", "line_no_start", "line_no_end"} <= {getattr(k, "value", None) for k in n.value.keys})
        )
    ]
    ctx.need(len(ck) == 1, "the shared node-field dict (value / line_no_start / line_no_end) vanished from cst_parse_one_node")
    ck_name = ck[0].targets[0].id
    v = ck[0].value
    kw = {}
    if isinstance(v, ast.Call) and norm(v.func) == "dict":
        kw = {k.arg: norm(k.value) for k in v.keywords}
    elif isinstance(v, ast.Dict):
        kw = {k.value: norm(x) for k, x in zip(v.keys, v.values) if isinstance(k, ast.Constant)}
    # the statements before: prev_acc = state["acc"]; state["acc"] += statement.count("\n")
    body = [s for s in one.node.body if not (isinstance(s, ast.Expr) and isinstance(s.value, ast.Constant))]
    acc_updates = [
        n
        for n in iter_own(one.node)
        if isinstance(n, (ast.AugAssign, ast.Assign))
        and any("state['acc']" == norm(t) for t in ([n.target] if isinstance(n, ast.AugAssign) else n.targets))
    ]
    ok = (
        len(acc_updates) == 1
        and isinstance(acc_updates[0], ast.AugAssign)
        and isinstance(acc_updates[0].op, ast.Add)
        and norm(acc_updates[0].value) == "statement.count('\\n')"
    )
    ctx.ob(
        "C09.lines",
        one,
        acc_updates[0] if acc_updates else "state['acc'] update",
        ok,
        "" if ok else "the running line number must be advanced exactly once by statement.count('\\n')",
    )
    prev = [
        n
        for n in body
        if isinstance(n, ast.Assign) and norm(n.value) == "state['acc']" and isinstance(n.targets[0], ast.Name)
    ]
    # a read of the counter into a local: before the update it is the start line, after it the end line
    n_assigned = {}
    for n in iter_own(one.node):
        if isinstance(n, (ast.Assign, ast.AugAssign, ast.AnnAssign, ast.For, ast.NamedExpr)):
            for t in n.targets if isinstance(n, ast.Assign) else [n.target]:
                for x in ast.walk(t):
                    if isinstance(x, ast.Name) and isinstance(x.ctx, ast.Store):
                        n_assigned[x.id] = n_assigned.get(x.id, 0) + 1
    upd_line = acc_updates[0].lineno if acc_updates else None
    once = [n for n in prev if n_assigned.get(n.targets[0].id) == 1 and len(n.targets) == 1]
    before = [n for n in once if upd_line is not None and n.lineno < upd_line]
    after = [n for n in once if upd_line is not None and upd_line < n.lineno < ck[0].lineno]
    prev_name = before[0].targets[0].id if before else None
    end_names = {"state['acc']"} | {n.targets[0].id for n in after}
    order_ok = bool(before) and acc_updates and before[0].lineno < acc_updates[0].lineno < ck[0].lineno
    ctx.ob(
        "C09.lines",
        one,
        "prev_acc read before, line_no_end read after the update",
        bool(order_ok),
        "" if order_ok else "start/end line numbers are not read before/after the single update",
        line=one.node.lineno,
    )
    for field, want in (("line_no_start", prev_name), ("line_no_end", "state['acc']"), ("value", "statement")):
        ok = kw.get(field) == want or (field == "line_no_end" and kw.get(field) in end_names)
        ctx.ob(
            "C09.lines",
            one,
            "common_kwargs[{}] = {}".format(field, kw.get(field)),
            ok,
            "" if ok else "node field {} must be {} (is {}): node text / line range no longer tile the input".format(field, want, kw.get(field)),
            line=ck[0].lineno,
        )
    # statement must not be rebound before common_kwargs
    rebinds = [
        n
        for n in iter_own(one.node)
        if isinstance(n, (ast.Assign, ast.AugAssign, ast.AnnAssign))
        and any(isinstance(t, ast.Name) and t.id == "statement" for t in (n.targets if isinstance(n, ast.Assign) else [n.target]))
    ]
    ctx.ob("C09.lines", one, "parameter `statement` never rebound", not rebinds, "" if not rebinds else "`statement` is rebound: node value is no longer the scanner's chunk", line=one.node.lineno)
    # every return builds its node with **common_kwargs
    rets = [n for n in iter_own(one.node) if isinstance(n, ast.Return)]
    ctx.need(len(rets) >= 1, "cst_parse_one_node returns vanished")
    for r in rets:
        c = r.value
        ok = (
            isinstance(c, ast.Call)
            and any(k.arg is None and norm(k.value) == ck_name for k in c.keywords)
            and not any(k.arg in ("value", "line_no_start", "line_no_end") for k in c.keywords)
        )
        ctx.ob(
            "C09.lines",
            one,
            r,
            ok,
            "" if ok else "a return path constructs its node without **common_kwargs (or overrides value / line numbers)",
        )
    # wrapper: parsed.append exactly once, of the function's result
    wb = [s for s in wrap.node.body if not (isinstance(s, ast.Expr) and isinstance(s.value, ast.Constant))]
    texts = [norm(s) for s in wb]
    ok = (
        len(wb) == 3
        and texts[0] == "state['prev_node'] = function(statement, state)"
        and texts[1] == "state['parsed'].append(state['prev_node'])"
        and texts[2] == "return state['prev_node']"
    )
    ctx.ob(
        "C09.lines",
        wrap,
        "wrapper appends each parsed node exactly once, in order",
        ok,
        "" if ok else "set_prev_node.wrapper no longer records exactly one node per scanned chunk: {}".format(texts),
        line=wrap.node.lineno,
    )
    deco = [norm(d) for d in one.node.decorator_list]
    ctx.ob("C09.lines", one, "@set_prev_node", deco == ["set_prev_node"], "" if deco == ["set_prev_node"] else "decorators changed: {}".format(deco), line=one.node.lineno)
    # cst_parser
    # the local holding the parser state: what is handed to cst_parse_one_node as `state=`
    snames = {
        norm(k.value)
        for c in iter_own(parser.node)
        if isinstance(c, ast.Call) and norm(c.func) == "partial" and c.args and norm(c.args[0]) == "cst_parse_one_node"
        for k in c.keywords
        if k.arg == "state" and isinstance(k.value, ast.Name)
    }
    # ... or calls it directly in a loop: cst_parse_one_node(chunk, state=S) / cst_parse_one_node(chunk, S)
    direct = [c for c in iter_own(parser.node) if isinstance(c, ast.Call) and norm(c.func) == "cst_parse_one_node"]
    for c in direct:
        sv = next((k.value for k in c.keywords if k.arg == "state"), c.args[1] if len(c.args) > 1 else None)
        if isinstance(sv, ast.Name):
            snames.add(sv.id)
    ctx.need(len(snames) == 1, "cst_parser no longer hands one local as state= to cst_parse_one_node")
    sname = snames.pop()
    state_init = [n for n in iter_own(parser.node) if isinstance(n, ast.Assign) and norm(n.targets[0]) == sname and isinstance(n.value, ast.Dict)]
    if not state_init:
        # not a fresh literal: an alias / (shallow) copy of a module-level object?
        other = [n for n in iter_own(parser.node) if isinstance(n, ast.Assign) and norm(n.targets[0]) == sname]
        ctx.need(len(other) == 1, "state initialisation vanished from cst_parser")
        v = other[0].value
        src = None
        deep = False
        if isinstance(v, ast.Call) and isinstance(v.func, ast.Attribute) and v.func.attr == "copy" and not v.args:
            src = v.func.value
        elif isinstance(v, ast.Call) and norm(v.func) in ("dict", "copy", "copy.copy") and len(v.args) == 1:
            src = v.args[0]
        elif isinstance(v, ast.Call) and norm(v.func) in ("deepcopy", "copy.deepcopy") and len(v.args) == 1:
            src, deep = v.args[0], True
        elif isinstance(v, (ast.Name, ast.Attribute)):
            src = v
        r = index.resolve(parser.mod, src, parser) if src is not None else None
        mv = index.module_var(r) if r else None
        ctx.need(mv is not None and isinstance(getattr(mv[1][-1], "value", None), ast.Dict), "cannot understand how cst_parser initialises its state: {}".format(short(v, 60)))
        lit = mv[1][-1].value
        ctx.ob(
            "C09.lines",
            parser,
            other[0],
            deep,
            ""
            if deep
            else "the parser state is {} of module-level {} whose `parsed` list is then shared between calls: from the "
            "second cst_parse in a process on, the result also contains the nodes of earlier parses (neither "
            "lossless nor tiling)".format("an alias" if isinstance(v, (ast.Name, ast.Attribute)) else "a shallow copy", r),
        )
        state_init = [ast.Assign(targets=other[0].targets, value=lit, lineno=other[0].lineno)]
    d = {k.value: norm(x) for k, x in zip(state_init[0].value.keys, state_init[0].value.values) if isinstance(k, ast.Constant)}
    # the first line is number 1: the literal, or a parameter whose default is the literal 1
    def default_one(fn, name):
        a = fn.node.args
        pos = a.posonlyargs + a.args
        for prm, dflt in list(zip(pos[len(pos) - len(a.defaults):], a.defaults)) + [(k, v) for k, v in zip(a.kwonlyargs, a.kw_defaults) if v is not None]:
            if prm.arg == name:
                return isinstance(dflt, ast.Constant) and dflt.value == 1 and not isinstance(dflt.value, bool)
        return False

    ok = (d.get("acc") == "1" or default_one(parser, d.get("acc") or "")) and d.get("parsed") == "[]"
    ctx.ob("C09.lines", parser, "state = {acc: 1, parsed: []}", ok, "" if ok else "line numbering must start at 1 with an empty node list: {}".format(d), line=state_init[0].lineno)
    maps = [
        n
        for n in iter_own(parser.node)
        if isinstance(n, ast.Call) and norm(n.func) == "map" and len(n.args) == 2
    ]
    ok = (
        len(maps) == 1
        and norm(maps[0].args[1]) == parser.params[0]
        and norm(maps[0].args[0]) == "partial(cst_parse_one_node, state={})".format(sname)
    )
    drained = any(
        isinstance(n, ast.Call) and norm(n.func) in ("deque", "list", "tuple") and n.args and n.args[0] in maps
        for n in iter_own(parser.node)
    )
    # a third spelling: the partial bound to a local once, then applied in the loop — `p = partial(cst_parse_one_node,
    # state=S)`; `for chunk in scanned: p(chunk)`
    bound_partials = {
        n.targets[0].id
        for n in iter_own(parser.node)
        if isinstance(n, ast.Assign)
        and len(n.targets) == 1
        and isinstance(n.targets[0], ast.Name)
        and norm(n.value) == "partial(cst_parse_one_node, state={})".format(sname)
    }
    if not maps and not direct and bound_partials:
        direct = [c for c in iter_own(parser.node) if isinstance(c, ast.Call) and isinstance(c.func, ast.Name) and c.func.id in bound_partials and len(c.args) == 1 and not c.keywords]
    if not maps and direct:
        # the loop form: `for chunk in <scanned>: cst_parse_one_node(chunk, state=S)` — the call is an unconditional
        # top-level statement of a loop over exactly the parameter, the loop itself is unconditional, no break/continue
        loops = [
            n
            for n in parser.node.body
            if isinstance(n, ast.For) and norm(n.iter) == parser.params[0] and isinstance(n.target, ast.Name) and not n.orelse
        ]
        ok = drained = (
            len(loops) == 1
            and len(direct) == 1
            and any(isinstance(st, ast.Expr) and st.value is direct[0] for st in loops[0].body)
            and norm(direct[0].args[0]) == loops[0].target.id
            and not any(isinstance(x, (ast.Break, ast.Continue, ast.Return)) for st in loops[0].body for x in ast.walk(st))
        )
    ctx.ob(
        "C09.lines",
        parser,
        "every scanned chunk is parsed, in order",
        ok and drained,
        "" if ok and drained else "cst_parser no longer maps cst_parse_one_node over all of `scanned` (slice / filter / lazy map)",
        line=parser.node.lineno,
    )
    rets = [n for n in iter_own(parser.node) if isinstance(n, ast.Return)]
    ok = len(rets) == 1 and norm(rets[0].value) == "tuple({}['parsed'])".format(sname)
    ctx.ob("C09.lines", parser, "return tuple(state['parsed'])", ok, "" if ok else "cst_parser returns {}".format([norm(r.value) for r in rets]), line=parser.node.lineno)
    # cst_parse is the plain composition
    pb = [norm(s) for s in parse.node.body if not (isinstance(s, ast.Expr) and isinstance(s.value, ast.Constant))]
    # extra keyword arguments that merely forward one of cst_parse's own defaulted parameters under the same name are
    # part of the plain composition
    import re as _re

    defaulted = {a_.arg for a_ in parse.node.args.args[len(parse.node.args.args) - len(parse.node.args.defaults):]} | {
        a_.arg for a_, v_ in zip(parse.node.args.kwonlyargs, parse.node.args.kw_defaults) if v_ is not None
    }
    for nm in defaulted:
        # (keyword spelling, or — keyword calls to package functions are normalised to positional — a trailing positional)
        pb = [_re.sub(r",\s*(?:{0}=)?{0}(?=[,)])".format(_re.escape(nm)), "", line) for line in pb]
    cn = lambda lines: ctx._canon(parse.mod.name, parse.short, " ; ".join(lines))
    comp = cn(pb) in (
        cn(["scanned = cst_scanner(source)", "parsed = cst_parser(scanned)", "return parsed"]),
        cn(["return cst_parser(cst_scanner(source))"]),
    )
    ctx.ob("C09.lines", parse, "cst_parse = cst_parser . cst_scanner", comp, "" if comp else "cst_parse is no longer the plain composition: {}".format(pb), line=parse.node.lineno)
