"""
C08 — one conversion round reaches a fixpoint (necessary part).

C08.growth : a *growth site* is a statement that reads an interface slot (or the local it came from),
             wraps / extends the value with a normalisation artefact (`Optional[..]`, `List[..]`, a
             trailing '.', ' Defaults to ', back-tick quoting, `[PK]` / `[FK(..)]` markers) and stores it
             back into the same slot. Every growth site must be discharged:
   (a) guarded by absence  — dominated by a test that the artefact is not there yet;
   (b) paired with a strip — the sibling emitter/parser removes it again (frozen table, verified);
   (c) type-changing       — the wrapped value is an AST node / goes through to_code: it cannot re-enter;
   (d) consumes its trigger — the marker that triggers the growth is removed by the same block.
An undischarged growth site makes round n+1 differ from round n (Optional[Optional[..]], '..',
a second ' Defaults to ').
"""

import ast
import re

from ..core import iter_own, norm, short
from ..walker import GuardWalker

# artefact -> (regex over the constant strings of the value, tokens an absence test must mention)
ARTEFACTS = {
    "Optional[..]": (re.compile(r"Optional\[\{"), ("Optional",)),
    "List[..]": (re.compile(r"List\[\{"), ("List", "append")),
    "Defaults to": (re.compile(r"Defaults to"), ("has_defaults", "Defaults to", "defaults to", "'Defaults' in", "'defaults' in")),
    "back-tick quoting": (re.compile(r"```\{"), ("code_quoted", "```")),
    "[PK]": (re.compile(r"\[PK\]"), ("[PK]",)),
    "[..] marker": (re.compile(r"^\[\{\}\]"), ("longname", "primary_key", "foreign_key")),
}
# (b) growth site -> the sibling that strips the artefact again (verified on every run)
PAIRED = {
    ("cdd.sqlalchemy.utils.parse_utils.column_call_to_param", "_param['doc'] += '.'"): (
        "cdd.sqlalchemy.utils.emit_utils._handle_column_keywords",
        "rstrip('.')",
        "the Column emitter strips the terminal full stop the Column parser adds",
    ),
}


SLOT_KEYS = frozenset(("typ", "doc", "default"))


def _slot(t, f=None):
    """
    normalised text of an assignment target that is an interface slot (`x['typ'|'doc'|'default']`) or
    a local initialised from one; values freshly derived from source syntax are not slots
    """
    if isinstance(t, ast.Subscript) and isinstance(t.slice, ast.Constant) and t.slice.value in SLOT_KEYS:
        return norm(t)
    if isinstance(t, ast.Name) and f is not None:
        from ..defuse import local_defs

        for d in local_defs(f).get(t.id, []):
            for x in ast.walk(d):
                if isinstance(x, ast.Subscript) and isinstance(x.slice, ast.Constant) and x.slice.value in SLOT_KEYS and not any(
                    y is x for y in ()
                ):
                    # direct read of a slot (not through .format of itself)
                    if t.id not in norm(d):
                        return norm(t)
    return None


def _artefacts_in(value, slot):
    """artefacts wrapped around `slot` by the value expression (not those only used to test / strip)"""
    out = []
    for c in ast.walk(value):
        if isinstance(c, ast.Constant) and isinstance(c.value, str):
            for name, (rx, _toks) in ARTEFACTS.items():
                if rx.search(c.value):
                    out.append(name)
    return out


def run(ctx):
    """entry"""
    index = ctx.index
    ctx.explanation = (
        "Enumeration of every store-back statement in the parsers/emitters whose value wraps the slot it "
        "reads with a normalisation artefact (vocabulary read from the code's own format templates), and "
        "discharge of each by one of four structurally recognised arguments: dominating absence test (guard "
        "facts), frozen+verified strip partner, type change (AST -> str), trigger consumed by the same block."
    )
    ctx.assumptions += [
        "NOT decided: idempotence of the value-level normalisers (parse_adhoc_doc_for_typ's prose heuristics, "
        "quoting of arbitrary defaults), i.e. the equality of round n and round n+1 itself",
        "emission templates (text that leaves the IR) and values freshly derived from source syntax are not "
        "growth sites",
    ]
    n_sites = 0
    kinds = {}
    seen_pairs = set()
    from ..core import RefGraph
    from ..region import Facts

    ctx_facts = Facts(index, RefGraph(index))
    for f in index.nontest_funcs():
        if not any(x in f.mod.name for x in ("parse", "emit", "docstring_parsers", "defaults_utils", "ast_utils", "parser_utils", "shared_utils")):
            continue
        facts_at = {}

        def on_stmt(s, facts, _fa=facts_at):
            _fa[id(s)] = facts

        walked = False
        for n in iter_own(f.node):
            if not isinstance(n, (ast.Assign, ast.AugAssign, ast.AnnAssign)) or n.value is None:
                continue
            t = n.targets[0] if isinstance(n, ast.Assign) else n.target
            slot = _slot(t, f)
            if slot is None:
                continue
            vtxt = norm(n.value)
            arts = []
            if isinstance(n, ast.AugAssign) and isinstance(n.op, ast.Add) and isinstance(n.value, ast.Constant) and n.value.value in (".", ". "):
                arts = ["terminal full stop"]
            elif slot in vtxt or isinstance(n, ast.AugAssign):
                arts = _artefacts_in(n.value, slot)
                # pure strip shapes: the constant only measures / tests the artefact
                if arts and re.search(r"\[len\(", vtxt) and ".format(" not in vtxt:
                    arts = []
            if not arts:
                continue
            if not walked:
                GuardWalker(on_stmt=on_stmt).walk_function(f.node)
                # nested functions are walked on their own (f is the nested Func)
                walked = True
            n_sites += 1
            art = arts[0]
            facts = facts_at.get(id(n)) or {}
            # a growth statement extracted into a private helper is guarded at the helper's call sites
            merged = ctx_facts.at(f, n)
            for k_, v_ in merged.items():
                facts.setdefault(k_, v_)
            how, why = _discharge(index, f, n, slot, art, facts, seen_pairs, canon=lambda t, _f=f: ctx._canon(_f.mod.name, _f.short, t))
            kinds[how or "UNDISCHARGED"] = kinds.get(how or "UNDISCHARGED", 0) + 1
            ctx.ob(
                "C08.growth",
                f,
                n,
                how is not None,
                "discharged ({}): {}".format(how, why)
                if how
                else "growth site for `{}` is not guarded by an absence test, has no strip partner, does not change type "
                "and does not consume its trigger: a second round wraps again ({})".format(art, why),
            )
    ctx.count("growth_sites", n_sites)
    ctx.extra["discharge_kinds"] = kinds
    ctx.floor("growth sites", n_sites, 5)
    for key in PAIRED:
        ctx.need(key in seen_pairs, "strip-pair table entry no longer matches a growth site: {}".format(key))
    # strip-family calls take a SET of characters: a word-like argument means a prefix/suffix was meant, and
    # the value loses more than the artefact the sibling added (so the round trip does not close)
    n_strip = strip_rule(ctx, "C08.strip", index.nontest_funcs())
    ctx.count("strip_calls_with_constant_argument", n_strip)
    # a transformation applied by an emitter that its parser does not undo is growth outside the IR slots:
    # the JSON-schema Literal <-> pattern siblings (shared with C06.pattern)
    from .c06 import _pattern

    ctx.section(_pattern, ctx, index)
    from . import c10 as _c10_state

    ctx.section(_c10_state.state_slice, ctx, 'C08.state', ['cdd.class_.emit.class_', 'cdd.class_.parse.class_', 'cdd.function.emit.function', 'cdd.function.parse.function', 'cdd.argparse_function.emit.argparse_function', 'cdd.argparse_function.parse.argparse_ast', 'cdd.docstring.emit.docstring', 'cdd.docstring.parse.docstring', 'cdd.json_schema.emit.json_schema', 'cdd.json_schema.parse.json_schema'], 5)


def strip_rule(ctx, rule, funcs):
    """
    strip-family calls take a SET of characters: a word-like argument (`.rstrip("Body")`, `.lstrip("[FK(")`) means a
    prefix/suffix was meant, and values that begin/end with one of those characters lose more than the affix.
    Shared: C08 (whole package), C05 (SQLAlchemy marker handling), C01 (docstring text).
    """
    n_strip = 0
    for f in funcs:
        for n in iter_own(f.node):
            if (
                isinstance(n, ast.Call)
                and isinstance(n.func, ast.Attribute)
                and n.func.attr in ("strip", "lstrip", "rstrip")
                and n.args
                and isinstance(n.args[0], ast.Constant)
                and isinstance(n.args[0].value, str)
            ):
                n_strip += 1
                a = n.args[0].value
                letters = {ch for ch in a if ch.isalpha()}
                wordish = len(a) >= 3 and (a.isalnum() and len(set(a)) >= 3 or len(letters) >= 2 and not a.isalnum() and any(ch in "[]()<>{}" for ch in a))
                ctx.ob(
                    rule,
                    f,
                    n,
                    not wordish,
                    ""
                    if not wordish
                    else "`.{}({!r})` removes any of the characters {} from the end(s), not the affix {!r}: values that end "
                    "in one of those letters are over-stripped".format(n.func.attr, a, sorted(set(a)), a),
                )
    return n_strip


def _discharge(index, f, n, slot, art, facts, seen_pairs, canon=None):
    """(kind, reason) or (None, what was looked for)"""
    stmt_txt = " ".join(norm(n).split())
    canon = canon or (lambda t: t)
    root = slot.split("[")[0]
    # (b) frozen pair, verified (the statement is compared with local names abstracted away)
    for (q, text), (pq, strip, reason) in PAIRED.items():
        if f.qual == q and canon(stmt_txt) == canon(text):
            seen_pairs.add((q, text))
            pf = index.func(pq)
            if any(strip in norm(x) for x in iter_own(pf.node) if isinstance(x, ast.Call)):
                return "b", reason
            return None, "its strip partner {} no longer contains {}".format(pq, strip)
    toks = ARTEFACTS.get(art, (None, ()))[1] if art in ARTEFACTS else (".",)
    # (a) dominating absence test
    def _names_the_artefact(text):
        """the condition mentions the artefact itself, or a flag whose (only) definition does: a flag that merely keeps
        the old NAME (`has_defaults = extract_default(doc)[1] is not None`) is not a test for the artefact"""
        def defs_of(tok):
            return [x for x in iter_own(f.node) if isinstance(x, (ast.Assign, ast.AnnAssign)) and x.value is not None and any(isinstance(t, ast.Name) and t.id == tok for t in (x.targets if isinstance(x, ast.Assign) else [x.target]))]

        flags = {tok: defs_of(tok) for tok in toks if tok.isidentifier()}
        flags = {tok: d for tok, d in flags.items() if d}
        hard = [tok for tok in toks if tok not in flags]
        if any(tok in text for tok in hard):
            return True
        for tok, defs in flags.items():
            if tok in text and all(any(h in norm(d.value) for h in hard) for d in defs):
                return True
        return False

    for text, truth in facts.items():
        if _names_the_artefact(text):
            try:
                if isinstance(ast.parse(text, mode="eval").body, ast.BoolOp):
                    continue  # a compound condition being false says nothing about one conjunct
            except SyntaxError:
                continue
            positive = not (" not in " in text)
            # `artefact present` must be known false
            if (positive and truth is False) or (not positive and truth is True):
                return "a", "dominated by `{}` being {}".format(short(text, 60), truth)
    # IfExp inside the value carrying the absence test (x if present else wrap(x))
    for sub in ast.walk(n.value):
        if isinstance(sub, ast.IfExp) and any(tok in norm(sub.test) for tok in toks):
            return "a", "the wrap sits in the arm of `{}`".format(short(sub.test, 60))
    # the growth statement is the body of a helper that is only called under the test (nested def)
    if f.outer is not None:
        for x in iter_own(f.node):
            if isinstance(x, ast.If) and any(tok in norm(x.test) for tok in toks) and any(n is y for b in x.body for y in ast.walk(b)):
                return "a", "guarded inside the helper by `{}`".format(short(x.test, 60))
    # (c) type-changing
    for text, truth in facts.items():
        if "isinstance(" in text and ("AST" in text or "ast." in text) and truth is True:
            return "c", "only for AST-valued input (`{}`), result is a str".format(short(text, 50))
    vt = norm(n.value)
    if "to_code(" in vt or "isinstance(lit, ast.AST)" in vt:
        return "c", "wraps the rendering of an AST node; the stored str cannot be an AST again"
    # (d) consumes its trigger
    for text, truth in facts.items():
        if truth is True and ".endswith(" in text:
            suffix = text.partition(".endswith(")[2].rstrip(")")
            if "[:-len({})]".format(suffix) in vt.replace(" ", "") or "[:-len(" in vt.replace(" ", ""):
                return "d", "the `{}` suffix that triggers it is sliced off".format(suffix)
        if ".pop(" in text and truth is True:
            return "d", "its trigger is popped by the guard `{}`".format(short(text, 50))
        if truth is True and text.endswith(" in " + root):
            # marker key folded into the doc and deleted in the same block
            blk = f.mod.parents.get(n)
            if any(isinstance(x, ast.Delete) and (root + "[") in norm(x) for b in getattr(blk, "body", []) for x in ast.walk(b)):
                return "d", "the key that triggers it ({}) is deleted in the same block".format(short(text, 40))
    for sub in ast.walk(n.value):
        if isinstance(sub, ast.IfExp) and ".endswith(" in norm(sub.test) and "[:-len(" in norm(sub.body).replace(" ", ""):
            return "d", "the suffix that triggers it is sliced off in the same expression"
    # the guard may pop its trigger in a disjunct: `... or _param.pop('nullable', False)`
    p = f.mod.parents.get(n)
    while p is not None and p is not f.node:
        if isinstance(p, ast.If):
            from ..defuse import expand_aliases

            # the popped trigger may have been given a name first: nullable = _param.pop("nullable", False)
            tt = norm(expand_aliases(f, p.test))
            if any(tok in tt for tok in toks) and ".pop(" in tt:
                return "a", "guarded by absence test, the other disjunct pops its trigger: `{}`".format(short(tt, 70))
        p = f.mod.parents.get(p)
    return None, "facts at the site: {}".format({short(k, 40): v for k, v in list(facts.items())[:4]})
