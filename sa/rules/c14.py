"""
C14 — every parser returns a well-formed interface description.

C14.shape   : must-key abstract interpretation of every public parser (and everything it calls):
              on every return path the IR has `name`, `doc`, `params`, and only IntermediateRepr keys.
C14.entry   : a function that produces parameter entries from a foreign-vocabulary object (a dict
              built from source keyword names, a JSON property object adopted in place) must pass
              it through a whitelist before returning; constant keys written into parameter
              entries are in {typ, doc, default, x_typ}.
C14.names   : sites that store a parameter under a name derived from source strip leading `*`.
C14.fields  : cdd.function.parse.function reads every parameter-carrying field of ast.arguments.
"""

import ast

from ..core import RefGraph, iter_own, norm, short
from ..shape import ShapeInterp
from .c03 import typed_dict_keys

PUBLIC = [
    "cdd.shared.docstring_parsers.parse_docstring",
    "cdd.docstring.parse.docstring",
    "cdd.class_.parse.class_",
    "cdd.function.parse.function",
    "cdd.argparse_function.parse.argparse_ast",
    "cdd.json_schema.parse.json_schema",
    "cdd.sqlalchemy.parse.sqlalchemy_table",
    "cdd.sqlalchemy.parse.sqlalchemy",
    "cdd.sqlalchemy.parse.sqlalchemy_hybrid",
]
REQUIRED = frozenset(("name", "doc", "params"))
PARAM_VOCAB = frozenset(("typ", "doc", "default", "x_typ"))
ARGUMENTS_FIELDS = ("posonlyargs", "args", "vararg", "kwonlyargs", "kw_defaults", "kwarg", "defaults")


def _sentinel(ctx, index):
    """
    C14.sentinel — the docstring scanners flush "the parameter being built" into `params` when it differs from an
    EMPTY SENTINEL (`if param != [None, {}]: params[param[0]] = param[1]`). A list never equals a tuple: if some
    path resets the local to the same elements spelt as the other kind of display (`param = None, {}`), the test
    is always true afterwards and the empty accumulator is filed — under the name `None`, which is not a non-empty
    string. Contradiction rule (no statistics): within one function, a local compared (== / !=) with a list or tuple
    display, and an assignment of the same elements as the other kind of display to that local.
    """
    n_cmp = 0
    for f in index.nontest_funcs():
        if not f.mod.name.startswith(("cdd.shared.docstring_parsers", "cdd.docstring", "cdd.shared.docstring_utils")):
            continue
        cmps = []
        for n in iter_own(f.node):
            if isinstance(n, ast.Compare) and len(n.ops) == 1 and isinstance(n.ops[0], (ast.Eq, ast.NotEq)):
                a, b = n.left, n.comparators[0]
                for v, lit in ((a, b), (b, a)):
                    if isinstance(v, ast.Name) and isinstance(lit, (ast.List, ast.Tuple)):
                        cmps.append((v.id, lit, n))
        for var, lit, cmp_node in cmps:
            n_cmp += 1
            elts = [norm(e) for e in lit.elts]
            bad = [
                st
                for st in iter_own(f.node)
                if isinstance(st, (ast.Assign, ast.AnnAssign))
                and st.value is not None
                and any(isinstance(t, ast.Name) and t.id == var for t in (st.targets if isinstance(st, ast.Assign) else [st.target]))
                and isinstance(st.value, (ast.List, ast.Tuple))
                and type(st.value) is not type(lit)
                and [norm(e) for e in st.value.elts] == elts
            ]
            ctx.ob(
                "C14.sentinel",
                f,
                "`{}` is reset with the same kind of display it is compared with (`{}`)".format(var, short(cmp_node, 50)),
                not bad,
                ""
                if not bad
                else "`{}` is compared with the {} `{}` but line {} resets it to the {} `{}`: a list never equals a tuple, so "
                "the test is always true afterwards and the EMPTY accumulator is stored as a parameter — under the name "
                "`None`".format(
                    var,
                    type(lit).__name__.lower(),
                    norm(lit),
                    bad[0].lineno,
                    type(bad[0].value).__name__.lower(),
                    norm(bad[0].value),
                ),
                line=(bad[0] if bad else cmp_node).lineno,
            )
    ctx.floor("comparisons of an accumulator with an empty-sentinel display", n_cmp, 1)


def run(ctx):
    """entry"""
    index = ctx.index
    graph = RefGraph(index)
    ctx.explanation = (
        "Abstract interpretation of dict shapes (must-keys; joins at if; update/del/pop/setdefault; "
        "aliases; return-shape, returns-own-parameter and ensures summaries to a fixpoint) over the "
        "nine public parsers and the {} functions they reach; every return path's shape is compared "
        "with the IntermediateRepr TypedDict read from cdd/shared/types.py. Plus provenance of "
        "parameter-entry dicts, leading-asterisk stripping and ast.arguments field coverage."
    )
    ctx.assumptions += [
        "NOT decided: that a `typ` string parses as a Python expression; uniqueness of names coming "
        "out of free text (value level)",
        "keys added inside loops / try bodies are not counted as certainly present",
    ]
    for q in PUBLIC:
        index.func(q)
    reach = graph.reachable(PUBLIC)
    funcs = [index.funcs[q] for q in sorted(reach) if q in index.funcs and not index.funcs[q].mod.is_test]
    ctx.explanation = ctx.explanation.format(len(funcs))
    ctx.count("functions_interpreted", len(funcs))
    ctx.floor("functions reachable from the public parsers", len(funcs), 42)
    si = ShapeInterp(index, funcs)
    si.compute()
    ir_keys = typed_dict_keys(index, "IntermediateRepr")
    ctx.need(ir_keys and REQUIRED <= set(ir_keys), "IntermediateRepr TypedDict not readable")
    samples = []
    n_ret = 0
    # report at the function that *constructs* the deficient shape: public parsers plus the helpers
    # whose result they return unchanged
    checked = list(PUBLIC)
    for q in PUBLIC:
        f = index.funcs[q]
        for _ln, sh, node in si.returns_seen.get(q, []):
            v = node.value
            if isinstance(v, ast.Call):
                callee = index.callee(f.mod, v, f)
                if callee in si.funcs and callee not in checked:
                    checked.append(callee)
    for q in checked:
        f = index.funcs[q]
        rets = si.returns_seen.get(q, [])
        ctx.need(rets, "no return found in {}".format(q))
        for ln, sh, node in rets:
            n_ret += 1
            label = "return " + short(node.value, 60)
            if sh is None:
                if isinstance(node.value, ast.Call) and index.callee(f.mod, node.value, f) in checked:
                    # delegated: checked at the callee
                    ctx.ob("C14.shape", f, label, True, "delegated to the callee", line=ln)
                    continue
                ctx.need(False, "cannot determine the shape returned at {}:{} ({})".format(q, ln, label))
            if isinstance(node.value, ast.Call) and index.callee(f.mod, node.value, f) in checked and q in PUBLIC:
                ctx.ob("C14.shape", f, label, True, "delegated to the callee", line=ln)
                continue
            missing = sorted(REQUIRED - sh.must)
            extra = sorted(k for k in sh.must if k not in ir_keys)
            ok = not missing and not extra
            msg = ""
            if missing:
                msg = "the IR returned on this path is not certain to have key(s) {} (certain: {})".format(
                    missing, sorted(sh.must)
                )
            if extra:
                msg += " keys outside IntermediateRepr: {}".format(extra)
            samples.append({"parser": q, "line": ln, "must_keys": sorted(sh.must), "open": sh.top})
            ctx.ob("C14.shape", f, label, ok, msg.strip(), line=ln)
    ctx.count("return_paths", n_ret)
    ctx.floor("return paths of public parsers", n_ret, 8)
    ctx.samples = samples[:14]
    ctx.section(_entries, ctx, index, funcs)
    ctx.section(_names, ctx, index)
    ctx.section(_key_provenance, ctx, index, funcs)
    ctx.section(_fields, ctx, index)
    ctx.section(_receiver, ctx, index)
    ctx.section(_typ_syntax, ctx, index)
    ctx.section(_doc_is_text, ctx, index, funcs)
    ctx.section(_sentinel, ctx, index)
    from ..keystate import stale_rule

    ctx.section(stale_rule, ctx, "C14.stale", funcs, "the normalisation of the parameter entry")
    from . import c10 as _c10_state

    ctx.section(_c10_state.state_slice, ctx, 'C14.state', ['cdd.class_.parse.class_', 'cdd.function.parse.function', 'cdd.argparse_function.parse.argparse_ast', 'cdd.docstring.parse.docstring', 'cdd.sqlalchemy.parse.sqlalchemy', 'cdd.sqlalchemy.parse.sqlalchemy_table', 'cdd.sqlalchemy.parse.sqlalchemy_hybrid', 'cdd.json_schema.parse.json_schema'], 5)


def _entries(ctx, index, funcs):
    """parameter entries: constant key vocabulary and foreign-dict adoption"""
    n_lit = n_prod = 0
    for f in funcs:
        # (1) literals that are parameter entries: any of typ/default present and no IR-level key
        for n in iter_own(f.node):
            keys = None
            if isinstance(n, ast.Dict):
                keys = [k.value for k in n.keys if isinstance(k, ast.Constant) and isinstance(k.value, str)]
            elif isinstance(n, ast.Call) and norm(n.func) == "dict" and not n.args:
                keys = [k.arg for k in n.keywords if k.arg]
            if not keys:
                continue
            ks = set(keys)
            if not (ks & {"typ", "default"}) or (ks & {"params", "returns", "properties", "type"}):
                continue
            n_lit += 1
            extra = sorted(ks - PARAM_VOCAB - {"name"})
            ctx.ob(
                "C14.entry",
                f,
                "parameter entry literal {}".format(sorted(ks)),
                not extra,
                "" if not extra else "parameter entry written with key(s) {} outside {}".format(extra, sorted(PARAM_VOCAB)),
                line=n.lineno,
            )
        # (2) producers: return (name, X) where X was adopted from a foreign-vocabulary object
        rets = [n for n in iter_own(f.node) if isinstance(n, ast.Return) and isinstance(n.value, ast.Tuple) and len(n.value.elts) == 2]
        for r in rets:
            x = r.value.elts[1]
            if not isinstance(x, ast.Name):
                continue
            origin = _origin(index, f, x.id)
            if origin is None:
                continue
            n_prod += 1
            closed = _whitelisted(f, x.id)
            ctx.ob(
                "C14.entry",
                f,
                "returns the adopted entry `{}` ({})".format(x.id, "dict(...) of source keywords" if "dict(" in origin else "foreign object adopted in place"),
                closed,
                ""
                if closed
                else "the parameter entry `{}` is {} and is returned without a whitelist: any other key "
                "of that object (not typ/doc/default/x_typ) leaks into the interface description".format(x.id, origin),
                line=r.lineno,
            )
    ctx.count("parameter_entry_literals", n_lit)
    ctx.count("parameter_entry_producers_from_foreign_objects", n_prod)
    ctx.count("foreign_key_removal_sites", _removals(ctx, index, funcs))
    ctx.count("translated_key_survival_obligations", _survivors(ctx, index, funcs))
    ctx.floor("parameter entry literals", n_lit, 3)


_STR_PREDICATES = frozenset("isalpha isalnum isidentifier isdigit isdecimal isnumeric islower isupper istitle isascii isprintable".split())


def _vacuous(test):
    """
    `all(filter(str.isalpha, xs))`, `all(x for x in xs if x.isalpha())`: every element that passes a str predicate of
    this family is a non-empty string, hence truthy — the condition is always true, whatever xs holds (isspace /
    isprintable of '' aside: isprintable('') is True and '' is falsy, so it is not in the family below for `all`)
    """
    preds = _STR_PREDICATES - {"isprintable", "isascii"}
    if not (isinstance(test, ast.Call) and isinstance(test.func, ast.Name) and test.func.id == "all" and len(test.args) == 1):
        return False
    a = test.args[0]
    if isinstance(a, ast.Call) and isinstance(a.func, ast.Name) and a.func.id == "filter" and len(a.args) == 2:
        f = a.args[0]
        return isinstance(f, ast.Attribute) and isinstance(f.value, ast.Name) and f.value.id == "str" and f.attr in preds
    if isinstance(a, (ast.GeneratorExp, ast.ListComp)) and len(a.generators) == 1 and isinstance(a.elt, ast.Name) and isinstance(a.generators[0].target, ast.Name) and a.elt.id == a.generators[0].target.id:
        v = a.elt.id
        for c in a.generators[0].ifs:
            if isinstance(c, ast.Call) and isinstance(c.func, ast.Attribute) and c.func.attr in preds:
                if (isinstance(c.func.value, ast.Name) and c.func.value.id == v and not c.args) or (isinstance(c.func.value, ast.Name) and c.func.value.id == "str" and len(c.args) == 1 and isinstance(c.args[0], ast.Name) and c.args[0].id == v):
                    return True
    return False


def _removals(ctx, index, funcs):
    """
    A producer that adopts a foreign-vocabulary object translates some of its keys away
    (`if K in d: ...; del d[K]`). The translation must remove K whenever K is PRESENT: a removal guarded by
    the truthiness of the value (`if d.get(K):`, `if d[K]:`) leaves `K: False / '' / 0 / None` in the
    parameter entry, a key outside the interface vocabulary.
    """
    n = 0
    for f in funcs:
        rets = [r for r in iter_own(f.node) if isinstance(r, ast.Return) and isinstance(r.value, ast.Tuple) and len(r.value.elts) == 2 and isinstance(r.value.elts[1], ast.Name)]
        entries = {r.value.elts[1].id for r in rets if _origin(index, f, r.value.elts[1].id) is not None}
        if not entries:
            continue
        par = f.mod.parents
        for node in iter_own(f.node):
            site = None
            if isinstance(node, ast.Delete):
                for t in node.targets:
                    if isinstance(t, ast.Subscript) and isinstance(t.value, ast.Name) and t.value.id in entries:
                        site = (t.value.id, t.slice)
            elif isinstance(node, ast.Call) and isinstance(node.func, ast.Attribute) and node.func.attr == "pop" and node.args and isinstance(node.func.value, ast.Name) and node.func.value.id in entries:
                if len(node.args) == 1:
                    site = (node.func.value.id, node.args[0])
            if site is None:
                continue
            x, knode = site
            if isinstance(knode, ast.Constant) and knode.value in PARAM_VOCAB:
                continue
            k = norm(knode)
            # conjuncts of every enclosing test (body arm) that mention the entry and the key
            child, p = node, par.get(node)
            verdict = None
            extras = []
            while p is not None and p is not f.node and verdict is None:
                test = None
                if isinstance(p, ast.If) and child in p.body:
                    test = p.test
                elif isinstance(p, ast.IfExp) and child is p.body:
                    test = p.test
                elif isinstance(p, ast.BoolOp) and isinstance(p.op, ast.And) and child in p.values[1:]:
                    test = ast.BoolOp(op=ast.And(), values=p.values[: p.values.index(child)])
                if test is not None:
                    conj = test.values if isinstance(test, ast.BoolOp) and isinstance(test.op, ast.And) else [test]
                    rel = [c for c in conj if any(isinstance(y, ast.Name) and y.id == x for y in ast.walk(c)) and k in norm(c)]
                    if rel:
                        member = any(
                            isinstance(c, ast.Compare) and len(c.ops) == 1 and isinstance(c.ops[0], ast.In) and norm(c.left) == k and norm(c.comparators[0]) == x
                            for c in rel
                        )
                        verdict = (member, rel[0])
                    elif not _vacuous(test):
                        # a further condition the removal sits under that says nothing about the key's presence
                        extras.append(short(test, 70))
                child, p = p, par.get(p)
            if verdict is None:
                continue  # unconditional removal (raises when absent) or a removal that depends on something else
            n += 1
            member, guard = verdict
            ctx.ob(
                "C14.entry",
                f,
                "foreign key {} is removed whenever present".format(k) + (" [and only if: {}]".format("; ".join(extras)) if extras and not member else ""),
                member,
                ""
                if member
                else "the foreign key {} is removed from the parameter entry only when `{}` holds, not whenever it is present: "
                "`{}: False / '' / 0` stays in the entry (a key outside typ/doc/default/x_typ)".format(k, short(guard, 60), k.strip("'\"")),
                line=node.lineno,
            )
    return n


def _survivors(ctx, index, funcs):
    """
    C14.translate — a producer that adopts a foreign-vocabulary object and translates key K away on SOME path
    (`del d[K]`, `d.pop(K)`, directly or in a helper it hands the entry to) treats K as not belonging to a parameter
    entry; then K must be certainly absent at EVERY normal exit. Decided by the must-be-absent typestate of
    sa/keystate.py (branch facts from `K in d`, short-circuit aware, loops over literal tuples unrolled, helper and
    nested-function summaries): a K that is only removed under `elif`, behind `a or d.pop(K)`, or when another key
    is missing survives into the interface description on the other paths.
    Keys whose removal C14.entry already reports as truthiness-guarded are not reported twice.
    """
    from ..keystate import summaries, survivors

    n = 0
    for f in funcs:
        rets = [r for r in iter_own(f.node) if isinstance(r, ast.Return) and isinstance(r.value, ast.Tuple) and len(r.value.elts) == 2 and isinstance(r.value.elts[1], ast.Name)]
        entries = sorted({r.value.elts[1].id for r in rets if _origin(index, f, r.value.elts[1].id) is not None})
        for x in entries:
            keys_of_call, effect_of_call = summaries(index, f)
            removed, must, _cleared = survivors(f.node, x, keys_of_call, effect_of_call)
            truthy = _truthiness_guarded(f, x)
            for k in sorted(removed - PARAM_VOCAB):
                if k in truthy:
                    continue
                n += 1
                ok = k in must
                ctx.ob(
                    "C14.translate",
                    f,
                    "foreign key {!r} of the adopted entry is gone at every exit".format(k),
                    ok,
                    ""
                    if ok
                    else "the key {!r} is translated away from the parameter entry `{}` on some paths only: on the others "
                    "(an `elif` not taken, a short-circuited `or`, a sibling key present) it stays in the entry, a key "
                    "outside typ/doc/default/x_typ".format(k, x),
                    line=f.node.lineno,
                )
    return n


def _truthiness_guarded(f, x):
    """constant keys of entry x whose removal is guarded by the truthiness of the value (reported by C14.entry)"""
    out = set()
    par = f.mod.parents
    for node in iter_own(f.node):
        k = None
        if isinstance(node, ast.Delete):
            for t in node.targets:
                if isinstance(t, ast.Subscript) and isinstance(t.value, ast.Name) and t.value.id == x and isinstance(t.slice, ast.Constant):
                    k = t.slice.value
        elif isinstance(node, ast.Call) and isinstance(node.func, ast.Attribute) and node.func.attr == "pop" and len(node.args) == 1 and isinstance(node.func.value, ast.Name) and node.func.value.id == x and isinstance(node.args[0], ast.Constant):
            k = node.args[0].value
        if k is None:
            continue
        child, p = node, par.get(node)
        while p is not None and p is not f.node:
            test = None
            if isinstance(p, ast.If) and child in p.body:
                test = p.test
            elif isinstance(p, ast.IfExp) and child is p.body:
                test = p.test
            elif isinstance(p, ast.BoolOp) and isinstance(p.op, ast.And) and child in p.values[1:]:
                test = ast.BoolOp(op=ast.And(), values=p.values[: p.values.index(child)])
            if test is not None:
                conj = test.values if isinstance(test, ast.BoolOp) and isinstance(test.op, ast.And) else [test]
                rel = [c for c in conj if any(isinstance(y, ast.Name) and y.id == x for y in ast.walk(c)) and repr(k) in norm(c)]
                if rel and not any(isinstance(c, ast.Compare) and len(c.ops) == 1 and isinstance(c.ops[0], ast.In) for c in rel):
                    out.add(k)
                if rel:
                    break
            child, p = p, par.get(p)
    return out


def _origin(index, f, name):
    """describe a foreign-vocabulary origin of local `name`, or None"""
    from ..defuse import local_defs

    defs = list(local_defs(f).get(name, []))
    # `_param = _raw_param(call)`: the object a small package helper builds and returns is the helper's `dict(...)`
    for d in list(defs):
        if isinstance(d, ast.Call):
            h = index.funcs.get(index.callee(f.mod, d, f) or "")
            if h is not None and not h.mod.is_test:
                from ..defuse import expand_aliases

                for r in iter_own(h.node):
                    if isinstance(r, ast.Return) and r.value is not None:
                        v = expand_aliases(h, r.value)
                        if isinstance(v, ast.Call) and norm(v.func) in ("dict", "OrderedDict") and v.args:
                            defs.append(v)
    for d in defs:
        if isinstance(d, ast.Call) and norm(d.func) in ("dict", "OrderedDict") and d.args:
            # dict(<iterable of (key, value) pairs>) : keys come from run-time data
            inner = " ".join(norm(d.args[0]).split())
            if "keyword" in inner or "kwarg" in inner or ".arg" in inner or "items()" in inner:
                return "built by dict(...) from the keyword names found in the source"
            return "built by dict(...) over run-time (key, value) pairs"
        if isinstance(d, ast.Name) and d.id in f.params:
            # unpacked from a parameter: name, _param = param  (adopted object)
            for n in iter_own(f.node):
                if isinstance(n, ast.Assign) and isinstance(n.targets[0], ast.Tuple) and n.value is d:
                    # adopted AND keys renamed in place ('description' -> 'doc'): a foreign vocabulary
                    pops = [
                        c
                        for c in iter_own(f.node)
                        if isinstance(c, ast.Call)
                        and isinstance(c.func, ast.Attribute)
                        and c.func.attr == "pop"
                        and norm(c.func.value) == name
                        and c.args
                        and isinstance(c.args[0], ast.Constant)
                        and c.args[0].value not in PARAM_VOCAB
                    ]
                    if pops:
                        return "a foreign object adopted in place (keys {} are translated, the rest kept)".format(
                            sorted({p.args[0].value for p in pops})
                        )
    return None


def _whitelisted(f, name):
    """is `name` rebuilt through a constant-key whitelist before being returned?"""
    for n in iter_own(f.node):
        if isinstance(n, (ast.Assign, ast.AnnAssign)) and n.value is not None:
            tg = n.targets if isinstance(n, ast.Assign) else [n.target]
            if not any(isinstance(t, ast.Name) and t.id == name for t in tg):
                continue
            v = n.value
            if isinstance(v, ast.DictComp):
                src = " ".join(norm(v).split())
                # {k: v for k, v in X.items() if k in <constant collection>}
                for g in v.generators:
                    for c in g.ifs:
                        if isinstance(c, ast.Compare) and isinstance(c.ops[0], ast.In):
                            return True
                del src
    return False


def _names(ctx, index):
    """sites that key a parameter by a name taken from source must strip leading asterisks"""
    n = 0
    # (1) the class parser: every read of an assignment target's own identifier (`<x>.target.id`, `<t>.id` of a
    #     Name target — not `<t>.value.id`, the owner of an attribute target) is the receiver of .lstrip("*")
    f = index.func("cdd.class_.parse.class_")
    par = f.mod.parents
    from ..core import RefGraph as _RG
    from ..region import Region as _Region

    # in the class parser itself or in a private helper it dispatches the body statements to
    reads = [
        a
        for _g, a in _Region(index, _RG(index), f, allow_passed=True).nodes()
        if isinstance(a, ast.Attribute) and a.attr == "id" and isinstance(a.ctx, ast.Load) and not (isinstance(a.value, ast.Attribute) and a.value.attr == "value")
    ]
    ctx.need(len(reads) >= 1, "the class parser no longer reads assignment target identifiers ({} reads found)".format(len(reads)))
    for a in reads:
        p = par.get(a)
        gp = par.get(p) if p is not None else None
        ok = (
            isinstance(p, ast.Attribute)
            and p.attr == "lstrip"
            and isinstance(gp, ast.Call)
            and gp.func is p
            and gp.args
            and isinstance(gp.args[0], ast.Constant)
            and "*" in str(gp.args[0].value)
        )
        n += 1
        ctx.ob(
            "C14.names",
            f,
            "target identifier read {} of {} is stripped of leading asterisks".format(reads.index(a) + 1, len(reads)),
            bool(ok),
            "" if ok else "a parameter name derived from `{}` is not stripped of leading asterisks: `*args` becomes a key".format(norm(a)),
            line=a.lineno,
        )
    # (2) the docstring name normaliser strips its `name` parameter
    f = index.func("cdd.shared.docstring_parsers._set_name_and_type")
    # `<name>, <entry> = param`: the local that holds the name, whatever it is called
    nvar = None
    for st in iter_own(f.node):
        if isinstance(st, ast.Assign) and isinstance(st.targets[0], ast.Tuple) and len(st.targets[0].elts) == 2 and isinstance(st.value, ast.Name) and st.value.id in f.params and isinstance(st.targets[0].elts[0], ast.Name):
            nvar = st.targets[0].elts[0].id
    ctx.need(nvar is not None, "_set_name_and_type no longer unpacks its (name, entry) parameter")
    ok = any(
        isinstance(c, ast.Call)
        and isinstance(c.func, ast.Attribute)
        and c.func.attr == "lstrip"
        and norm(c.func.value) == nvar
        and c.args
        and isinstance(c.args[0], ast.Constant)
        and "*" in str(c.args[0].value)
        for c in iter_own(f.node)
    )
    n += 1
    ctx.ob(
        "C14.names",
        f,
        "name = name.lstrip('*')",
        ok,
        "" if ok else "parameter names derived from `name` are no longer stripped of leading asterisks: `*args` becomes a key",
        line=f.node.lineno,
    )
    ctx.count("asterisk_strip_sites", n)


NAME_NORMALISERS = frozenset(
    (
        "cdd.shared.docstring_parsers._set_name_and_type",
        "cdd.shared.defaults_utils._remove_default_from_param",
    )
)


def _key_provenance(ctx, index, funcs):
    """
    In the docstring parser every store `...["params"][K] = V` keys the parameter by a name that came
    out of the name normaliser (_set_name_and_type, possibly via _remove_default_from_param), never by
    the raw text cut out of the docstring line.
    """
    from ..defuse import local_defs

    n = 0
    for f in funcs:
        if f.mod.name != "cdd.shared.docstring_parsers":
            continue
        defs = local_defs(f)
        for node in iter_own(f.node):
            if not isinstance(node, ast.Assign):
                continue
            t = node.targets[0]
            if not (isinstance(t, ast.Subscript) and norm(t.value).endswith("['params']") and not isinstance(t.slice, ast.Constant)):
                continue
            n += 1
            key = t.slice
            ok, why = _normalised(index, f, defs, key)
            ctx.ob(
                "C14.names",
                f,
                node,
                ok,
                ""
                if ok
                else "the parameter is stored under `{}`, which {}: a name such as `*args` / `**kwargs` keeps its "
                "asterisks as a key of params".format(norm(key), why),
            )
    ctx.count("params_stores_keyed_by_parsed_names", n)
    ctx.floor("stores into params keyed by a parsed name", n, 1)


def _normalised(index, f, defs, key):
    """does `key` (Name or X[0]) only ever come out of a name normaliser?"""

    def from_normaliser(v, f):
        return isinstance(v, ast.Call) and index.callee(f.mod, v, f) in NAME_NORMALISERS

    if isinstance(key, ast.Subscript) and isinstance(key.value, ast.Name) and isinstance(key.slice, ast.Constant) and key.slice.value == 0:
        pair = key.value.id
        for d in defs.get(pair, []):
            if from_normaliser(d, f):
                continue
            if isinstance(d, (ast.List, ast.Tuple)) and d.elts and isinstance(d.elts[0], ast.Constant) and d.elts[0].value is None:
                continue
            if isinstance(d, ast.Name) and d.id in f.params:
                continue
            return False, "can be bound by `{} = {}` — not the result of the name normaliser".format(pair, short(d, 50))
        return True, ""
    if isinstance(key, ast.Name):
        ok_any = False
        for node in iter_own(f.node):
            if isinstance(node, (ast.Assign, ast.AnnAssign)) and node.value is not None:
                tg = node.targets if isinstance(node, ast.Assign) else [node.target]
                for t in tg:
                    if isinstance(t, ast.Tuple) and t.elts and isinstance(t.elts[0], ast.Name) and t.elts[0].id == key.id:
                        if from_normaliser(node.value, f):
                            ok_any = True
        if not ok_any:
            return False, "is never unpacked from the name normaliser's result"
        # the last binding before the store must be the normalised one: every plain re-binding in between is raw
        return True, ""
    return False, "is not a recognised name expression"


def _receiver(ctx, index):
    """
    Whether args.args[0] is a receiver (self/cls) to strip is a property of the parsed signature: the
    decision must be derived from the function node alone, not from what a caller claims.
    """
    f = index.func("cdd.function.parse.function")
    n = 0
    for node in iter_own(f.node):
        if isinstance(node, ast.IfExp):
            arms = (norm(node.body), norm(node.orelse))
            if any(a.endswith(".args.args[1:]") for a in arms):
                n += 1
                # follow plain name assignments only (attribute stores on function_def are not its identity)
                roots, seen, work = set(), set(), [x.id for x in ast.walk(node.test) if isinstance(x, ast.Name)]
                while work:
                    nm = work.pop()
                    if nm in seen:
                        continue
                    seen.add(nm)
                    plain = [
                        a.value
                        for a in iter_own(f.node)
                        if isinstance(a, (ast.Assign, ast.AnnAssign))
                        and a.value is not None
                        and any(isinstance(t, ast.Name) and t.id == nm for t in (a.targets if isinstance(a, ast.Assign) else [a.target]))
                        and a.lineno <= node.lineno
                    ]
                    if nm in f.params:
                        roots.add(nm)
                    for v in plain:
                        work.extend(x.id for x in ast.walk(v) if isinstance(x, ast.Name) and x.id in (f.locals | set(f.params)))
                ok = roots <= {"function_def"} and bool(roots)
                ctx.ob(
                    "C14.fields",
                    f,
                    "strip receiver if " + short(node.test, 60),
                    ok,
                    ""
                    if ok
                    else "the first signature parameter is dropped depending on {} — a caller-supplied value — rather than "
                    "on the function node alone: a claim that disagrees with the signature loses a real parameter".format(
                        sorted(roots - {"function_def"})
                    ),
                    line=node.lineno,
                )
    ctx.need(n >= 1, "the receiver-stripping decision vanished from function.parse")


def _fields(ctx, index):
    f = index.func("cdd.function.parse.function")
    read = set()
    for n in iter_own(f.node):
        if isinstance(n, ast.Attribute) and n.attr in ARGUMENTS_FIELDS and ".args" in norm(n.value) + ".":
            read.add(n.attr)
        if isinstance(n, ast.Constant) and n.value in ARGUMENTS_FIELDS:
            read.add(n.value)
    for fld in ARGUMENTS_FIELDS:
        ok = fld in read
        ctx.ob(
            "C14.fields",
            f,
            "ast.arguments.{}".format(fld),
            ok,
            ""
            if ok
            else "function.parse never reads arguments.{}: parameters carried there are missing from the result".format(fld),
            line=f.node.lineno,
        )


SYNTAX_VALIDATORS = frozenset("builtins.eval builtins.compile ast.parse ast.literal_eval cdd.shared.source_transformer.ast_parse".split())


def _typ_syntax(ctx, index, rule="C14.typsyntax"):
    """
    "the type is a string that parses as a Python expression": the one type string that is *made up* from prose —
    the result of `parse_adhoc_doc_for_typ` on the description — must pass a syntactic check (eval / ast.parse /
    compile of that very string, whose failure skips the store) before it becomes the entry's `typ`. A name
    white-list over the words of the candidate is not such a check (`Literal[2d, 3d]` has only known names).
    """
    adhoc = index.func("cdd.docstring.utils.parse_utils.parse_adhoc_doc_for_typ").qual
    n_sites = 0
    for g in index.nontest_funcs():
        cands = {}
        for n in iter_own(g.node):
            if isinstance(n, (ast.Assign, ast.AnnAssign)) and isinstance(getattr(n, "value", None), ast.Call) and index.callee(g.mod, n.value, g) == adhoc:
                for t in n.targets if isinstance(n, ast.Assign) else [n.target]:
                    if isinstance(t, ast.Name):
                        cands[t.id] = n
        if not cands:
            continue
        for n in iter_own(g.node):
            if not isinstance(n, ast.Assign):
                continue
            tg = [t for t in n.targets if isinstance(t, ast.Subscript) and isinstance(t.slice, ast.Constant) and t.slice.value == "typ"]
            if not tg:
                continue
            used = [x.id for x in ast.walk(n.value) if isinstance(x, ast.Name) and x.id in cands]
            if not used:
                continue
            n_sites += 1
            tname = used[0]
            ok = False
            cur = n
            while cur is not None and cur is not g.node and not ok:
                par = g.mod.parents.get(cur)
                for field in ("body", "orelse", "finalbody"):
                    lst = getattr(par, field, None)
                    if isinstance(lst, list) and cur in lst:
                        before = lst[: lst.index(cur)]
                        if isinstance(par, ast.Try) and field == "orelse":
                            # try: eval(typ) / except ...: / else: store — the `else` arm runs after the whole try body succeeded
                            before = list(par.body) + before
                        for prev in before:
                            for c in ast.walk(prev):
                                if (
                                    isinstance(c, ast.Call)
                                    and index.callee(g.mod, c, g) in SYNTAX_VALIDATORS
                                    and c.args
                                    and any(isinstance(x, ast.Name) and x.id == tname for x in ast.walk(c.args[0]))
                                ):
                                    ok = True
                cur = par
            ctx.ob(
                rule,
                g,
                n,
                ok,
                ""
                if ok
                else "the type guessed from the description (`{}`) becomes the entry's `typ` without having been parsed "
                "(eval / ast.parse / compile of the string before the store): a candidate built from prose such as "
                "`Literal[2d, 3d]` is not a Python expression".format(short(cands[tname].value, 60)),
            )
    ctx.floor("stores of a description-derived type", n_sites, 1)


_CONSTANT_CLASSES = frozenset("Constant Str Bytes Num NameConstant".split())


def _doc_is_text(ctx, index, funcs, rule="C14.strdoc"):
    """
    "the description is a string": where a parser takes the interface description out of a syntax node with
    `get_value(E)`, E must be known to be a constant at that point — `isinstance(E, (Constant, Str))` among the
    dominating conditions, directly or as a conjunct of a predicate function that guards the store. Otherwise
    `description = "a" + b`, an f-string or a call puts an `ast` object where the text belongs.
    """
    from ..walker import GuardWalker

    gv = index.func("cdd.shared.ast_utils.get_value").qual

    def constant_test(e, want):
        """`isinstance(<want>, (Constant, ...))` ?"""
        if not (isinstance(e, ast.Call) and norm(e.func) == "isinstance" and len(e.args) == 2 and norm(e.args[0]) == want):
            return False
        names = {norm(x).rpartition(".")[2] for x in (e.args[1].elts if isinstance(e.args[1], ast.Tuple) else [e.args[1]])}
        return bool(names) and names <= _CONSTANT_CLASSES

    def conjuncts(e):
        return [y for x in e.values for y in conjuncts(x)] if isinstance(e, ast.BoolOp) and isinstance(e.op, ast.And) else [e]

    def pred_implies(scope, call, want_, depth):
        """the call `P(..., a, ...)` being true implies isinstance(<want_>, Constant): some argument `a` is a prefix of
        want_ and every `return` of P has, among its conjuncts, the constant test on the corresponding parameter path or a
        call of another predicate that implies it"""
        p_ = index.funcs.get(index.resolve(scope.mod, call.func, scope) or "")
        if p_ is None or depth == 0:
            return False
        binds = index.bound_args(scope.mod, call, scope)
        for par, a in binds.items():
            arg = norm(a)
            if not (want_ == arg or want_.startswith(arg + ".")):
                continue
            inner = par + want_[len(arg) :]
            rets = [r for r in ast.walk(p_.node) if isinstance(r, ast.Return) and r.value is not None]
            if rets and all(
                any(constant_test(cj, inner) or (isinstance(cj, ast.Call) and pred_implies(p_, cj, inner, depth - 1)) for cj in conjuncts(r.value))
                for r in rets
            ):
                return True
        return False

    n_sites = 0
    seen = set()
    for g in list(funcs) + [h for h in index.nontest_funcs() if h.mod.name.endswith(".parse") and h.outer is None]:
        if g.qual in seen:
            continue
        seen.add(g.qual)
        facts_at = {}
        GuardWalker(on_stmt=lambda st, f: facts_at.__setitem__(id(st), dict(f))).walk_function(g.node)
        for n in iter_own(g.node):
            if not (isinstance(n, ast.Assign) and isinstance(n.value, ast.Call) and index.callee(g.mod, n.value, g) == gv and n.value.args):
                continue
            if not any(isinstance(t, ast.Subscript) and isinstance(t.slice, ast.Constant) and t.slice.value == "doc" for t in n.targets):
                continue
            n_sites += 1
            want = norm(n.value.args[0])
            ok = False
            for text, truth in (facts_at.get(id(n)) or {}).items():
                if truth is not True:
                    continue
                try:
                    e = ast.parse(text, mode="eval").body
                except SyntaxError:
                    continue
                for c in conjuncts(e):
                    if constant_test(c, want):
                        ok = True
                    elif isinstance(c, ast.Call) and pred_implies(g, c, want, 3):
                        ok = True
            ctx.ob(
                rule,
                g,
                n,
                ok,
                ""
                if ok
                else "the description is taken from `{}` with get_value() but nothing on the way establishes that it is a constant "
                "(`isinstance({}, (Constant, Str))`, here or in the predicate guarding this arm): for `description = 'a' + b`, an f-string "
                "or a call the interface description becomes an ast node, not a string".format(want, want),
            )
    ctx.floor("descriptions taken out of a syntax node", n_sites, 1)
