"""
C13 — sync_properties updates exactly the selected property (necessary parts).

C13.io      : one write, its path is exactly the `output_filename` parameter; the input file is opened
              read-only; the file that is read back and the file that is written are the same path.
C13.eval    : the eval(compile(...)) in sync_property is dominated by `input_eval`.
C13.once    : replace-once typestate of RewriteAtQuery: every replacement site is dominated by
              `not self.replaced` and sets `self.replaced = True` on the same path.
C13.index   : index spaces (belief contradiction): `arguments.defaults` is right-aligned with `args`
              (cdd.function.parse.function pads on the LEFT — the reference belief), so subscripting
              `.defaults` needs  default index = argument index - (len(args) - len(defaults)); an
              argument index (from enumerate(<f>.args.args) or `._idx`) used directly is wrong.
C13.visitor : transformer sibling agreement (shared with C12): the sync_properties driver asserts
              `replaced`, so an unreplaced FunctionDef location fails loudly rather than silently.
"""

import ast

from ..core import RefGraph, iter_own, norm, short
from ..defuse import local_defs
from ..effects import OPEN_NAMES, Effects, open_mode_arg
from ..fold import try_fold
from ..walker import GuardWalker
from ..writes import WriteModel
from .c17 import exact_param


def run(ctx):
    """entry"""
    index = ctx.index
    graph = RefGraph(index)
    eff = Effects(index)
    wm = WriteModel(index, graph, eff)
    ctx.explanation = (
        "Write inventory of sync_properties with exact-parameter path check and open modes; guard-fact "
        "dominance of the eval; typestate check of the replaced flag at every replacement site of "
        "RewriteAtQuery; classification of every subscript of `.defaults` / `.kw_defaults` in the package by "
        "the index space of its subscript (argument index vs default index) against the right-alignment "
        "belief encoded in cdd.function.parse.function."
    )
    ctx.assumptions += ["NOT decided: node-by-node equality of the rest of the output AST (value level)"]
    sp = index.func("cdd.compound.sync_properties.sync_properties")
    spy = index.func("cdd.compound.sync_properties.sync_property")
    # ------------------------------------------------------------------ io
    writes = [(n, w, mode) for n, w, mode in wm.wrapper_write_sites.get(sp.qual, ()) if isinstance(n, ast.Call)]
    direct = wm.direct.get(sp.qual, [])
    ok = len(writes) == 1 and not direct
    ctx.ob("C13.io", sp, "exactly one write in sync_properties", ok, "" if ok else "{} wrapper writes, {} primitive writes".format(len(writes), len(direct)), line=sp.node.lineno)
    for call, w, _mode in writes:
        tf = index.funcs[w]
        pa = None
        for k in call.keywords:
            if k.arg == "filename":
                pa = k.value
        i = tf.params.index("filename")
        if pa is None and len(call.args) > i:
            pa = call.args[i]
        ex = exact_param(index, sp, pa) if pa is not None else None
        ok = ex == "output_filename"
        ctx.ob("C13.io", sp, short(call, 80), ok, "" if ok else "the file written is `{}`, not exactly output_filename".format(short(pa, 40)))
    # writes further down (sync_property etc.) must not exist
    for q in sorted(graph.reachable([sp.qual])):
        if q == sp.qual or q in wm.wrappers:
            continue
        f = index.funcs.get(q)
        if f is None or f.mod.is_test:
            continue
        for e in wm.direct.get(q, ()):
            ctx.ob("C13.io", f, e.call, False, "an additional write sink is reachable from sync_properties")
        for n, w, mode in wm.wrapper_write_sites.get(q, ()):
            ctx.ob("C13.io", f, n, False, "an additional write ({}) is reachable from sync_properties".format(w))
    opens = [n for n in iter_own(sp.node) if isinstance(n, ast.Call) and index.callee(sp.mod, n, sp) in OPEN_NAMES]
    ctx.need(len(opens) >= 2, "sync_properties no longer opens its two files")
    for o in opens:
        mode = try_fold(open_mode_arg(o)) if open_mode_arg(o) is not None else "r"
        target = exact_param(index, sp, o.args[0]) if o.args else None
        ro = isinstance(mode, str) and not any(c in mode for c in "wax+")
        ctx.ob(
            "C13.io",
            sp,
            short(o, 80),
            ro and target in ("input_filename", "output_filename"),
            "" if ro else "{} is opened with mode {!r}".format(target, mode),
        )
    # ---------------------------------------------------------------- eval
    facts_at = {}

    def on_expr(n, facts):
        facts_at[id(n)] = facts

    GuardWalker(on_expr=on_expr).walk_function(spy.node)
    # sync_property and the private helpers only it calls (an extracted `_eval_input_param`, `_wrap_annotation`, ...)
    from ..region import Facts, Region

    graph_ = graph
    region = Region(index, graph_, spy)
    rfacts = Facts(index, graph_)
    evals = [
        (g, n)
        for g, n in region.nodes()
        if isinstance(n, ast.Call) and index.callee(g.mod, n, g) in ("builtins.eval", "builtins.exec", "builtins.compile")
    ]
    ctx.need(evals, "the opt-in eval vanished from sync_property")
    for g, e in evals:
        ok = (rfacts.at(g, e, ascend_from=region.funcs[1:]) or {}).get("input_eval") is True
        ctx.ob("C13.eval", g, e, ok, "" if ok else "evaluation of the input module is not dominated by `input_eval`")
    # the driver insists on a replacement having happened
    asserts = [n for n in iter_own(spy.node) if isinstance(n, ast.Assert) and "replaced" in norm(n.test)]
    ctx.ob("C13.visitor", spy, "assert rewrite_at_query.replaced", bool(asserts), "" if asserts else "a failed replacement would pass silently", line=spy.node.lineno)
    ctx.section(_once, ctx, index)
    # --------------------------------------------------------------- index
    ctx.section(_index_spaces, ctx, index)
    ctx.section(_receiver_shift_agreement, ctx, index)
    ctx.section(_locate_whole_path, ctx, index)
    ctx.section(_wrap_unconditional, ctx, index, spy, region, rfacts)
    ctx.section(_lookups, ctx, index, spy, region)
    ctx.section(_state, ctx, index)


def _once(ctx, index):
    """replace-once typestate of RewriteAtQuery (shared with C12: code outside the named target is unchanged)"""
    raq = "cdd.shared.ast_utils.RewriteAtQuery"
    ctx.need(raq in index.classes, "RewriteAtQuery vanished")
    n_sites = 0
    for name in ("generic_visit", "visit_FunctionDef"):
        f = index.func(raq + "." + name)
        fa, sa = {}, {}

        def on_e(n, facts, _fa=fa):
            _fa[id(n)] = facts

        def on_s(s, facts, _sa=sa):
            _sa[id(s)] = facts

        GuardWalker(on_expr=on_e, on_stmt=on_s).walk_function(f.node)
        for n in iter_own(f.node):
            site = None
            if isinstance(n, ast.Return) and n.value is not None and norm(n.value) == "self.replacement_node":
                site = n
            if isinstance(n, ast.Assign) and isinstance(n.targets[0], ast.Subscript) and "replacement_node" in norm(n.value) and "arg_l" in norm(n.targets[0]):
                site = n
            if site is None:
                continue
            n_sites += 1
            facts = sa.get(id(site)) or {}
            guarded = facts.get("self.replaced") is False
            # `self.replaced = True` in the same block
            blk = None
            p = f.mod.parents.get(site)
            for fld in ("body", "orelse"):
                if site in getattr(p, fld, []):
                    blk = getattr(p, fld)
            sets = blk is not None and any(isinstance(s, ast.Assign) and norm(s.targets[0]) == "self.replaced" and norm(s.value) == "True" for s in blk)
            ok = guarded and sets
            ctx.ob(
                "C13.once",
                f,
                site,
                ok,
                ""
                if ok
                else "replacement site {}: a second location matching the search would be replaced too / the flag is "
                "not raised".format("not dominated by `not self.replaced`" if not guarded else "does not set self.replaced = True"),
            )
    ctx.count("replacement_sites", n_sites)
    ctx.floor("replacement sites in RewriteAtQuery", n_sites, 1)


def _cond_norm(e, fvar):
    """condition text with the function-node variable replaced by F"""
    import re

    return re.sub(r"\b{}\b".format(re.escape(fvar)), "F", norm(e))


def _locate_whole_path(ctx, index, rule="C13.locate"):
    """
    "Exactly the selected location": the node that is replaced is identified by comparing its recorded `_location`
    with the query. The comparison must be an equality of the whole lists (the query itself, or the query without
    its last component for the enclosing function). A comparison against a *suffix* of the query (`q[-len(loc):]`,
    `q[k:]`) also accepts a shorter location that happens to end the same way: a module-level `run` then matches
    the query `Trainer.run`, and the first such node in the file is rewritten instead of the selected one.
    """
    from ..defuse import expand_aliases

    scope = [index.func("cdd.shared.ast_utils.find_in_ast")] + [
        g for g in index.nontest_funcs() if g.cls is not None and g.cls.rpartition(".")[2] == "RewriteAtQuery" and g.outer is None
    ]
    n_cmp = 0
    # the comparison may sit in a helper the location is handed to (`self._is_at(node._location, self.search)`):
    # the helper's parameter that receives it then stands for a `_location`
    handed = {}  # qual -> parameter names holding a location
    by_qual = {g.qual: g for g in scope}
    work = list(scope)
    while work:
        g = work.pop()
        mine = handed.get(g.qual, set())
        for c in iter_own(g.node):
            if not isinstance(c, ast.Call):
                continue
            h = None
            if isinstance(c.func, ast.Attribute) and isinstance(c.func.value, ast.Name) and c.func.value.id in ("self", "cls") and g.cls:
                h = index.funcs.get(g.qual.rpartition(".")[0] + "." + c.func.attr)
                skip = 0 if h is None or any(norm(d).endswith("staticmethod") for d in h.node.decorator_list) else 1
            if h is None:
                h = index.funcs.get(index.callee(g.mod, c, g) or "")
                skip = 0
            if h is None or h.mod.name.startswith("cdd.tests"):
                continue
            params = [a.arg for a in h.node.args.posonlyargs + h.node.args.args][skip:]
            pairs = [(params[i], a) for i, a in enumerate(c.args) if i < len(params)] + [(k.arg, k.value) for k in c.keywords if k.arg]
            for pn, a in pairs:
                a = expand_aliases(g, a)
                if "_location" in norm(a) or {x.id for x in ast.walk(a) if isinstance(x, ast.Name)} & mine:
                    if pn not in handed.setdefault(h.qual, set()):
                        handed[h.qual].add(pn)
                        if h.qual not in by_qual:
                            by_qual[h.qual] = h
                            scope.append(h)
                        work.append(h)
    for g in scope:
        mine = handed.get(g.qual, set())
        for c in iter_own(g.node):
            if not (isinstance(c, ast.Compare) and len(c.ops) == 1):
                continue
            sides = [expand_aliases(g, c.left), expand_aliases(g, c.comparators[0])]
            if not any("_location" in norm(x) or {y.id for y in ast.walk(x) if isinstance(y, ast.Name)} & mine for x in sides):
                continue
            if all(isinstance(x, ast.Constant) or (isinstance(x, ast.Call) and norm(x.func) == "len") for x in sides if not isinstance(x, ast.Name)) and not any(isinstance(x, ast.Name) and x.id in mine for x in sides) and not any("_location" in norm(x) and not (isinstance(x, ast.Call) and norm(x.func) == "len") for x in sides):
                continue  # a comparison of lengths only
            n_cmp += 1
            suffix = [sl for x in sides for sl in ast.walk(x) if isinstance(sl, ast.Slice) and sl.lower is not None]
            eq = isinstance(c.ops[0], (ast.Eq, ast.NotEq))
            ok = eq and not suffix
            ctx.ob(
                rule,
                g,
                c,
                ok,
                ""
                if ok
                else (
                    "a node's `_location` is compared with a suffix of the query (`{}`): a shorter location that ends the same way "
                    "(a module-level `run` against `Trainer.run`) also matches, and the first such node is rewritten instead of "
                    "the selected one".format(short(c, 80))
                    if suffix
                    else "a node's `_location` is compared with `{}` instead of for equality".format(type(c.ops[0]).__name__)
                ),
            )
    ctx.floor("comparisons of a node's _location with the query", n_cmp, 3)


def _receiver_shift_agreement(ctx, index):
    """
    Two sites must agree on when the first parameter is a receiver that `_idx` does not count:
    annotate_ancestry (starts its enumeration at -1) and RewriteAtQuery.visit_FunctionDef (adds it back
    when it turns `_idx` into a default index). A condition on one side only shifts every default by one.
    """
    aa = index.func("cdd.shared.ast_utils.annotate_ancestry")
    vf = index.func("cdd.shared.ast_utils.RewriteAtQuery.visit_FunctionDef")
    start = None
    for n in iter_own(aa.node):
        if isinstance(n, ast.Call) and norm(n.func) == "enumerate" and len(n.args) == 2 and norm(n.args[0]).endswith(".args.args"):
            st = n.args[1]
            if isinstance(st, ast.IfExp) and norm(st.body) == "-1" and norm(st.orelse) == "0":
                start = (st.test, norm(n.args[0])[: -len(".args.args")])
    from ..defuse import expand_aliases

    if start is None:
        # other spellings of "start at -1 for a receiver": a conditional expression or an if/else that chooses between
        # -1 and 0 on a test of the first positional parameter's name
        import re as _re

        for n in iter_own(aa.node):
            test = None
            if isinstance(n, ast.IfExp) and norm(n.body) == "-1" and norm(n.orelse) == "0":
                test = n.test
            elif (
                isinstance(n, ast.If)
                and len(n.body) == 1
                and len(n.orelse) == 1
                and isinstance(n.body[0], ast.Assign)
                and isinstance(n.orelse[0], ast.Assign)
                and norm(n.body[0].targets[0]) == norm(n.orelse[0].targets[0])
                and norm(n.body[0].value) == "-1"
                and norm(n.orelse[0].value) == "0"
            ):
                test = n.test
            if test is not None:
                m_ = _re.search(r"([A-Za-z_][\w.]*)\.args\.args\[0\]\.arg", norm(test))
                if m_:
                    start = (test, m_.group(1))
    if start is None:
        # the enumeration extracted into a module-level helper (`_annotate_arguments(fd)`), the start written as
        # `-int(is_method)` ...: whatever the spelling, the decision is a test of the first positional parameter's
        # name against receiver names; take the whole conjunction it sits in, local aliases expanded
        import re as _re

        helpers = [aa] + [
            g
            for g in index.nontest_funcs()
            if g.mod is aa.mod and g.cls is None and g.outer is None and g is not aa and any(isinstance(x, ast.Name) and x.id == g.node.name for x in iter_own(aa.node))
        ]
        for g in helpers:
            for n in iter_own(g.node):
                if not (isinstance(n, ast.Compare) and len(n.ops) == 1 and norm(n.left).endswith("[0].arg")):
                    continue
                if not any(isinstance(x, ast.Constant) and x.value in ("self", "cls") for x in ast.walk(n.comparators[0])):
                    continue
                top = n
                while isinstance(g.mod.parents.get(top), ast.BoolOp) and isinstance(g.mod.parents.get(top).op, ast.And):
                    top = g.mod.parents.get(top)
                full = expand_aliases(g, top)
                m_ = _re.search(r"([A-Za-z_][\w.]*)\.args\.args\[0\]\.arg", norm(full))
                if m_ and start is None:
                    start = (full, m_.group(1))
    back = None
    # the correction may sit in visit_FunctionDef or in a method / helper of the same class or module it calls
    cands = [vf] + [
        g
        for g in index.nontest_funcs()
        if g is not vf and g.mod is vf.mod and any(isinstance(x, ast.Attribute) and x.attr == g.node.name or isinstance(x, ast.Name) and x.id == g.node.name for x in iter_own(vf.node)) and (g.cls == vf.cls or g.cls is None) and g.outer is None
    ]
    for g in cands:
        for n in iter_own(g.node):
            if isinstance(n, ast.Call) and norm(n.func) == "int" and len(n.args) == 1:
                full = expand_aliases(g, n.args[0])
                if "self" in norm(full):
                    fvar = "node" if g is vf else (g.params[0] if g.params and g.params[0] not in ("self", "cls") else (g.params[1] if len(g.params) > 1 else "node"))
                    back = (full, fvar)
    if back is None:
        # no correction on the reading side: the index-space rule above reports the raw `_idx` subscript
        return
    ctx.need(start is not None, "annotate_ancestry no longer starts the parameter enumeration at -1 for receivers")

    def receivers(e):
        """the receiver names {self, cls} a condition accepts, when it has one of the known shapes; else None"""
        for c in ast.walk(e):
            if isinstance(c, ast.Compare) and len(c.ops) == 1:
                consts = {x.value for x in ast.walk(c.comparators[0]) if isinstance(x, ast.Constant) and x.value in ("self", "cls", "static")}
                subj = norm(c.left)
                if not (subj.endswith(".arg") or "get_function_type(" in subj):
                    continue
                if isinstance(c.ops[0], (ast.Eq, ast.In)) and consts and "static" not in consts:
                    return frozenset(consts)
                if isinstance(c.ops[0], (ast.NotEq, ast.NotIn)) and consts == {"static"} and "get_function_type(" in subj:
                    return frozenset(("self", "cls"))
        return None

    def extras(e, fvar):
        """the other conjuncts of the condition: neither the receiver-name test nor the `there is a first parameter` guard"""
        conj = e.values if isinstance(e, ast.BoolOp) and isinstance(e.op, ast.And) else [e]
        out = set()
        for c in conj:
            t = _cond_norm(c, fvar)
            if ".arg" in t and ("self" in t or "cls" in t) or "get_function_type(" in t:
                continue
            if " ".join(t.split()) in ("len(F.args.args) > 0", "F.args.args", "len(F.args.args)", "len(F.args.args) >= 1"):
                continue
            out.add(" ".join(t.split()))
        return out

    ra, rb = receivers(start[0]), receivers(back[0])
    a, b = _cond_norm(start[0], start[1]), _cond_norm(back[0], back[1])
    ok = (ra == rb and extras(start[0], start[1]) == extras(back[0], back[1])) if (ra is not None and rb is not None) else a == b
    ctx.ob(
        "C13.index",
        aa,
        "receiver condition agrees between annotate_ancestry and RewriteAtQuery",
        ok,
        ""
        if ok
        else "annotate_ancestry skips the receiver when `{}` but visit_FunctionDef adds it back when `{}`: where they "
        "differ, `_idx` is off by one and the right-hand neighbour's default is overwritten".format(a, b),
        line=start[0].lineno,
    )


def _wrap_unconditional(ctx, index, spy, region, rfacts):
    """the wrap template is applied whenever it is given (and there is an annotation) — not depending on the text"""
    # the template: sync_property's output_param_wrap, or the helper parameter it is handed to
    tnames = {"output_param_wrap"}
    for h in region.funcs[1:]:
        for _caller, call in region.callsites.get(h.qual, ()):
            for i, a in enumerate(call.args):
                if isinstance(a, ast.Name) and a.id in tnames and i < len(h.params):
                    tnames.add(h.params[i])
            for k in call.keywords:
                if k.arg and isinstance(k.value, ast.Name) and k.value.id in tnames:
                    tnames.add(k.arg)
    sites = [
        (g, n)
        for g, n in region.nodes()
        if isinstance(n, ast.Call) and isinstance(n.func, ast.Attribute) and n.func.attr == "format" and norm(n.func.value) in tnames
    ]
    ctx.need(sites, "the output_param_wrap template is no longer applied in sync_property")
    for g, c in sites:
        facts = rfacts.at(g, c, ascend_from=region.funcs[1:]) or {}
        extra = []
        allowed = set(spy.params) | set(g.params) | {"replacement_node", "hasattr", "isinstance", "None"}
        # explaining variables: a local bound exactly once to an attribute chain of an allowed name
        # (`annotation = replacement_node.annotation`) stands for that place, not for a new dependency
        lb = {}
        for st in ast.walk(g.node):
            if isinstance(st, (ast.Assign, ast.AnnAssign, ast.AugAssign, ast.NamedExpr, ast.For, ast.comprehension, ast.withitem)):
                tg = st.targets if isinstance(st, ast.Assign) else [getattr(st, "target", None) or getattr(st, "optional_vars", None)]
                for t_ in tg:
                    for x in ast.walk(t_) if t_ is not None else ():
                        if isinstance(x, ast.Name):
                            lb.setdefault(x.id, []).append(st)
        for nm, sts in lb.items():
            if len(sts) == 1 and isinstance(sts[0], (ast.Assign, ast.AnnAssign)) and isinstance(sts[0].value, ast.Attribute):
                root = sts[0].value
                while isinstance(root, ast.Attribute):
                    root = root.value
                if isinstance(root, ast.Name) and root.id in allowed:
                    allowed.add(nm)
        for text in facts:
            try:
                tree = ast.parse(text, mode="eval")
            except SyntaxError:
                continue
            names = {x.id for x in ast.walk(tree) if isinstance(x, ast.Name)}
            calls = [x for x in ast.walk(tree) if isinstance(x, ast.Call) and norm(x.func) not in ("hasattr", "isinstance")]
            if not names <= allowed or calls:
                extra.append(text)
        ok = not extra
        ctx.ob(
            "C13.io",
            g,
            "the wrap template is applied whenever given",
            ok,
            ""
            if ok
            else "whether the wrap template is applied depends on {}: for some annotations the selected property is "
            "written without the requested wrap".format([short(x, 60) for x in extra[:2]]),
        )


def _lookups(ctx, index, spy, region):
    """
    find_in_ast attaches `.default` through an argument index (known finding C13.index); the only lookup the
    driver may do is the one that selects the INPUT property. Looking the output location up through it too
    feeds a misaligned default into the file that is written.
    """
    calls = [(g, n) for g, n in region.nodes() if isinstance(n, ast.Call) and (index.callee(g.mod, n, g) or "").endswith(".find_in_ast")]
    ctx.need(calls, "sync_property no longer looks the input property up")
    for g, c in calls:
        a1 = norm(c.args[1]) if len(c.args) > 1 else ""
        # inside a helper the AST is a parameter: it must be bound to sync_property's input_ast at every call site
        if g is not spy and isinstance(c.args[1] if len(c.args) > 1 else None, ast.Name) and a1 in g.params:
            sites = region.callsites.get(g.qual, ())
            pos = g.params.index(a1)
            bound = {norm(cs.args[pos]) if pos < len(cs.args) else next((norm(k.value) for k in cs.keywords if k.arg == a1), "") for _c, cs in sites}
            if bound == {"input_ast"}:
                a1 = "input_ast"
        ok = a1 == "input_ast"
        ctx.ob(
            "C13.index",
            g,
            "find_in_ast is applied to {}".format(a1),
            ok,
            ""
            if ok
            else "sync_property looks `{}` up through find_in_ast, whose `.default` is taken at an argument index (see the "
            "known finding on find_in_ast): a value kept from that lookup is another parameter's default".format(a1),
        )


def _index_spaces(ctx, index):
    """every subscript of .defaults / .kw_defaults classified by the index space of its subscript"""
    ref = index.func("cdd.function.parse.function")
    # reference belief: function.parse pads defaults on the left (checked in detail by C02.align.parse)
    from .c02 import pads_defaults_on_the_left

    pads_left = pads_defaults_on_the_left(index)
    ctx.need(pads_left, "the reference belief (function.parse pads defaults on the left) is no longer recognisable")
    n = 0
    for f in index.nontest_funcs():
        defs = local_defs(f)
        for node in iter_own(f.node):
            if not (isinstance(node, ast.Subscript) and isinstance(node.value, ast.Attribute) and node.value.attr in ("defaults", "kw_defaults")):
                continue
            if isinstance(node.slice, ast.Slice):
                continue
            n += 1
            owner = norm(node.value.value)  # e.g. node.args
            kind, why = _classify_index(f, defs, node.slice, owner, node.value.attr)
            ok = kind != "argument-index"
            ctx.ob(
                "C13.index",
                f,
                "`{}` is subscripted with a default index{}".format(norm(node.value), "" if ok else " [no: {}]".format(kind)),
                ok,
                ""
                if ok
                else "`{}` is subscripted with an ARGUMENT index ({}); defaults are right-aligned with args, so for "
                "`def f(a, b=1, c=2)` the default of b is defaults[0], not defaults[1]: the wrong parameter's default "
                "is read/overwritten".format(norm(node.value), why),
            )
    ctx.count("defaults_subscripts", n)
    ctx.floor("subscripts of .defaults / .kw_defaults", n, 1)


def _classify_index(f, defs, idx, owner, attr):
    """'argument-index' | 'default-index' | 'unknown' and why"""
    if attr == "kw_defaults":
        return "default-index", "kw_defaults is aligned 1:1 with kwonlyargs"
    txt = norm(idx)
    # corrected index: mentions len(...defaults) / a difference of lengths
    if "len(" in txt and "defaults" in txt:
        return "default-index", "offset by the length difference"
    names = [x for x in ast.walk(idx) if isinstance(x, ast.Name)]
    # a correction by the length difference anywhere on the index's def-use chain wins
    for nm in names:
        for d in defs.get(nm.id, []):
            dt = norm(d)
            if "len(" in dt and "defaults" in dt and ".args" in dt:
                return "default-index", "`{}` is offset by len(defaults) - len(args)".format(nm.id)
    for nm in names:
        for d in defs.get(nm.id, []):
            dt = norm(d)
            if "._idx" in dt:
                return "argument-index", "`{}` comes from `._idx`, the position in args.args".format(nm.id)
            if "enumerate(" in dt and ".args.args" in dt or ".args.args" in dt and "range(len(" in dt:
                return "argument-index", "`{}` enumerates {}.args".format(nm.id, owner)
            if "len(" in dt and "defaults" in dt:
                return "default-index", "offset by the length difference"
    if isinstance(idx, ast.Subscript):
        base = idx.value
        if isinstance(base, ast.Name):
            for d in defs.get(base.id, []):
                dt = norm(d)
                if "enumerate(" in dt and ".args.args" in dt:
                    return "argument-index", "`{}` is an (index, arg) pair from enumerate({}.args)".format(base.id, owner)
    if "._idx" in txt:
        return "argument-index", "`._idx` is the position in args.args"
    return "unknown", ""


def _state(ctx, index):
    """
    C13.state: the value written is the input's CURRENT value: nothing reachable from sync_properties keeps
    module-level state or memoises between calls (C10's rules on that slice) — a cached evaluation of the
    input file would write a stale value after the file changed.
    """
    from ..core import RefGraph
    from . import c10

    graph = RefGraph(index)
    reach = graph.reachable([index.func("cdd.compound.sync_properties.sync_properties").qual])
    ctx.count("state_functions", len(reach))
    ctx.need(len(reach) >= 10, "the sync_properties pipeline shrank to {} functions: call graph no longer resolves it".format(len(reach)))
    c10._modstate(ctx.view(lambda w: getattr(w, "qual", None) in reach, rule="C13.state", prefix="state_"))
    c10.cachekey_rule(ctx, "C13.state", reach)
