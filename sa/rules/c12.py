"""
C12 — sync makes every target equivalent to the truth, then is a no-op (necessary parts).

C12.visitor : transformer sibling agreement: in a NodeTransformer whose generic_visit implements a
              replacement rule, every specialised visit_X must — on every path that does not itself
              replace — apply the rule or delegate to generic_visit; else nodes of type X can never be
              replaced and their children are never visited.
C12.gate    : in _conform_filename the truncating write of an existing file is dominated by
              `not cmp_ast(original, replacement)` and `rewrite_at_query.replaced`; creation writes
              by `not path.isfile(filename)` / `original_node is None`.
C12.targets : every write reachable from ground_truth has the loop's `filename` as its path;
              truth_file is only ever opened read-only.
C12.state   : no function reachable from ground_truth memoises or keeps module-level state (C10's rules).
C12.table   : `sync --truth` choices are keys of arg2parse_emit_type (shared with C03.dispatch).
"""

import ast

from ..core import RefGraph, iter_own, norm, short
from ..defuse import param_roots
from ..effects import OPEN_NAMES, Effects, open_mode_arg
from ..fold import try_fold
from ..walker import GuardWalker
from ..writes import WriteModel
from .c11 import PathFact, body_paths


def transformer_classes(index):
    """(qual, Mod, ClassDef) of non-test NodeTransformer subclasses"""
    for q, (m, c) in sorted(index.classes.items()):
        if m.is_test:
            continue
        if any(norm(b).endswith("NodeTransformer") for b in c.bases):
            yield q, m, c


def visitor_rule(ctx, index, rule="C12.visitor"):
    """sibling agreement of visit_X with generic_visit's replacement rule"""
    n_cls = n_meth = 0
    for q, m, c in transformer_classes(index):
        meths = {b.name: b for b in c.body if isinstance(b, (ast.FunctionDef, ast.AsyncFunctionDef))}
        gv = meths.get("generic_visit")
        if gv is None:
            continue
        repl = [n for n in ast.walk(gv) if isinstance(n, ast.Return) and n.value is not None and "replacement" in norm(n.value)]
        if not repl:
            continue
        n_cls += 1
        repl_text = norm(repl[0].value)
        for name, meth in sorted(meths.items()):
            if not name.startswith("visit_"):
                continue
            n_meth += 1
            f = index.funcs[q + "." + name]
            node_param = meth.args.args[1].arg if len(meth.args.args) > 1 else "node"
            bad = None
            n_paths = 0
            for kind, stmts in body_paths(meth.body):
                last = stmts[-1] if stmts else None
                if kind == "fall":
                    # falling off the end returns None: the node is deleted
                    bad = (meth, "a path falls off the end (returns None: the node is dropped)")
                    continue
                if not isinstance(last, ast.Return):
                    continue
                n_paths += 1
                v = last.value
                txt = norm(v) if v is not None else "None"
                delegates = "generic_visit" in txt
                replaces_here = txt == repl_text or any(
                    isinstance(s, ast.Assign) and norm(s.targets[0]) == "self.replaced" and norm(s.value) == "True"
                    for s in stmts
                    if not isinstance(s, PathFact)
                )
                # a replacement done inside an inner loop on this path (loops are skipped by body_paths)
                loop_replaces = False
                facts = [(norm(s.value), s.truth) for s in stmts if isinstance(s, PathFact)]
                for st in meth.body:
                    for inner in ast.walk(st):
                        if isinstance(inner, (ast.For, ast.While)) and any(
                            isinstance(x, ast.Assign) and norm(x.targets[0]) == "self.replaced" for x in ast.walk(inner)
                        ):
                            # only counts on paths that enter the enclosing branch
                            anc_tests = []
                            p = f.mod.parents.get(inner)
                            while p is not None and p is not meth:
                                if isinstance(p, ast.If):
                                    anc_tests.append(norm(p.test))
                                p = f.mod.parents.get(p)
                            if all((t, True) in facts for t in anc_tests):
                                loop_replaces = True
                if delegates or replaces_here or loop_replaces:
                    continue
                if txt == node_param or txt == "None":
                    bad = (last, "returns `{}` without applying the replacement rule or delegating to generic_visit".format(txt))
            ok = bad is None
            ctx.ob(
                rule,
                f,
                "{}.{} agrees with generic_visit".format(c.name, name),
                ok,
                ""
                if ok
                else "{}: a {} node whose location equals the search can never be replaced, and nodes nested below "
                "it are never visited ({} return paths examined)".format(bad[1], name[len("visit_") :], n_paths),
                line=(bad[0].lineno if bad else meth.lineno),
            )
    ctx.count("replacing_transformers", n_cls)
    ctx.count("specialised_visit_methods", n_meth)
    ctx.floor("NodeTransformer subclasses with a replacement rule", n_cls, 1)


def _cmp_rule(ctx, index):
    """
    cmp_ast is sync's change detector: "equal" means "do not touch". Pairing two sequences with zip / map /
    a common index stops at the shorter one, so it must be dominated by a test that the lengths agree —
    otherwise a target with extra (or missing) trailing parameters compares equal to the truth.
    """
    f = index.func("cdd.shared.ast_utils.cmp_ast")
    ctx.need(len(f.params) >= 2, "cmp_ast(node0, node1) signature changed")
    a, b = f.params[0], f.params[1]
    facts_at = {}

    def on_expr(n, facts):
        facts_at[id(n)] = facts

    GuardWalker(on_expr=on_expr).walk_function(f.node)
    n = 0
    for c in iter_own(f.node):
        if not isinstance(c, ast.Call):
            continue
        fn = norm(c.func)
        args = [norm(x) for x in c.args]
        pairs = (fn == "zip" and args[:2] == [a, b]) or (fn in ("map", "starmap") and args[-2:] == [a, b])
        if not pairs:
            continue
        n += 1
        facts = facts_at.get(id(c)) or {}
        ok = any(
            ("len({})".format(a) in k and "len({})".format(b) in k)
            and ((("!=" in k) and v is False) or (("==" in k) and v is True))
            for k, v in facts.items()
        )
        ctx.ob(
            "C12.gate",
            f,
            c,
            ok,
            ""
            if ok
            else "the two sequences are paired element-wise without a dominating length comparison: lists that differ only "
            "by extra trailing elements compare equal, so sync reports 'unchanged' for a target with a longer or "
            "shorter parameter list",
        )
    # recursion must reach every field: the AST branch iterates node0._fields
    fields = [x for x in iter_own(f.node) if isinstance(x, ast.Attribute) and x.attr == "_fields"]
    ctx.ob("C12.gate", f, "cmp_ast compares every field of AST nodes", bool(fields), "" if fields else "the AST branch no longer iterates _fields", line=f.node.lineno)
    ctx.need(n >= 1, "cmp_ast no longer pairs the two sequences (recogniser out of date)")


def _nothing_to_lose(facts):
    """
    a guard known to hold of the form `not path.isfile(F) or path.getsize(F) == 0`: every alternative says there is no
    content a truncating write could destroy (no file, or an empty one)
    """

    def empty_or_missing(e):
        t = " ".join(norm(e).split())
        if isinstance(e, ast.UnaryOp) and isinstance(e.op, ast.Not):
            inner = " ".join(norm(e.operand).split())
            return inner.endswith(("isfile(filename)", "exists(filename)", "getsize(filename)")) or inner.endswith("st_size")
        return t.endswith(("getsize(filename) == 0", ".st_size == 0")) or t.startswith("0 == ")

    for text, truth in facts.items():
        if truth is not True or " or " not in text:
            continue
        try:
            e = ast.parse(text, mode="eval").body
        except SyntaxError:
            continue
        if isinstance(e, ast.BoolOp) and isinstance(e.op, ast.Or) and all(empty_or_missing(v) for v in e.values):
            return True
    return False


def run(ctx):
    """entry"""
    cf = None
    gt = None
    k = None
    mode = None
    n = None
    ok = None
    index = ctx.index
    graph = RefGraph(index)
    eff = Effects(index)
    wm = WriteModel(index, graph, eff)
    ctx.explanation = (
        "Path enumeration of every visit_X of the replacing NodeTransformer against generic_visit's rule; "
        "guard-fact dominance of the writes in _conform_filename; write-path roots and open modes on "
        "everything reachable from ground_truth; CLI choices vs the conformance table."
    )
    ctx.assumptions += ["NOT decided: equivalence of the re-parsed interface with the truth; idempotence of black (value level)"]
    from .c13 import _once

    ctx.section(visitor_rule, ctx, index)
    ctx.section(_cmp_rule, ctx, index)
    ctx.section(_once, ctx, index)
    def _sec_gate():
        nonlocal cf, mode, ok
        # ---------------------------------------------------------------- gate
        cf = index.func("cdd.shared.conformance._conform_filename")
        facts_at = {}

        def on_expr(n, facts):
            facts_at[id(n)] = facts

        GuardWalker(on_expr=on_expr).walk_function(cf.node)
        # _conform_filename and the private helpers only it calls (an extracted `_rewrite_file`, ...)
        from ..region import Facts, Region

        reg = Region(index, graph, cf)
        rfacts = Facts(index, graph)
        # the locals that hold the located node and the rewriting visitor, whatever they are called and wherever they live
        orig_vars, rw_vars = set(), set()
        for g, n in reg.nodes():
            if isinstance(n, (ast.Assign, ast.AnnAssign)) and isinstance(n.value, ast.Call):
                t = n.targets[0] if isinstance(n, ast.Assign) else n.target
                if isinstance(t, ast.Name):
                    cal = index.callee(g.mod, n.value, g) or norm(n.value.func)
                    if cal.endswith("find_in_ast"):
                        orig_vars.add(t.id)
                    elif cal.rpartition(".")[2] == "RewriteAtQuery":
                        rw_vars.add(t.id)
        ctx.need(orig_vars and rw_vars, "cannot find the locals holding find_in_ast(...) / RewriteAtQuery(...) in _conform_filename")
        writes = [(g, n, w, mode) for g in reg.funcs for n, w, mode in wm.wrapper_write_sites.get(g.qual, ()) if isinstance(n, ast.Call)]
        ctx.need(len(writes) >= 2, "expected at least two file() writes in _conform_filename, found {}".format(len(writes)))
        n_trunc = 0
        from ..defuse import local_defs

        for g, call, _w, mode in writes:
            facts = rfacts.at(g, call, ascend_from=reg.funcs[1:]) or {}
            created = facts.get("path.isfile(filename)") is False or _nothing_to_lose(facts)
            appended = any(facts.get("{} is None".format(v)) is True for v in orig_vars) and mode == "a"
            if created or appended:
                ctx.ob("C12.gate", g, short(call, 70), True, "creation write", line=call.lineno)
                continue
            n_trunc += 1
            changed = any(k.startswith("cmp_ast(") and v is False for k, v in facts.items())
            replaced = any(facts.get("{}.replaced".format(v)) is True for v in rw_vars)
            if not replaced:
                # ... or a local that was bound once to <RewriteAtQuery>.replaced
                for nm, ds in local_defs(g).items():
                    if len(ds) == 1 and isinstance(ds[0], ast.AST) and any(norm(ds[0]) == "{}.replaced".format(v) for v in rw_vars) and facts.get(nm) is True:
                        replaced = True
            ok = changed and replaced
            ctx.ob(
                "C12.gate",
                g,
                short(call, 70),
                ok,
                ""
                if ok
                else "an existing target is rewritten without being dominated by {}: a second run is not a no-op".format(
                    " and ".join(x for x, y in (("`not cmp_ast(original, replacement)`", changed), ("`<RewriteAtQuery>.replaced`", replaced)) if not y)
                ),
                line=call.lineno,
            )
        ctx.need(n_trunc >= 1, "the truncating write vanished from _conform_filename")

    ctx.section(_sec_gate)

    def _sec_targets():
        nonlocal gt, k, mode, n, ok
        # ------------------------------------------------------------- targets
        gt = index.func("cdd.shared.conformance.ground_truth")
        reach = graph.reachable([gt.qual])
        n_w = 0
        for q in sorted(reach):
            f = index.funcs.get(q)
            if f is None or f.mod.is_test:
                continue
            for n, w, mode in wm.wrapper_write_sites.get(q, ()):
                if not isinstance(n, ast.Call):
                    continue
                n_w += 1
                tf = index.funcs[w]
                pa = None
                for k in n.keywords:
                    if k.arg == "filename":
                        pa = k.value
                if pa is None and len(n.args) > tf.params.index("filename"):
                    pa = n.args[tf.params.index("filename")]
                roots = param_roots(f, pa) if pa is not None else set()
                ok = roots == {"filename"}
                ctx.ob("C12.targets", f, short(n, 70), ok, "" if ok else "the file written depends on {} rather than on the listed target `filename`".format(sorted(roots)), line=n.lineno)
            for e in wm.direct.get(q, ()):
                n_w += 1
                ctx.ob("C12.targets", f, e.call, False, "a primitive write sink reachable from sync outside cdd.shared.emit.file.file")
        ctx.count("write_sites_reachable_from_ground_truth", n_w)
        # truth_file read-only
        opens = [n for n in iter_own(gt.node) if isinstance(n, ast.Call) and index.callee(gt.mod, n, gt) in OPEN_NAMES]
        for o in opens:
            if o.args and "truth_file" in norm(o.args[0]):
                mode = try_fold(open_mode_arg(o)) if open_mode_arg(o) is not None else "r"
                ok = isinstance(mode, str) and not any(c in mode for c in "wax+")
                ctx.ob("C12.targets", gt, o, ok, "" if ok else "the truth file is opened with mode {!r}".format(mode))
        # loop maps _conform_filename over the file lists with the loop's filename
        lam = [n for n in iter_own(gt.node) if isinstance(n, ast.Call) and index.callee(gt.mod, n, gt) == cf.qual]
        ctx.need(lam, "_conform_filename call vanished from ground_truth")
        for c in lam:
            kws = {k_: norm(v_) for k_, v_ in index.bound_args(gt.mod, c, gt).items()}
            ok = kws.get("filename") == "filename"
            ctx.ob("C12.targets", gt, "_conform_filename(filename={})".format(kws.get("filename")), ok, "" if ok else "target file is not the loop's filename", line=c.lineno)
            # every listed target is conformed: between the lambda mapped over the file list and the call there is no
            # condition that skips a file without looking at WHICH KIND of target it is listed as (the loop's kind
            # variable); a file listed under two kinds holds two different targets
            kind_vars = set()
            conds = []
            child, p_ = c, gt.mod.parents.get(c)
            while p_ is not None and p_ is not gt.node:
                if isinstance(p_, ast.IfExp) and child is not p_.test:
                    conds.append(p_.test)
                elif isinstance(p_, ast.BoolOp) and child in p_.values[1:]:
                    conds.extend(p_.values[: p_.values.index(child)])
                elif isinstance(p_, ast.If) and (child in p_.body or child in p_.orelse):
                    conds.append(p_.test)
                elif isinstance(p_, ast.Call) and norm(p_.func) in ("filter", "filterfalse", "takewhile", "dropwhile") and child in p_.args[1:]:
                    conds.append(p_.args[0])
                elif isinstance(p_, ast.For):
                    kind_vars.update(x.id for x in ast.walk(p_.target) if isinstance(x, ast.Name))
                child, p_ = p_, gt.mod.parents.get(p_)
            blind = [t for t in conds if not ({x.id for x in ast.walk(t) if isinstance(x, ast.Name)} & kind_vars)]
            ctx.ob(
                "C12.targets",
                gt,
                "every listed (kind, file) pair reaches _conform_filename",
                not blind,
                ""
                if not blind
                else "a listed target is skipped when `{}`, a test that does not look at which kind of target the file is listed "
                "as: the same file listed under another kind is then never created / updated".format(short(blind[0], 80)),
                line=c.lineno,
            )
        ctx.note(
            "the truth file is itself listed among the targets and the loop does not skip it, so it can be rewritten "
            "(re-emitted from its own interface); the property only asks that its interface be unchanged"
        )

    ctx.section(_sec_targets)

    def _sec_table():
        nonlocal n, ok
        # --------------------------------------------------------------- table
        from ..dispatch import cli_choices
        from ..fold import ModuleEnv

        truth = cli_choices(index, ModuleEnv(index)).get(("sync", "--truth"))
        table = None
        for n in iter_own(gt.node):
            if isinstance(n, ast.Assign) and isinstance(n.targets[0], ast.Name) and isinstance(n.value, ast.Dict) and any(
                isinstance(x, ast.Subscript) and norm(x.value) == n.targets[0].id and norm(x.slice).endswith(".truth") for x in iter_own(gt.node)
            ):
                table = [k.value for k in n.value.keys if isinstance(k, ast.Constant)]
        ctx.need(truth and table, "cannot read --truth choices / the kind table of ground_truth")
        for t in truth:
            ok = t in table
            ctx.ob("C12.table", gt, "sync --truth {}".format(t), ok, "" if ok else "admitted by the CLI but absent from arg2parse_emit_type {}".format(table), line=gt.node.lineno)

    ctx.section(_sec_table)

    def _sec_state():
        # --------------------------------------------------------------- state
        # "then is a no-op": a second sync in the same process must see the files as they are now. C10's
        # module-state / memoisation rules re-run on everything reachable from ground_truth.
        from . import c10

        reach = graph.reachable([index.func("cdd.shared.conformance.ground_truth").qual])
        ctx.count("state_functions", len(reach))
        ctx.need(len(reach) >= 15, "the sync pipeline shrank to {} functions: call graph no longer resolves it".format(len(reach)))
        c10._modstate(ctx.view(lambda w: getattr(w, "qual", None) in reach, rule="C12.state", prefix="state_"))

    ctx.section(_sec_state)

    def _sec_shared():
        # ------------------------------------------------------------- shared truth
        # ground_truth parses the truth ONCE and hands the same object to the emitter of every target in turn:
        # an emitter that mutates what it is given changes the interface the next target receives.
        from . import c10

        g_ = index.func("cdd.shared.conformance.ground_truth")
        tables = [n for n in ast.walk(g_.node) if isinstance(n, ast.Dict) and n.values and all(isinstance(v, ast.Tuple) and len(v.elts) == 3 for v in n.values)]
        ctx.need(len(tables) == 1, "ground_truth no longer holds one {kind: (parse, emit, node type)} table")
        entries = []
        for v in tables[0].values:
            q = index.resolve(g_.mod, v.elts[1], g_)
            ctx.need(q in index.funcs, "an emitter of the conformance table does not resolve: {}".format(short(v.elts[1], 60)))
            f_ = index.funcs[q]
            entries.append((f_, f_.params[0]))
        ctx.floor("emitters in the conformance table", len(entries), 3)
        c10.inputmut_rule(ctx, "C12.shared", entries, "sync hands the one parsed truth to every target in turn, so the next target is generated from a different interface")

    ctx.section(_sec_shared)

    def _sec_append():
        # ------------------------------------------------------------------ append
        # "every listed file is valid Python": a target that is missing from an existing file is APPENDED to it by
        # cdd.shared.emit.file.file (mode "a"). What is already there need not end in a newline (`OTHER = 1` +
        # `class K(object):` = `OTHER = 1class K(object):`), so the appended source must start on a line of its own:
        # the written text is prefixed with a newline (under a test of the mode / of the existing tail) or a newline
        # is written first.
        ff = index.func("cdd.shared.emit.file.file")
        n_w = 0
        for w in iter_own(ff.node):
            if not isinstance(w, ast.With):
                continue
            for it in w.items:
                c = it.context_expr
                if not (isinstance(c, ast.Call) and index.callee(ff.mod, c, ff) in OPEN_NAMES and isinstance(it.optional_vars, ast.Name)):
                    continue
                mode = open_mode_arg(c)
                if isinstance(mode, ast.Constant) and isinstance(mode.value, str) and "a" not in mode.value:
                    continue  # a fixed non-append mode
                h = it.optional_vars.id
                writes = [x for st in w.body for x in ast.walk(st) if isinstance(x, ast.Call) and isinstance(x.func, ast.Attribute) and x.func.attr == "write" and norm(x.func.value) == h and x.args]
                if not writes:
                    continue
                n_w += 1
                first = writes[0].args[0]

                def nl_const(e):
                    return isinstance(e, ast.Constant) and isinstance(e.value, str) and e.value.startswith(("\n", "\r"))

                ok = nl_const(first)
                if not ok and isinstance(first, ast.Name):
                    for a_ in iter_own(ff.node):
                        if (
                            isinstance(a_, ast.Assign)
                            and a_.lineno < w.lineno
                            and any(isinstance(t, ast.Name) and t.id == first.id for t in a_.targets)
                            and isinstance(a_.value, ast.BinOp)
                            and isinstance(a_.value.op, ast.Add)
                            and nl_const(a_.value.left)
                            and norm(a_.value.right) == first.id
                        ):
                            ok = True
                        if isinstance(a_, ast.AugAssign):
                            pass
                ctx.ob(
                    "C12.append",
                    ff,
                    "source appended to an existing file starts on a line of its own",
                    ok,
                    ""
                    if ok
                    else "file() may open `{}` for appending and writes the rendered source straight after whatever is there: an existing "
                    "file without a final newline (`OTHER = 1`) becomes `OTHER = 1class K(object):` — not valid Python".format(short(c.args[0], 40) if c.args else "the file"),
                    line=w.lineno,
                )
        ctx.floor("writes of emit.file.file that may append", n_w, 1)

    ctx.section(_sec_append)

    def _sec_create():
        # ------------------------------------------------------------- create
        # "missing or empty target files are created with that interface": the target is emitted by the emitter handed
        # to _conform_filename. The emitters name their node from keyword options (class_name / function_name +
        # function_type) which `_default_options(search, type_wanted)` derives from the REQUESTED target; a call of
        # the emitter without them names the new node after the truth (a class file created for `ConfigClass` holds
        # `class function_name`) or, for the function emitter, whose name options are required, raises TypeError.
        # Sibling agreement: every call of the emitter parameter passes `**_default_options(...)()`.
        from ..core import RefGraph
        from ..defuse import expand_aliases
        from ..region import Region

        cf_ = index.func("cdd.shared.conformance._conform_filename")
        do_ = index.func("cdd.shared.conformance._default_options")
        ctx.need("emit_func" in cf_.params, "_conform_filename no longer takes the emitter as `emit_func`")
        n_calls = 0
        reg_ = Region(index, RefGraph(index), cf_)

        def passes_options(g_, call, depth=2):
            """does `call` (inside g_) splat `_default_options(...)()` — directly, or by forwarding g_'s own **kwargs, which
            every call site of g_ then has to fill that way"""
            for k_ in call.keywords:
                if k_.arg is not None:
                    continue
                full = expand_aliases(g_, k_.value)
                if any(isinstance(x, (ast.Name, ast.Attribute)) and index.resolve(g_.mod, x, g_) == do_.qual for x in ast.walk(full)):
                    return True
                kw = g_.node.args.kwarg
                if kw is not None and isinstance(k_.value, ast.Name) and k_.value.id == kw.arg and depth > 0:
                    sites = reg_.callsites.get(g_.qual) or []
                    if sites and all(passes_options(c_, n_, depth - 1) for c_, n_ in sites):
                        return True
            return False

        for g_, n in reg_.nodes():
            if not (isinstance(n, ast.Call) and isinstance(n.func, ast.Name) and n.func.id == "emit_func"):
                continue
            n_calls += 1
            ok_ = passes_options(g_, n)
            ctx.ob(
                "C12.create",
                g_,
                "the emitter is called with the name options of the requested target",
                ok_,
                ""
                if ok_
                else "`{}` emits the target without `**_default_options(...)()`: the node is named after the truth, not after "
                "the requested target (a missing class file gets `class <truth name>`), and the function emitter, whose "
                "function_name / function_type are required, raises TypeError — a missing file is not created with the "
                "truth's interface under the listed name".format(short(n, 60)),
                line=n.lineno,
            )
        ctx.count("emitter_calls_in_conform_filename", n_calls)
        ctx.need(n_calls >= 1, "no call of the emitter in _conform_filename")

    ctx.section(_sec_create)
    # the argparse target is written by param2argparse_param and read back by parse_out_param on the next run: a writer
    # that escapes characters needs a reader that un-escapes them, or the second run sees a different interface
    from . import c02

    ctx.section(c02._escape, ctx, index)

