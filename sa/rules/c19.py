"""
C19 — gen writes a valid module that exports exactly what it generated; never overwrites.

C19.guard    : in __main__.main every path to gen(...) passes the refuse-if-exists test.
C19.append   : every write reachable from gen() outside the `phase > 0` arm opens in append mode.
C19.names    : the value appended to __all__ and the name handed to the emitter are the same
               templated expression, sanitising wrapper included;
               one unconditional append per input element.
C19.sanitise : ensure_valid_identifier (applied to both sides of C19.names) is the identity on every ASCII
               identifier that is not a hard keyword: three-valued evaluation of its branch conditions under
               that assumption; every return / rewrite on a path such a name can take must be the argument.
C19.perentry : no function reachable from get_functions_and_classes writes module-level state or memoises
               (C10's module-state rules re-run on that slice): the parser / emitter chosen for an entry
               depends on that entry only.
C19.dispatch : for each of the CLI's emit kinds: sanitise_emit_name -> get_emitter resolves,
               get_emit_kwarg has the key, supplied keywords are parameters of the resolved emitter
               and every required parameter of the emitter is supplied.
C19.symbol   : the keyword carrying the templated name is the parameter that names the emitted
               symbol (else __all__ names a symbol the module does not define).
"""

import ast

from ..core import RefGraph, iter_own, norm, short
from ..defuse import param_roots
from ..dispatch import cli_choices, exists, peval, underlying_function
from ..effects import Effects
from ..fold import ModuleEnv, Unknown
from ..walker import GuardWalker
from ..writes import WriteModel

SYMBOL_CTORS = frozenset(("ClassDef", "FunctionDef", "AsyncFunctionDef"))


def emit_kinds(ctx, env):
    """the emit kinds the CLI admits for gen"""
    ch = cli_choices(ctx.index, env)
    kinds = ch.get(("gen", "--emit"))
    ctx.need(kinds and not kinds[0].startswith("<unfoldable"), "cannot fold gen --emit choices")
    return kinds, ch


def run(ctx):
    """entry"""
    a = None
    c = None
    e = None
    facts = None
    holders = None
    k = None
    n = None
    ok = None
    p = None
    r = None
    index = ctx.index
    env = ModuleEnv(index)
    graph = RefGraph(index)
    eff = Effects(index)
    wm = WriteModel(index, graph, eff)
    ctx.explanation = (
        "Guard-fact dominance of the refuse-if-exists test over the call to gen in main; write modes "
        "of every sink reachable from gen outside the phase>0 arm; def-use equality of the templated "
        "name on the __all__ side and the emitter side; partial evaluation (constant folding) of "
        "sanitise_emit_name / get_emitter / get_emit_kwarg for every CLI emit kind with signature "
        "checks against the resolved emitter; def-use trace of the emitted symbol's name field."
    )
    ctx.assumptions += [
        "not decided: that the written module compiles for every input, that each symbol re-parses "
        "to its source entry, completeness of import inference",
    ]
    main = index.func("cdd.__main__.main")
    gen = index.func("cdd.compound.gen.gen")
    gfc = index.func("cdd.compound.gen_utils.get_functions_and_classes")
    gek = index.func("cdd.compound.gen_utils.get_emit_kwarg")
    get_emitter = index.func("cdd.shared.emit.utils.emitter_utils.get_emitter")
    def _sec_guard():
        nonlocal c, e, facts, n, ok
        # ------------------------------------------------------------ guard
        facts_at = {}

        def on_expr(n, facts):
            facts_at[id(n)] = facts

        GuardWalker(on_expr=on_expr).walk_function(main.node)

        def exempt_beyond_update(conds):
            """
            The refusal may be skipped only for invocations in which gen does not generate: gen's own first arm
            (`phase > 0 and emit_name in <SQLalchemy kinds>`: update the file phase 0 wrote, then return). `conds` are the
            extra (condition text, truth) pairs under which main refuses; both sides are folded over the finite domain
            phase in 0..3 x the CLI's emit kinds. None when every exempted invocation is an updating one, else a message.
            """
            from ..fold import fold as _fold

            arm = None
            for st in gen.node.body:
                if isinstance(st, ast.If) and {"phase", "emit_name"} <= {x.id for x in ast.walk(st.test) if isinstance(x, ast.Name)}:
                    arm = st
                    break
            if arm is None:
                return "gen no longer has a phase arm, yet main skips the refusal under {}".format([c_[0] for c_ in conds]) if conds else None

            def ends(stmts):
                if not stmts:
                    return False
                last = stmts[-1]
                if isinstance(last, (ast.Return, ast.Raise)):
                    return True
                if isinstance(last, ast.If):
                    return ends(last.body) and ends(last.orelse)
                return False

            if not ends(arm.body):
                return "gen's phase arm no longer returns on every path: a later phase falls through to generation"
            kinds = emit_kinds(ctx, env)[0]
            for p_ in (0, 1, 2, 3):
                for k_ in kinds:
                    def res(chain, _p=p_, _k=k_):
                        if chain == ["args", "phase"]:
                            return _p
                        if chain == ["args", "emit_name"]:
                            return _k
                        raise Unknown(".".join(chain))

                    try:
                        refuses = all(bool(_fold(ast.parse(t_, mode="eval").body, {}, res)) is v_ for t_, v_ in conds)
                        updates = bool(_fold(arm.test, {"phase": p_, "emit_name": k_}, lambda ch: (_ for _ in ()).throw(Unknown(".".join(ch)))))
                    except Unknown as x_:
                        return "cannot evaluate the refusal's extra condition(s) {} over (phase, emit kind): {}".format([c_[0] for c_ in conds], x_)
                    if not refuses and not updates:
                        return (
                            "with --phase {} --emit {} main skips the refuse-if-exists test ({}), but gen only treats a later phase as "
                            "an update for its own arm `{}`: for this invocation it falls through to generation and appends to the "
                            "existing file".format(p_, k_, " and ".join(c_[0] for c_ in conds), short(arm.test, 70))
                        )
            return None

        gen_calls = [
            n
            for n in iter_own(main.node)
            if isinstance(n, ast.Call) and index.callee(main.mod, n, main) == gen.qual
        ]
        ctx.need(gen_calls, "call to gen vanished from main")
        for c in gen_calls:
            facts = facts_at.get(id(c)) or {}
            ok, why = False, "no dominating refuse-if-exists test"
            for text, truth in facts.items():
                if truth is not False or "isfile" not in text:
                    continue
                e = ast.parse(text, mode="eval").body
                conj = e.values if isinstance(e, ast.BoolOp) and isinstance(e.op, ast.And) else [e]
                texts = [norm(x) for x in conj]
                has_isfile = any("isfile" in t and "output_filename" in t for t in texts)
                others = [t for t in texts if not ("isfile" in t and "output_filename" in t)]
                if has_isfile:
                    bad_ = exempt_beyond_update([(t, True) for t in others])
                    if bad_ is None:
                        ok, why = True, ""
                        break
                    why = bad_
            if not ok:
                # the refusal extracted into a helper: a statement `h(<output file>)` before the call to gen, where h
                # raises when its argument is an existing file; it may be skipped only when `args.phase == 0` is false
                for hc in iter_own(main.node):
                    if not (isinstance(hc, ast.Call) and hc.lineno < c.lineno and isinstance(main.mod.parents.get(hc), ast.Expr)):
                        continue
                    h = index.funcs.get(index.callee(main.mod, hc, main) or "")
                    if h is None or not hc.args or "output_filename" not in norm(hc.args[0]) or not h.params:
                        continue
                    raises_on_file = any(
                        isinstance(st, ast.If)
                        and "isfile({})".format(h.params[0]) in norm(st.test).replace("path.", "").replace("os.", "")
                        and not (isinstance(st.test, ast.BoolOp))
                        and st.body
                        and isinstance(st.body[-1], ast.Raise)
                        for st in h.node.body
                    )
                    if not raises_on_file:
                        continue
                    fh = facts_at.get(id(hc)) or {}
                    extra = {t: v for t, v in fh.items() if facts.get(t) != v}
                    bad_ = exempt_beyond_update(sorted(extra.items()))
                    if bad_ is None:
                        ok, why = True, ""
                        break
                    why = "the refusal helper {}() is only reached when {}: {}".format(h.node.name, sorted(extra), bad_)
            # the true arm must raise: guaranteed by the fact being False after an `if` that terminates
            ctx.ob("C19.guard", main, "gen(...) is dominated by the refuse-if-exists test", ok, why, line=c.lineno)
        # the guard's true arm raises (not e.g. prints and continues)
        for n in iter_own(main.node):
            if isinstance(n, ast.If) and "isfile" in norm(n.test) and "output_filename" in norm(n.test):
                ok = bool(n.body) and isinstance(n.body[-1], ast.Raise)
                ctx.ob("C19.guard", main, "if " + short(n.test, 80), ok, "" if ok else "the refuse-if-exists arm no longer raises", line=n.lineno)

    ctx.section(_sec_guard)

    def _sec_handover():
        # ------------------------------------------------------- guard and gen see the same path
        # The refusal looks at one spelling of the output path; what gen receives must be that very value. main
        # builds `args_dict` from `vars(args)` and splats it into gen: the projection must hand `output_filename`
        # through unchanged (a per-key transformation such as expanduser / abspath makes `~/x.py` pass the test
        # and then be appended to).
        KEY = "output_filename"

        def three(e, kvar):
            """3-valued truth of a test over the key variable bound to KEY (None = depends on the value)"""
            if isinstance(e, ast.BoolOp):
                vals = [three(x, kvar) for x in e.values]
                if isinstance(e.op, ast.And):
                    return False if False in vals else (None if None in vals else True)
                return True if True in vals else (None if None in vals else False)
            if isinstance(e, ast.UnaryOp) and isinstance(e.op, ast.Not):
                v = three(e.operand, kvar)
                return None if v is None else not v
            if isinstance(e, ast.Compare) and len(e.ops) == 1 and isinstance(e.left, ast.Name) and e.left.id == kvar:
                try:
                    rhs = ast.literal_eval(e.comparators[0])
                except Exception:
                    return None
                op = e.ops[0]
                if isinstance(op, ast.Eq):
                    return KEY == rhs
                if isinstance(op, ast.NotEq):
                    return KEY != rhs
                if isinstance(op, ast.In):
                    return KEY in rhs
                if isinstance(op, ast.NotIn):
                    return KEY not in rhs
            if (
                isinstance(e, ast.Call)
                and isinstance(e.func, ast.Attribute)
                and isinstance(e.func.value, ast.Name)
                and e.func.value.id == kvar
                and e.func.attr in ("endswith", "startswith")
                and len(e.args) == 1
            ):
                try:
                    return bool(getattr(KEY, e.func.attr)(ast.literal_eval(e.args[0])))
                except Exception:
                    return None
            return None

        def passes_through(e, kvar, vvar):
            if isinstance(e, ast.Name) and e.id == vvar:
                return True
            if isinstance(e, ast.IfExp):
                t = three(e.test, kvar)
                if t is True:
                    return passes_through(e.body, kvar, vvar)
                if t is False:
                    return passes_through(e.orelse, kvar, vvar)
                return passes_through(e.body, kvar, vvar) and passes_through(e.orelse, kvar, vvar)
            return False

        guard_tests = [n for n in iter_own(main.node) if isinstance(n, ast.Call) and norm(n.func).rpartition(".")[2] == "isfile" and n.args and KEY in norm(n.args[0])]
        guard_roots = set()
        for g_ in guard_tests:
            a0 = g_.args[0]
            while isinstance(a0, (ast.Attribute, ast.Subscript)):
                a0 = a0.value
            if isinstance(a0, ast.Name):
                guard_roots.add(a0.id)
        n_h = 0
        for c in [n for n in iter_own(main.node) if isinstance(n, ast.Call) and index.callee(main.mod, n, main) == gen.qual]:
            explicit = [k for k in c.keywords if k.arg == KEY]
            for k in explicit:
                n_h += 1
                ok = any(norm(k.value) == norm(g_.args[0]) for g_ in guard_tests) or not guard_tests
                ctx.ob("C19.guard", main, "gen(output_filename={})".format(short(k.value, 60)), ok, "" if ok else "gen is handed `{}` while the refuse-if-exists test looks at `{}`".format(short(k.value, 60), ", ".join(short(g_.args[0], 40) for g_ in guard_tests)), line=c.lineno)
            for k in [k for k in c.keywords if k.arg is None]:
                ctx.need(isinstance(k.value, ast.Name), "gen(**<expression>): the splatted mapping is not a local name")
                dname = k.value.id
                if guard_roots and guard_roots <= {dname}:
                    n_h += 1
                    ctx.ob("C19.guard", main, "gen(**{}) and the refusal read the same mapping".format(dname), True, line=c.lineno)
                    continue
                defs = [n for n in iter_own(main.node) if isinstance(n, (ast.Assign, ast.AnnAssign)) and any(isinstance(t, ast.Name) and t.id == dname for t in (n.targets if isinstance(n, ast.Assign) else [n.target]))]
                ctx.need(len(defs) == 1 and defs[0].value is not None, "`{}` is no longer defined exactly once in main".format(dname))
                v = defs[0].value
                ok, why = False, ""
                if isinstance(v, ast.DictComp) and len(v.generators) == 1 and isinstance(v.generators[0].target, ast.Tuple) and len(v.generators[0].target.elts) == 2 and all(isinstance(x, ast.Name) for x in v.generators[0].target.elts):
                    kvar, vvar = (x.id for x in v.generators[0].target.elts)
                    ctx.need("vars(args)" in norm(v.generators[0].iter) or "args.__dict__" in norm(v.generators[0].iter), "`{}` is not built from vars(args)".format(dname))
                    key_ok = isinstance(v.key, ast.Name) and v.key.id == kvar
                    ok = key_ok and passes_through(v.value, kvar, vvar)
                    why = "" if ok else "`{}` is built with the value `{}` for the key `{}`: the path gen writes is a transformation of the path the refuse-if-exists test (`{}`) looked at, so another spelling of an existing file (e.g. `~/x.py`) passes the test and is appended to".format(
                        dname, short(v.value, 80), short(v.key, 30), ", ".join(short(g_.args[0], 40) for g_ in guard_tests)
                    )
                elif norm(v) in ("vars(args)", "dict(vars(args))", "vars(args).copy()", "args.__dict__"):
                    ok = True
                else:
                    ctx.need(False, "`{}` = {} is not a projection of vars(args) this rule understands".format(dname, short(v, 60)))
                n_h += 1
                ctx.ob("C19.guard", main, "{} hands output_filename through unchanged".format(dname), ok, why, line=defs[0].lineno)
                # later per-key stores
                for n in iter_own(main.node):
                    tg = None
                    if isinstance(n, ast.Assign):
                        tg = [t for t in n.targets if isinstance(t, ast.Subscript) and isinstance(t.value, ast.Name) and t.value.id == dname]
                    if tg and any(isinstance(t.slice, ast.Constant) and t.slice.value == KEY for t in tg) and n.lineno < c.lineno:
                        val_ok = any(norm(n.value) == norm(g_.args[0]) for g_ in guard_tests)
                        ctx.ob("C19.guard", main, n, val_ok, "" if val_ok else "output_filename is replaced in `{}` before gen is called: guard and write can refer to different files".format(dname), line=n.lineno)
        ctx.floor("hand-over sites of output_filename between main's guard and gen", n_h, 1)

    ctx.section(_sec_handover)

    def _sec_append():
        nonlocal e, facts, n, p, r
        # ----------------------------------------------------------- append
        gfacts = {}

        def on_expr2(n, facts):
            gfacts[id(n)] = facts

        GuardWalker(on_expr=on_expr2).walk_function(gen.node)
        n_sites = 0
        for n in iter_own(gen.node):
            if not isinstance(n, (ast.Name, ast.Attribute)) or not isinstance(getattr(n, "ctx", None), ast.Load):
                continue
            p = gen.mod.parents.get(n)
            if isinstance(p, ast.Attribute) and p.value is n:
                continue
            r = index.resolve(gen.mod, n, gen)
            if r not in wm.may or r not in index.funcs:
                continue
            n_sites += 1
            facts = gfacts.get(id(n)) or {}
            if facts.get("phase > 0") is True:
                ctx.ob("C19.append", gen, short(n) + " (phase>0 arm)", True, line=n.lineno)
                continue
            # every primitive write reachable from r must be append mode
            bad = []
            for q in graph.reachable([r]):
                for e in wm.direct.get(q, ()):
                    if e.sub != "open:a":
                        bad.append("{} in {}".format(e.sub, q))
                for node, wq, mode in wm.wrapper_write_sites.get(q, ()):
                    if mode != "a":
                        bad.append("{}(mode={!r}) in {}".format(wq, mode, q))
            ctx.ob(
                "C19.append",
                gen,
                short(n),
                not bad,
                ""
                if not bad
                else "reachable at phase 0 and may truncate/modify an existing file: {}".format(bad[:3]),
                line=n.lineno,
            )
        for e in wm.direct.get(gen.qual, ()):
            n_sites += 1
            ctx.ob("C19.append", gen, e.call, e.sub == "open:a", "" if e.sub == "open:a" else "gen itself opens with " + e.sub)
        ctx.count("gen_write_reference_sites", n_sites)
        ctx.floor("write reference sites in gen", n_sites, 2)

    ctx.section(_sec_append)

    def _sec_names():
        nonlocal a, c, holders, k, ok, p
        # ------------------------------------------------------------ names
        holders = [gfc] + [f for f in index.funcs.values() if f.outer is gfc]
        appends = [
            (h, n)
            for h in holders
            for n in iter_own(h.node)
            if isinstance(n, ast.Call)
            and isinstance(n.func, ast.Attribute)
            and n.func.attr == "append"
            and norm(n.func.value) == "global__all__"
        ]
        ctx.need(len(appends) >= 1, "global__all__.append vanished from get_functions_and_classes")
        ok = len(appends) == 1
        ctx.ob("C19.names", gfc, "exactly one global__all__.append", ok, "" if ok else "{} appends".format(len(appends)), line=gfc.node.lineno)
        holder, app = appends[0]
        all_expr = norm(app.args[0]) if app.args else ""
        # unconditional, once per input element: no conditional construct between the append and its function
        uncond = True
        child, p = app, holder.mod.parents.get(app)
        while p is not None and p is not holder.node:
            if isinstance(p, ast.BoolOp):
                if isinstance(p.op, ast.Or):

                    def always_falsy(v):
                        """print(...) / list.append(...) return None; None / False; a conditional between such"""
                        if isinstance(v, ast.Call) and (norm(v.func) == "print" or (isinstance(v.func, ast.Attribute) and v.func.attr in ("append", "extend", "add", "update", "write"))):
                            return True
                        if isinstance(v, ast.Constant) and v.value in (None, False):
                            return True
                        if isinstance(v, ast.IfExp):
                            return always_falsy(v.body) and always_falsy(v.orelse)
                        return False

                    for v in p.values[: p.values.index(child)]:
                        if not always_falsy(v):
                            uncond = False
                else:
                    uncond = False
            elif isinstance(p, (ast.If, ast.IfExp, ast.While, ast.Try)):
                uncond = False
            elif isinstance(p, (ast.GeneratorExp, ast.ListComp)):
                if any(g.ifs for g in p.generators) or p.elt is not child:
                    uncond = False
            child, p = p, holder.mod.parents.get(p)
        ctx.ob("C19.names", holder, app, uncond, "" if uncond else "__all__ append is conditional or not once per input element")
        # emitter side: get_emit_kwarg's name expression
        lam_calls = [n for n in iter_own(gek.node) if isinstance(n, ast.Call) and isinstance(n.func, ast.Lambda)]
        ctx.need(len(lam_calls) == 1 and lam_calls[0].args, "get_emit_kwarg no longer has the (lambda _name: table[emit_name])(name expr) shape")
        name_expr = lam_calls[0].args[0]
        inner = name_expr
        if isinstance(inner, ast.IfExp):
            # None if name == "infer" else <expr>
            ok_if = isinstance(inner.body, ast.Constant) and inner.body.value is None
            ctx.need(ok_if, "unexpected conditional around the emitter name")
            inner = inner.orelse
        # the two sides must be the same expression INCLUDING the sanitising wrapper: the wrapper is not
        # the identity on names that are not identifiers ('my.config.json' -> 'myconfigjson', 'class' ->
        # 'class_'), so a wrapper on one side only makes __all__ list a name the module does not define
        # get_emit_kwarg's expression is over ITS parameters; substitute what get_functions_and_classes passes for
        # them and compare with what is appended to __all__ (so the comparison does not depend on local names)
        import copy

        gek_calls = [(h, n) for h in holders for n in iter_own(h.node) if isinstance(n, ast.Call) and index.callee(h.mod, n, h) == gek.qual]
        ctx.need(gek_calls, "get_emit_kwarg call vanished")
        for _h, c in gek_calls:
            bound = {}
            for i, a in enumerate(c.args):
                if i < len(gek.params):
                    bound[gek.params[i]] = a
            for k in c.keywords:
                bound[k.arg] = k.value

            class Sub(ast.NodeTransformer):
                def visit_Name(self, node):
                    return copy.deepcopy(bound[node.id]) if node.id in bound else node

            emit_expr = norm(Sub().visit(copy.deepcopy(inner)))
            same = emit_expr == all_expr
            ctx.ob(
                "C19.names",
                gek,
                "emitter name == __all__ entry: " + short(name_expr, 100),
                same,
                ""
                if same
                else "name handed to the emitter is `{}` (after binding get_emit_kwarg's parameters at the call) but __all__ "
                "receives `{}`".format(emit_expr, all_expr),
                line=name_expr.lineno,
            )

    ctx.section(_sec_names)

    def _sec_sanitise():
        # --------------------------------------------------------- sanitise
        # Both sides of C19.names go through ensure_valid_identifier; "named by the name template" then needs
        # that function to be the identity on every ASCII identifier that is not a hard keyword. Decided by
        # evaluating its branch conditions three-valued under that assumption on the argument.
        import string as _string

        evi = index.func("cdd.shared.pure_utils.ensure_valid_identifier")
        ctx.need(len(evi.params) == 1, "ensure_valid_identifier no longer takes exactly one argument")
        prm = evi.params[0]
        alpha = set(_string.ascii_letters + _string.digits + "_")
        local = {}
        checked = [0]

        def tv(t):
            """truth of a test for: prm is a non-empty str over [A-Za-z0-9_], first char not a digit, not a keyword"""
            if isinstance(t, ast.UnaryOp) and isinstance(t.op, ast.Not):
                v = tv(t.operand)
                return None if v is None else (not v)
            if isinstance(t, ast.Name) and t.id == prm:
                return True
            if isinstance(t, ast.BoolOp):
                vs = [tv(v) for v in t.values]
                if isinstance(t.op, ast.Or):
                    return True if any(v is True for v in vs) else (False if all(v is False for v in vs) else None)
                return False if any(v is False for v in vs) else (True if all(v is True for v in vs) else None)
            if isinstance(t, ast.Call):
                callee = index.callee(evi.mod, t, evi) or ""
                if callee == "keyword.iskeyword" and [norm(x) for x in t.args] == [prm] and not t.keywords:
                    return False
                txt = norm(t)
                if txt in tuple("{}[0].{}()".format(prm, m) for m in ("isdigit", "isnumeric", "isdecimal")):
                    return False
                if txt in ("{}.isidentifier()".format(prm), "{}.isascii()".format(prm)):
                    return True
            return None

        def charset_of(e):
            try:
                v = env.in_module(evi.mod, e, local)
            except Unknown:
                return None
            try:
                return set(v)
            except TypeError:
                return None

        def identity(e):
            """is `e` equal to prm for every argument in the assumed domain?"""
            if isinstance(e, ast.Name) and e.id == prm:
                return True
            if isinstance(e, ast.BoolOp) and isinstance(e.op, ast.Or) and e.values:
                return identity(e.values[0])
            if isinstance(e, ast.Call) and norm(e.func) == "str" and len(e.args) == 1:
                return identity(e.args[0])
            if isinstance(e, ast.Call) and isinstance(e.func, ast.Attribute) and e.func.attr == "join" and isinstance(e.func.value, ast.Constant) and e.func.value.value == "" and len(e.args) == 1:
                a = e.args[0]
                if isinstance(a, ast.Call) and norm(a.func) == "filter" and len(a.args) == 2 and norm(a.args[1]) == prm:
                    pred = a.args[0]
                    keep = None
                    if isinstance(pred, ast.Attribute) and pred.attr == "__contains__":
                        keep = charset_of(pred.value)
                    elif isinstance(pred, ast.Lambda) and isinstance(pred.body, ast.Compare) and len(pred.body.ops) == 1 and isinstance(pred.body.ops[0], ast.In):
                        keep = charset_of(pred.body.comparators[0])
                    return keep is not None and alpha <= keep
                if isinstance(a, (ast.GeneratorExp, ast.ListComp)) and len(a.generators) == 1 and norm(a.generators[0].iter) == prm and norm(a.elt) == norm(a.generators[0].target):
                    g = a.generators[0]
                    if not g.ifs:
                        return True
                    if len(g.ifs) == 1 and isinstance(g.ifs[0], ast.Compare) and isinstance(g.ifs[0].ops[0], ast.In):
                        keep = charset_of(g.ifs[0].comparators[0])
                        return keep is not None and alpha <= keep
            return False

        def walk(stmts, chain):
            for st in stmts:
                if isinstance(st, ast.If):
                    v = tv(st.test)
                    if v is True:
                        if walk(st.body, chain):
                            return True
                    elif v is False:
                        if walk(st.orelse, chain):
                            return True
                    else:
                        a_ = walk(st.body, chain + [short(st.test, 60)])
                        b_ = walk(st.orelse, chain + ["not ({})".format(short(st.test, 50))])
                        if a_ and b_:
                            return True
                    continue
                if isinstance(st, ast.Return):
                    ok_ = st.value is not None and identity(st.value)
                    checked[0] += 1
                    ctx.ob(
                        "C19.sanitise",
                        evi,
                        st,
                        ok_,
                        ""
                        if ok_
                        else "ensure_valid_identifier can return something other than its argument for a valid, non-keyword ASCII identifier"
                        + (" (branch `{}` is not known to be false for such names)".format(" and ".join(chain)) if chain else "")
                        + ": the generated symbol is then not named by the name template",
                    )
                    return True
                if isinstance(st, (ast.Assign, ast.AnnAssign)) and st.value is not None:
                    tg = st.targets if isinstance(st, ast.Assign) else [st.target]
                    for t_ in tg:
                        if isinstance(t_, ast.Name) and t_.id == prm:
                            ok_ = identity(st.value)
                            ctx.ob(
                                "C19.sanitise",
                                evi,
                                st,
                                ok_,
                                "" if ok_ else "the argument is rewritten on a path a valid, non-keyword ASCII identifier can take"
                                + (" (branch `{}`)".format(" and ".join(chain)) if chain else ""),
                            )
                        elif isinstance(t_, ast.Name):
                            try:
                                local[t_.id] = env.in_module(evi.mod, st.value, local)
                            except Unknown:
                                local.pop(t_.id, None)
                    continue
                if isinstance(st, ast.Expr) and isinstance(st.value, ast.Constant):
                    continue
                if isinstance(st, (ast.Raise,)):
                    ctx.ob("C19.sanitise", evi, st, False, "ensure_valid_identifier raises on a path a valid identifier can take")
                    return True
                ctx.need(False, "ensure_valid_identifier contains a statement the sanitiser rule does not model: {}".format(short(st, 60)))
            return False

        walk(evi.node.body, [])
        ctx.need(checked[0] >= 1, "no return of ensure_valid_identifier lies on a path a valid identifier can take")

    ctx.section(_sec_sanitise)

    def _sec_perentry():
        # --------------------------------------------------------- perentry
        # "each generated symbol has the interface of ITS source entry": the per-entry pipeline
        # (get_functions_and_classes -> get_parser / get_emitter / parser / emitter) must not carry state from
        # one entry (or one gen call) to the next. Re-runs C10's module-state and memoisation rules on exactly
        # the functions reachable from get_functions_and_classes.
        from . import c10

        # get_parser / get_emitter dispatch through import_module + getattr, which the reference graph does not
        # follow: every function of a `cdd.<kind>.parse` / `cdd.<kind>.emit` module is a possible target
        targets = [
            f.qual
            for f in index.nontest_funcs()
            if f.outer is None and f.mod.name.count(".") == 2 and f.mod.name.rpartition(".")[2] in ("parse", "emit")
        ]
        ctx.count("perentry_dispatch_targets", len(targets))
        reach = graph.reachable([gfc.qual] + targets)
        ctx.count("perentry_functions", len(reach))
        ctx.need(len(reach) >= 25, "the per-entry pipeline of gen shrank to {} functions: call graph no longer resolves it".format(len(reach)))
        v = ctx.view(lambda w: getattr(w, "qual", None) in reach, rule="C19.perentry", prefix="perentry_")
        c10._modstate(v)

    ctx.section(_sec_perentry)

    def _sec_dispatch():
        nonlocal a, k, n, ok, r
        # --------------------------------------------------------- dispatch
        kinds, choices = emit_kinds(ctx, env)
        ctx.count("emit_kinds", len(kinds))
        try:
            san = env.value("cdd.shared.pure_utils.sanitise_emit_name")
        except Unknown as x:
            ctx.need(False, "cannot fold sanitise_emit_name: {}".format(x))
        always_kw = set()
        # the local bound to get_emitter(emit_name), whatever it is called
        evars = {
            a.targets[0].id
            for h in holders
            for a in iter_own(h.node)
            if isinstance(a, ast.Assign) and isinstance(a.targets[0], ast.Name) and isinstance(a.value, ast.Call) and (index.callee(h.mod, a.value, h) or "").endswith(".get_emitter")
        }
        for n in [x for h in holders for x in iter_own(h.node)]:
            if isinstance(n, ast.Call) and isinstance(n.func, ast.Name) and n.func.id in evars:
                always_kw = {k.arg for k in n.keywords if k.arg}
                n_pos = len(n.args)
        ctx.need(always_kw, "emitter(...) call vanished from get_functions_and_classes")
        rows = []
        for k in kinds:
            try:
                s = san(k)
            except KeyError:
                ctx.ob("C19.dispatch", gen, "sanitise_emit_name[{!r}]".format(k), False, "CLI emit kind missing from sanitise_emit_name", line=gen.node.lineno)
                continue
            r = peval(index, env, get_emitter, {"emit_name": s})
            if r[0] != "attr":
                ctx.need(r[0] == "keyerror", "cannot partially evaluate get_emitter({!r}): {}".format(s, r))
                ctx.ob("C19.dispatch", get_emitter, "get_emitter({!r})".format(s), False, r[1], line=get_emitter.node.lineno)
                continue
            ok, msg = exists(index, r[1], r[2])
            ctx.ob("C19.dispatch", get_emitter, "get_emitter({!r}) -> {}.{}".format(s, r[1], r[2]), ok, msg, line=get_emitter.node.lineno)
            if not ok:
                continue
            tf, pre_bound = underlying_function(index, r[1], r[2])
            ctx.need(tf is not None, "cannot find the function behind {}.{}".format(r[1], r[2]))
            kw = peval(index, env, gek, {"emit_name": s})
            if kw[0] == "keyerror":
                ctx.ob(
                    "C19.dispatch",
                    gek,
                    "get_emit_kwarg(emit_name={!r})".format(s),
                    False,
                    "`gen --emit {}` raises {}".format(k, kw[1]),
                    line=gek.node.lineno,
                )
                continue
            ctx.need(kw[0] == "value" and isinstance(kw[1], dict), "cannot partially evaluate get_emit_kwarg({!r}): {}".format(s, kw))
            supplied = set(kw[1]) | always_kw | set(pre_bound)
            a = tf.node.args
            params = [x.arg for x in a.posonlyargs + a.args + a.kwonlyargs]
            has_kwargs = a.kwarg is not None
            extra = sorted(x for x in (set(kw[1]) | always_kw) if x not in params and not has_kwargs)
            ctx.ob(
                "C19.dispatch",
                gek,
                "keywords for {!r} are parameters of {}".format(s, tf.short),
                not extra,
                "" if not extra else "`gen --emit {}` passes unexpected keyword(s) {} to {}".format(k, extra, tf.qual),
                line=gek.node.lineno,
            )
            pos = a.posonlyargs + a.args
            required = [x.arg for x in pos[: len(pos) - len(a.defaults)]][n_pos:]
            required += [x.arg for x, d in zip(a.kwonlyargs, a.kw_defaults) if d is None]
            missing = sorted(x for x in required if x not in supplied)
            ctx.ob(
                "C19.dispatch",
                gek,
                "required parameters of {} supplied for {!r}".format(tf.short, s),
                not missing,
                ""
                if not missing
                else "`gen --emit {}` raises TypeError: {}() missing required argument(s) {}".format(k, tf.short, missing),
                line=gek.node.lineno,
            )
            rows.append({"kind": k, "sanitised": s, "emitter": tf.qual, "kwargs": sorted(kw[1])})
            # ------------------------------------------------------- symbol
            if s == "json_schema":
                continue
            name_params = _symbol_name_params(index, tf)
            ctx.need(name_params is not None, "cannot find the emitted symbol's name in {}".format(tf.qual))
            carried = [x for x in kw[1] if x.endswith("name") or x == "identifier"]
            ok = any(x in name_params for x in carried)
            ctx.ob(
                "C19.symbol",
                gek,
                "{!r}: templated name goes to {} ; symbol named by {}".format(s, carried, sorted(name_params)),
                ok,
                ""
                if ok
                else "`gen --name-tpl T --emit {}`: __all__ lists T(name) but {} names its symbol from {} "
                "(which falls back to the untemplated source name); the templated name is only passed as {}".format(
                    k, tf.short, sorted(name_params), carried
                ),
                line=gek.node.lineno,
            )
        ctx.samples = rows
        ctx.exhaustive = True
        del choices
        ctx.section(_samepath, ctx, index, graph, gen)
        ctx.section(_oneshot, ctx, index, graph, gen)
        ctx.section(_future, ctx, index)
        ctx.section(_imports, ctx, index)
        ctx.section(_cachekey, ctx, index, graph, gen)

    ctx.section(_sec_dispatch)



def _samepath(ctx, index, graph, gen):
    """
    The refuse-if-exists test in main looks at the raw `output_filename`; gen and the writers it
    calls must write exactly that path: the parameter is never rebound / normalised on the way.
    """
    from ..walker import assigned_names

    reach = graph.reachable([gen.qual])
    n = 0
    for q in sorted(reach):
        f = index.funcs.get(q)
        if f is None or f.mod.is_test or "output_filename" not in f.params:
            continue
        n += 1
        rebound = "output_filename" in assigned_names(f.node.body)
        ctx.ob(
            "C19.guard",
            f,
            "output_filename is written as given",
            not rebound,
            ""
            if not rebound
            else "output_filename is rebound/normalised after main's refuse-if-exists test looked at the raw "
            "value: the guard and the write can refer to different files (e.g. `~/x.py`)",
            line=f.node.lineno,
        )
        # handed on unchanged
        for c in iter_own(f.node):
            if isinstance(c, ast.Call):
                callee = index.callee(f.mod, c, f)
                if callee in index.funcs and "output_filename" in index.funcs[callee].params:
                    tf = index.funcs[callee]
                    a = None
                    for k in c.keywords:
                        if k.arg == "output_filename":
                            a = k.value
                    i = tf.params.index("output_filename")
                    if a is None and i < len(c.args):
                        a = c.args[i]
                    if a is not None:
                        ok = isinstance(a, ast.Name) and a.id == "output_filename"
                        ctx.ob(
                            "C19.guard",
                            f,
                            c if len(norm(c)) < 120 else "{}(... output_filename={})".format(norm(c.func), norm(a)),
                            ok,
                            "" if ok else "a transformed path `{}` is handed to {}".format(norm(a), tf.short),
                            line=c.lineno,
                        )
    ctx.count("functions_carrying_output_filename", n)
    ctx.floor("functions carrying output_filename", n, 1)


def _oneshot(ctx, index, graph, gen):
    """no one-shot iterator is consumed twice on the gen pipeline (else symbols vanish from the module)"""
    from ..oneshot import OneShot

    o = OneShot(index, index.nontest_funcs())
    reports = o.analyse()
    reach = graph.reachable([gen.qual])
    ctx.count("one_shot_iterator_names", o.sites)
    ctx.floor("one-shot iterator names analysed", o.sites, 4)
    hit = False
    for f, name, u1, u2 in reports:
        msg = (
            "`{}` may be a one-shot iterator (map/filter/generator, or the result of a function returning "
            "one) and is consumed at line {} and again at line {}: the second consumer sees nothing".format(
                name, u1.lineno, u2.lineno
            )
        )
        if f.qual in reach:
            hit = True
            ctx.ob("C19.oneshot", f, "{} consumed twice".format(name), False, msg, line=u2.lineno)
        else:
            ctx.note("one-shot iterator consumed twice outside the gen pipeline: {} {}".format(f.qual, msg))
    if not hit:
        ctx.ob("C19.oneshot", gen, "no one-shot iterator consumed twice on the gen pipeline", True, line=gen.node.lineno)


def _future(ctx, index):
    """gen_module must single out `__future__` imports when it orders the import block"""
    f = index.func("cdd.compound.gen_utils.gen_module")
    # the ordering step may have been extracted into a private helper of the module
    from ..core import RefGraph
    from ..region import Region

    reg = Region(index, RefGraph(index), f, allow_passed=True)
    for g in reg.funcs:
        if any(
            isinstance(n, ast.Compare) and any(isinstance(c, ast.Constant) and c.value == "__future__" for c in [n.left] + n.comparators)
            for n in iter_own(g.node)
        ):
            f = g
            break
    hits = [
        n
        for n in iter_own(f.node)
        if isinstance(n, ast.Compare)
        and any(isinstance(c, ast.Constant) and c.value == "__future__" for c in [n.left] + n.comparators)
    ]
    in_order = False
    for n in hits:
        p = f.mod.parents.get(n)
        while p is not None and p is not f.node:
            if isinstance(p, ast.Call) and norm(p.func) in ("sorted", "filter", "partition") or isinstance(p, ast.keyword) and p.arg == "key":
                in_order = True
            p = f.mod.parents.get(p)
    # the other discipline: one pass that partitions the body into lists, `__future__` imports into their own list,
    # and a final concatenation in which that list comes before every other list the loop fills
    partition_ok = None
    if hits and not in_order:
        fut_lists, other_lists = set(), set()
        for n in hits:
            arm = f.mod.parents.get(n)
            while arm is not None and not isinstance(arm, ast.If):
                arm = f.mod.parents.get(arm)
            if arm is None:
                continue
            positive = isinstance(n.ops[0], ast.Eq)
            for blk, is_future in ((arm.body, positive), (arm.orelse, not positive)):
                for st in blk:
                    for c in ast.walk(st):
                        if isinstance(c, ast.Call) and isinstance(c.func, ast.Attribute) and c.func.attr in ("append", "extend") and isinstance(c.func.value, ast.Name):
                            (fut_lists if is_future else other_lists).add(c.func.value.id)
            # sibling arms of an enclosing if/elif chain also fill "other" lists
            top = arm
            while isinstance(f.mod.parents.get(top), ast.If) and top in f.mod.parents.get(top).orelse:
                top = f.mod.parents.get(top)
            for c in ast.walk(top):
                if isinstance(c, ast.Call) and isinstance(c.func, ast.Attribute) and c.func.attr in ("append", "extend") and isinstance(c.func.value, ast.Name):
                    if c.func.value.id not in fut_lists:
                        other_lists.add(c.func.value.id)
        other_lists -= fut_lists
        concat = None
        for n in iter_own(f.node):
            if (isinstance(n, ast.Assign) and norm(n.targets[0]).endswith(".body") or isinstance(n, ast.Return) and f is not index.funcs.get("cdd.compound.gen_utils.gen_module")) and isinstance(n.value, ast.BinOp):
                # `mod.body = a + b + c`, or — in an extracted ordering helper — `return a + b + c`
                order = []

                def flat(e):
                    if isinstance(e, ast.BinOp) and isinstance(e.op, ast.Add):
                        flat(e.left)
                        flat(e.right)
                    else:
                        order.append(norm(e))

                flat(n.value)
                concat = order
        if fut_lists and concat is not None and all(x in concat for x in fut_lists):
            pos_f = max(concat.index(x) for x in fut_lists)
            pos_o = [concat.index(x) for x in other_lists if x in concat]
            partition_ok = bool(pos_o) and pos_f < min(pos_o)
            in_order = True
    ok = bool(hits) and in_order
    ctx.ob(
        "C19.future",
        f,
        "`__future__` imports are recognised when the import block is ordered",
        ok,
        ""
        if ok
        else "nothing in gen_module's ordering step distinguishes `from __future__ import ...` any more: with "
        "--prepend/--imports-from-file it can end up after another import and the written module does not compile",
        line=f.node.lineno,
    )
    if ok and partition_ok is not None:
        ctx.ob(
            "C19.future",
            f,
            "the `__future__` partition is concatenated before every other partition",
            partition_ok,
            "" if partition_ok else "the list collecting `__future__` imports is not placed before the other imports / statements",
            line=f.node.lineno,
        )
    if ok:
        # and the ordering puts them first: key `== "__future__"` with reverse=True, or `!=` without
        for n in hits:
            p = f.mod.parents.get(n)
            call = None
            while p is not None and p is not f.node:
                # sorted(xs, key=...) and xs.sort(key=...) alike: the call whose `key=` keyword holds the comparison
                if isinstance(p, ast.Call) and (norm(p.func) == "sorted" or (isinstance(p.func, ast.Attribute) and p.func.attr == "sort")):
                    call = p
                p = f.mod.parents.get(p)
            if call is not None:
                rev = any(k.arg == "reverse" and isinstance(k.value, ast.Constant) and k.value.value is True for k in call.keywords)
                is_eq = isinstance(n.ops[0], ast.Eq)
                first = (is_eq and rev) or (isinstance(n.ops[0], ast.NotEq) and not rev)
                ctx.ob(
                    "C19.future",
                    f,
                    "sort by key=<is __future__>, reverse={}".format(rev),
                    first,
                    "" if first else "the sort key sends `__future__` imports to the END of the import block",
                    line=call.lineno,
                )


def _cachekey(ctx, index, graph, gen):
    """
    C19.cachekey — "each generated symbol, parsed back, has the interface of its source entry": each entry is parsed by
    the parser `get_parser(obj, parse_name)` picks for THAT object (under --parse infer: by looking at the node — a
    ClassDef with a `Base` base is SQLalchemy, another one a plain class). A local cache filled with `f(v, ...)` but
    keyed by a lossy projection of v (`type(v)`, `v.__class__`, `len(v)`, an attribute) hands the first object's result
    to every later object with the same projection: the second class in the mapping is read by the first one's parser.
    Zero such caches exist today; a built-in example keeps the recogniser honest.
    """

    def lossy_of(key, v):
        """key is a projection of variable v that forgets part of it"""
        if isinstance(key, ast.Call) and isinstance(key.func, ast.Name) and key.func.id in ("type", "len", "id", "hash") and len(key.args) == 1:
            return key.func.id != "id" and isinstance(key.args[0], ast.Name) and key.args[0].id == v
        if isinstance(key, ast.Attribute) and isinstance(key.value, ast.Name) and key.value.id == v:
            return True
        return False

    def findings(fn_node):
        caches = {
            t.id
            for n in ast.walk(fn_node)
            if isinstance(n, (ast.Assign, ast.AnnAssign)) and n.value is not None and (isinstance(n.value, ast.Dict) and not n.value.keys or isinstance(n.value, ast.Call) and norm(n.value.func) in ("dict", "OrderedDict") and not n.value.args and not n.value.keywords)
            for t in (n.targets if isinstance(n, ast.Assign) else [n.target])
            if isinstance(t, ast.Name)
        }
        out = []
        for n in ast.walk(fn_node):
            key = val = None
            if isinstance(n, ast.Assign) and len(n.targets) == 1 and isinstance(n.targets[0], ast.Subscript) and isinstance(n.targets[0].value, ast.Name) and n.targets[0].value.id in caches:
                key, val = n.targets[0].slice, n.value
            elif isinstance(n, ast.Call) and isinstance(n.func, ast.Attribute) and n.func.attr == "setdefault" and isinstance(n.func.value, ast.Name) and n.func.value.id in caches and len(n.args) == 2:
                key, val = n.args
            if key is None or not isinstance(val, ast.Call):
                continue
            if isinstance(key, ast.Name):
                # `kind = type(obj)` ... `cache[kind] = f(obj)`: the key through its one local definition
                kd = [m.value for m in ast.walk(fn_node) if isinstance(m, ast.Assign) and len(m.targets) == 1 and isinstance(m.targets[0], ast.Name) and m.targets[0].id == key.id]
                if len(kd) == 1:
                    key = kd[0]
            for a in list(val.args) + [k.value for k in val.keywords]:
                if isinstance(a, ast.Name) and lossy_of(key, a.id):
                    out.append((n, key, val, a.id))
        return out

    probe = ast.parse("def f(xs):\n    c = {}\n    return [(c.get(type(x)) or c.setdefault(type(x), pick(x, 1)))(x) for x in xs]\n").body[0]
    ctx.need(len(findings(probe)) == 1, "the cache-key recogniser disagrees with its own example")
    reach = graph.reachable([gen.qual])
    n_f = 0
    for q in sorted(reach):
        f = index.funcs.get(q)
        if f is None or f.mod.is_test:
            continue
        n_f += 1
        for n, key, val, v in findings(f.node):
            ctx.ob(
                "C19.cachekey",
                f,
                n,
                False,
                "`{}` is cached under `{}`, which forgets everything about `{}` but that projection, although the cached value is "
                "computed from `{}` itself: every later object with the same `{}` gets the first one's result — under --parse infer "
                "the second class of a mapping is read by the parser chosen for the first".format(short(val, 50), short(key, 30), v, v, short(key, 30)),
            )
    ctx.count("functions_scanned_for_lossy_cache_keys", n_f)


def _imports(ctx, index):
    """
    C19.imports — with --emit-and-infer-imports gen_module concatenates the imports inferred per generated symbol.
    (a) `infer_imports` answers None for a symbol that needs no import (its own `return X if X else None`): wherever
        gen_module iterates over / splats its results they must pass a None filter first, otherwise one import-free
        symbol in the mapping makes gen raise TypeError and write nothing;
    (b) the rendered import statements are joined into source text: the separator must end a statement (contain a
        newline or `;`), otherwise two statements from different modules land on one line and the module is not
        parseable.
    """
    from ..core import RefGraph
    from ..defuse import expand_aliases
    from ..region import Region

    gm = index.func("cdd.compound.gen_utils.gen_module")
    inf = index.func("cdd.shared.ast_utils.infer_imports")
    reg = Region(index, RefGraph(index), gm, allow_passed=True)

    def none_alternative(e):
        if e is None or (isinstance(e, ast.Constant) and e.value is None):
            return True
        if isinstance(e, ast.IfExp):
            return none_alternative(e.body) or none_alternative(e.orelse)
        if isinstance(e, ast.BoolOp):
            return any(none_alternative(v) for v in e.values[-1:]) if isinstance(e.op, ast.Or) else any(none_alternative(v) for v in e.values)
        return False

    noneable = any(isinstance(r, ast.Return) and none_alternative(r.value) for r in iter_own(inf.node))
    n_uses = 0
    for g, n in reg.nodes():
        if not (isinstance(n, (ast.Name, ast.Attribute)) and isinstance(getattr(n, "ctx", None), ast.Load) and index.resolve(g.mod, n, g) == inf.qual):
            continue
        par = g.mod.parents
        p = par.get(n)
        # the expression that yields the per-symbol results: map(infer_imports, X) / infer_imports(x) as a comprehension element
        if isinstance(p, ast.Call) and norm(p.func) == "map" and p.args and p.args[0] is n:
            results = p
        elif isinstance(p, ast.Call) and p.func is n:
            results = p
            q = par.get(p)
            if isinstance(q, (ast.Assign, ast.AnnAssign)) and isinstance(q.targets[0] if isinstance(q, ast.Assign) else q.target, ast.Name):
                # one symbol's result held in a local: every later use must sit under a test that the local is not None / truthy
                lname = (q.targets[0] if isinstance(q, ast.Assign) else q.target).id
                uses = [x for x in iter_own(g.node) if isinstance(x, ast.Name) and x.id == lname and isinstance(x.ctx, ast.Load)]

                def under_test(x):
                    child, up_ = x, par.get(x)
                    while up_ is not None and up_ is not g.node:
                        if isinstance(up_, (ast.If, ast.IfExp)) and child is not up_.test and (child in up_.body if isinstance(up_, ast.If) else child is up_.body):
                            t_ = up_.test
                            if (isinstance(t_, ast.Name) and t_.id == lname) or (
                                isinstance(t_, ast.Compare) and isinstance(t_.left, ast.Name) and t_.left.id == lname and len(t_.ops) == 1 and isinstance(t_.ops[0], ast.IsNot)
                            ):
                                return True
                        child, up_ = up_, par.get(up_)
                    return False

                def is_test(x):
                    up_ = par.get(x)
                    if isinstance(up_, ast.Compare):
                        up_ = par.get(up_)
                    return isinstance(up_, (ast.If, ast.IfExp)) and (up_.test is x or up_.test is par.get(x))

                n_uses += 1
                ok_l = bool(uses) and all(is_test(x) or under_test(x) for x in uses)
                ctx.ob(
                    "C19.imports",
                    g,
                    "results of infer_imports pass a None filter before they are iterated",
                    ok_l or not noneable,
                    ""
                    if ok_l or not noneable
                    else "infer_imports returns None for a symbol that needs no import, and `{}` (its result) is used without a test "
                    "that it is not None: `gen --emit-and-infer-imports` raises TypeError as soon as one generated symbol is "
                    "import-free".format(lname),
                    line=n.lineno,
                )
                continue
            if isinstance(q, (ast.ListComp, ast.GeneratorExp, ast.SetComp)) and q.elt is p:
                if any(gen_.ifs for gen_ in q.generators):
                    results = None  # filtered inside the comprehension: judged below as filtered
                    n_uses += 1
                    ctx.ob("C19.imports", g, "results of infer_imports pass a None filter before they are iterated", True, line=n.lineno)
                    continue
                results = q
        else:
            continue
        n_uses += 1
        filtered, child, up = False, results, par.get(results)
        while up is not None and not isinstance(up, ast.stmt):
            if isinstance(up, ast.Call) and norm(up.func) in ("filter", "filterfalse") and len(up.args) == 2 and up.args[1] is child:
                pred = up.args[0]
                filtered = (isinstance(pred, ast.Constant) and pred.value is None) or norm(pred) == "bool"
                break
            if isinstance(up, ast.BoolOp) and isinstance(up.op, ast.Or) and child is up.values[0]:
                filtered = True
                break
            if isinstance(up, ast.Starred) or (isinstance(up, ast.Call) and norm(up.func).endswith(("chain", "from_iterable", "optimise_imports", "list", "tuple", "sorted"))):
                child, up = up, par.get(up)
                continue
            if isinstance(up, ast.Call) and norm(up.func) == "map" and len(up.args) == 2 and up.args[1] is child:
                break  # mapped on: each element is consumed unfiltered
            break
        ok = filtered or not noneable
        ctx.ob(
            "C19.imports",
            g,
            "results of infer_imports pass a None filter before they are iterated",
            ok,
            ""
            if ok
            else "infer_imports returns None for a symbol that needs no import, and `{}` is iterated / splatted without a "
            "None filter: `gen --emit-and-infer-imports` raises TypeError (and writes nothing) as soon as one generated "
            "symbol is import-free".format(short(results, 70)),
            line=n.lineno,
        )
    ctx.count("infer_imports_result_uses_in_gen_module", n_uses)
    # (b) separator of the joined import statements
    n_join = 0
    for g, n in reg.nodes():
        if not (isinstance(n, ast.Call) and isinstance(n.func, ast.Attribute) and n.func.attr == "join" and isinstance(n.func.value, ast.Constant) and isinstance(n.func.value.value, str) and n.args):
            continue
        full = expand_aliases(g, n.args[0])
        refs = {index.resolve(g.mod, x, g) for x in ast.walk(full) if isinstance(x, (ast.Name, ast.Attribute))}
        if not (refs & {inf.qual, "cdd.shared.ast_utils.optimise_imports"}):
            continue
        n_join += 1
        sep = n.func.value.value
        ok = "\n" in sep or ";" in sep
        ctx.ob(
            "C19.imports",
            g,
            "inferred import statements are joined by a statement separator",
            ok,
            ""
            if ok
            else "the source of the inferred import statements is joined with {!r}: two statements (`from typing import ...` "
            "and one from another module) end up on one line and the generated text does not parse".format(sep),
            line=n.lineno,
        )
    ctx.count("joins_of_inferred_import_statements", n_join)
    ctx.need(n_uses >= 1 and n_join >= 1, "the import-inference step vanished from gen_module (uses={}, joins={})".format(n_uses, n_join))


def _symbol_name_params(index, tf):
    """parameters of emitter tf that determine the name of the top-level node it returns"""
    roots = None
    for n in iter_own(tf.node):
        if not isinstance(n, ast.Call):
            continue
        callee = norm(n.func).rpartition(".")[2]
        name_expr = None
        if callee in SYMBOL_CTORS:
            for k in n.keywords:
                if k.arg == "name":
                    name_expr = k.value
        elif callee == "Assign":
            for k in n.keywords:
                if k.arg == "targets" and isinstance(k.value, ast.List) and k.value.elts:
                    t = k.value.elts[0]
                    if isinstance(t, ast.Call) and norm(t.func).rpartition(".")[2] == "Name" and t.args:
                        name_expr = t.args[0]
        if name_expr is None:
            continue
        # only the node that is returned (directly or via a local) matters: take constructs whose
        # enclosing statement is a Return or an assignment to a name that is returned
        st = index.enclosing_stmt(tf.mod, n)
        returned = isinstance(st, ast.Return)
        if isinstance(st, (ast.Assign, ast.AnnAssign)):
            tnames = {x.id for t in (st.targets if isinstance(st, ast.Assign) else [st.target]) for x in ast.walk(t) if isinstance(x, ast.Name)}
            for r in iter_own(tf.node):
                if isinstance(r, ast.Return) and r.value is not None and tnames & {x.id for x in ast.walk(r.value) if isinstance(x, ast.Name)}:
                    returned = True
        if not returned:
            continue
        # is this constructor nested inside another symbol constructor's body (a method)? skip
        p = tf.mod.parents.get(n)
        nested = False
        while p is not None and p is not st:
            if isinstance(p, ast.Call) and norm(p.func).rpartition(".")[2] in SYMBOL_CTORS:
                nested = True
            p = tf.mod.parents.get(p)
        if nested:
            continue
        r = param_roots(tf, name_expr)
        roots = r if roots is None else (roots | r)
    if roots is None:
        return None
    return {x for x in roots if x != "intermediate_repr"}
