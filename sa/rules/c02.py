"""
C02 — class / pydantic / function / argparse emit -> parse round trip (necessary parts).

C02.align.parse : cdd.function.parse.function pads `defaults` on the LEFT by len(args)-len(defaults)
                  and pairs args/defaults with one index (Python right-aligns defaults).
C02.align.emit  : cdd.function.emit.function builds the argument list and the default list from the
                  same iterable and assigns them together to (args, defaults) or
                  (kwonlyargs, kw_defaults), never one of each.
C02.shape       : constants of the emitted argparse call equal those the recognisers test; node
                  classes param2ast can return are handled by the class parser's body loop.
C02.keywords    : each of the six interface-carrying add_argument keywords the emitter writes is
                  looked up by parse_out_param under the same name.
C02.optional    : the argparse reader's decision to wrap a type in Optional depends only on what the
                  writer encodes (required, the type itself).
C02.falsy       : no truthiness test on a parameter default: 0, False and '' are values.
"""

import ast

from ..core import iter_own, norm, short
from ..defuse import local_defs, param_roots
from ..vocab import constants_compared, keywords_read, keywords_written

CORE_KEYWORDS = ("type", "default", "help", "choices", "action", "required")
# sites where a truthiness test on "default" is sound, one line of reason each
FALSY_OK = {
    "cdd.function.emit.function": "the default of a *return* entry is code text (a non-empty string), "
    "not a parameter value",
}


def run(ctx):
    """entry"""
    index = ctx.index
    ctx.explanation = (
        "Structural recognisers on resolved names and def-use chains: left-padding shape and common "
        "index in function.parse; common source iterable and joint assignment in function.emit; "
        "vocabulary extraction (keywords / names / attributes written by the argparse emitter vs read "
        "by the argparse parser and its recognisers); node classes constructed by param2ast vs "
        "isinstance arms of the class parser; parameter roots of the Optional decision; truthiness "
        "contexts of `default` values across all emitters and parsers."
    )
    ctx.assumptions += [
        "NOT decided: equality of the re-parsed interface for all parameter lists; nothing about types, "
        "descriptions or default values (value level)",
    ]
    for rule in (_align_parse, _align_emit, _shape, _keywords, _optional, _falsy, _order_rule, _escape, _exacttype, _hashable, _typewalk):
        ctx.section(rule, ctx, index)
    # a round trip is quantified over interfaces: the second emission in a process must not see what the first left
    # behind (C10's call-history rules on the emitters and parsers of the four formats)
    from . import c10

    ctx.section(
        c10.state_slice,
        ctx,
        "C02.state",
        [
            "cdd.class_.emit.class_",
            "cdd.class_.parse.class_",
            "cdd.function.emit.function",
            "cdd.function.parse.function",
            "cdd.argparse_function.emit.argparse_function",
            "cdd.argparse_function.parse.argparse_ast",
        ],
    )

    def _sec_inputmut():
        # emit -> parse is quantified over interfaces; the interface description handed to one emitter is the one the
        # next emitter (another format of the same description) is handed: no emitter of the four formats rewrites it
        ents = []
        for q in ("cdd.class_.emit.class_", "cdd.function.emit.function", "cdd.argparse_function.emit.argparse_function"):
            f_ = index.func(q)
            ents.append((f_, f_.params[0]))
        c10.inputmut_rule(ctx, "C02.inputmut", ents, "the next emission from the same object (another format, or the same one again) starts from a different interface")

    ctx.section(_sec_inputmut)


def _hashable(ctx, index, rule="C02.hashable"):
    """
    The class parser keeps container defaults as Python objects (`opts: dict = {}` -> default {}; `[]`, `set()` alike
    — and `= {}` is exactly what the class emitter writes for a dict-typed parameter without default). A membership
    test of a default in a SET or FROZENSET hashes it: `{}` raises TypeError: unhashable type, and the class form of
    such an interface cannot be parsed back at all. Against a tuple (`in none_types`) the test compares and is fine.
    """
    from ..defuse import expand_aliases

    def default_valued(e):
        # the `default` slot of a parameter entry (a bare local called `default` is usually text cut out of a docstring)
        if isinstance(e, ast.Subscript) and isinstance(e.slice, ast.Constant):
            return e.slice.value == "default"
        if isinstance(e, ast.Call) and isinstance(e.func, ast.Attribute) and e.func.attr == "get" and e.args and isinstance(e.args[0], ast.Constant):
            return e.args[0].value == "default"
        return False

    def hashing(e):
        if isinstance(e, (ast.Set, ast.SetComp)):
            return True
        return isinstance(e, ast.Call) and norm(e.func) in ("frozenset", "set")

    # the class parser does produce container defaults: the table of empty displays in cdd.class_.parse
    cp = index.func("cdd.class_.parse.class_")
    from ..core import RefGraph
    from ..region import Region

    containers = any(
        isinstance(n, ast.Dict) and any(isinstance(v, (ast.Dict, ast.List, ast.Set)) or (isinstance(v, ast.Call) and norm(v.func) == "set") or (isinstance(v, ast.IfExp) and isinstance(v.body, ast.Dict)) for v in n.values)
        for _g, n in Region(index, RefGraph(index), cp, allow_passed=True).nodes()
    )
    n_tests = 0
    for f in index.nontest_funcs():
        for n in iter_own(f.node):
            if isinstance(n, ast.Compare) and len(n.ops) == 1 and isinstance(n.ops[0], (ast.In, ast.NotIn)) and default_valued(n.left):
                n_tests += 1
                right = expand_aliases(f, n.comparators[0])
                ok = not (hashing(right) and containers)
                ctx.ob(
                    rule,
                    f,
                    n,
                    ok,
                    ""
                    if ok
                    else "`{}` hashes the default: the class parser keeps `{{}}` / `[]` / `set()` defaults as objects (and `= {{}}` is what "
                    "the class emitter writes for a dict-typed parameter without default), so parsing such a class raises "
                    "TypeError: unhashable type".format(short(n, 70)),
                )
    ctx.count("membership_tests_on_defaults", n_tests)
    ctx.count("class_parser_keeps_container_defaults", int(containers))


def _exacttype(ctx, index, rule="C02.exacttype"):
    """
    A default value is classified by `isinstance(default, (int, float, ...))` throughout the package, and `bool` is an
    `int` for isinstance. An EXACT type test — `type(default) in (float, int)`, `type(default) is int`,
    `type(default) == int` — that lists int but not bool sends True / False down the other arm (the "this is source
    code" arm: `ast.parse(True)` raises, the fallback quotes it as the string '```True```'), so a bool default comes
    back as a str. Zero such tests exist today (the count of isinstance-classified defaults is recorded), so a tiny
    built-in example keeps the recogniser honest.
    """

    def exact_int_test(n):
        if not (isinstance(n, ast.Compare) and len(n.ops) == 1 and isinstance(n.ops[0], (ast.In, ast.NotIn, ast.Is, ast.IsNot, ast.Eq, ast.NotEq))):
            return None
        left, right = n.left, n.comparators[0]
        if not (isinstance(left, ast.Call) and isinstance(left.func, ast.Name) and left.func.id == "type" and len(left.args) == 1):
            left, right = right, left
        if not (isinstance(left, ast.Call) and isinstance(left.func, ast.Name) and left.func.id == "type" and len(left.args) == 1):
            return None
        names = set()
        for x in ast.walk(right):
            if isinstance(x, ast.Name):
                names.add(x.id)
        if "int" in names and "bool" not in names:
            return left.args[0]
        return None

    probe = ast.parse("a = 1 if type(p['default']) in (float, int) else 2\nb = isinstance(p['default'], (float, int))").body
    ctx.need(exact_int_test(probe[0].value.test) is not None and exact_int_test(probe[1].value) is None, "the exact-type recogniser disagrees with its own example")
    n_isinst = n_exact = 0
    for f in index.nontest_funcs():
        for n in iter_own(f.node):
            if isinstance(n, ast.Call) and isinstance(n.func, ast.Name) and n.func.id == "isinstance" and len(n.args) == 2 and "default" in norm(n.args[0]) and "int" in norm(n.args[1]):
                n_isinst += 1
            subj = exact_int_test(n)
            if subj is None or "default" not in norm(subj):
                continue
            n_exact += 1
            ctx.ob(
                rule,
                f,
                n,
                False,
                "`{}` is an exact type test that names int but not bool: type(True) is bool, so a bool default takes the other "
                "arm than every isinstance-based sibling sends it to, and (on the emit side) comes back as the string "
                "'```True```' instead of True".format(short(n, 70)),
            )
    ctx.count("isinstance_classified_defaults", n_isinst)
    ctx.count("exact_type_tests_on_defaults", n_exact)


# ------------------------------------------------------------------- align
def _none_pad_length(e):
    """the length expression k of a list of k Nones: [None] * k, k * [None], list(islice(cycle((None,)), k)), list(repeat(None, k))"""
    if isinstance(e, ast.BinOp) and isinstance(e.op, ast.Mult):
        for lst, k in ((e.left, e.right), (e.right, e.left)):
            if isinstance(lst, (ast.List, ast.Tuple)) and len(lst.elts) == 1 and isinstance(lst.elts[0], ast.Constant) and lst.elts[0].value is None:
                return k
    if isinstance(e, ast.Call) and norm(e.func) in ("list", "tuple") and len(e.args) == 1:
        inner = e.args[0]
        if isinstance(inner, ast.Call) and norm(inner.func).rpartition(".")[2] == "islice" and len(inner.args) == 2 and "None" in norm(inner.args[0]):
            return inner.args[1]
        if isinstance(inner, ast.Call) and norm(inner.func).rpartition(".")[2] == "repeat" and len(inner.args) == 2 and norm(inner.args[0]) == "None":
            return inner.args[1]
    return None


def pads_defaults_on_the_left(index):
    """does function.parse rebuild a defaults attribute as <list of Nones> + <that attribute>? (also used by C13)"""
    from ..defuse import expand_aliases

    f = index.func("cdd.function.parse.function")
    for n in iter_own(f.node):
        if isinstance(n, ast.Call) and norm(n.func) == "setattr" and len(n.args) == 3 and norm(n.args[0]) == "function_def.args":
            val = expand_aliases(f, n.args[2], keep={norm(n.args[1])})
            if isinstance(val, ast.BinOp) and isinstance(val.op, ast.Add) and _none_pad_length(val.left) is not None:
                if " ".join(norm(val.right).split()) == "getattr(function_def.args, {})".format(norm(n.args[1])):
                    return True
    return False


def _align_parse(ctx, index):
    """
    function.parse pads the defaults list on the LEFT with len(args) - len(defaults) Nones and then pairs the
    two lists position by position. Recognised after expanding single-definition locals, so naming the
    sub-expressions, writing the pad as `[None] * k` or pairing with zip() instead of a common index is all
    the same to the rule.
    """
    from ..defuse import expand_aliases

    f = index.func("cdd.function.parse.function")
    # the loop variables ranging over (("args", "defaults"), ("kwonlyargs", "kw_defaults")): whatever they are called
    pairs = set()
    loop_vars = []
    for n in iter_own(f.node):
        if isinstance(n, ast.Tuple) and len(n.elts) == 2 and all(isinstance(e, ast.Constant) for e in n.elts):
            pairs.add((n.elts[0].value, n.elts[1].value))
        if isinstance(n, (ast.For, ast.comprehension)) and isinstance(n.target, ast.Tuple) and len(n.target.elts) == 2 and all(isinstance(e, ast.Name) for e in n.target.elts):
            it = expand_aliases(f, n.iter)
            if isinstance(it, (ast.Tuple, ast.List)) and any(
                isinstance(e, ast.Tuple) and [getattr(x, "value", None) for x in e.elts] == ["args", "defaults"] for e in it.elts
            ):
                loop_vars.append((n.target.elts[0].id, n.target.elts[1].id))
    ctx.need(loop_vars, "function.parse no longer loops over the (args, defaults) / (kwonlyargs, kw_defaults) attribute pairs")
    keep = {v for pr in loop_vars for v in pr}

    def ex(e):
        return " ".join(norm(expand_aliases(f, e, keep=keep)).split())

    def is_list_of(e, var):
        return ex(e) == "getattr(function_def.args, {})".format(var)

    # the statement that rebuilds the defaults list: setattr(args_obj, D, PAD + getattr(args_obj, D))
    sets = [
        n
        for n in iter_own(f.node)
        if isinstance(n, ast.Call) and norm(n.func) == "setattr" and len(n.args) == 3 and norm(n.args[0]) == "function_def.args"
    ]
    ctx.need(len(sets) == 1, "the defaults-padding statement vanished from function.parse ({} candidates)".format(len(sets)))
    s_ = sets[0]
    dvar = norm(s_.args[1])
    avars = [a for a, d in loop_vars if d == dvar]
    ctx.need(avars, "the padded attribute `{}` is not the defaults variable of the pair loop".format(dvar))
    avar = avars[0]
    val = expand_aliases(f, s_.args[2], keep=keep)
    ctx.need(isinstance(val, ast.BinOp) and isinstance(val.op, ast.Add), "the padded defaults are no longer PAD + defaults: {}".format(short(val, 70)))
    k_left, k_right = _none_pad_length(val.left), _none_pad_length(val.right)
    ok = k_left is not None and is_list_of(val.right, dvar)
    ctx.ob(
        "C02.align.parse",
        f,
        "defaults are padded with Nones on the left",
        ok,
        ""
        if ok
        else "the None-padding must be on the LEFT of the existing defaults (Python right-aligns defaults with "
        "args): `def f(a, b=1)` would otherwise pair b's default with a"
        + (" (the padding is on the right)" if k_right is not None and is_list_of(val.left, dvar) else ""),
        line=s_.lineno,
    )
    # pad length = |len(args) - len(defaults)| of the same arguments object
    k = k_left if k_left is not None else k_right
    ctx.need(k is not None, "cannot find the pad length in {}".format(short(val, 70)))
    kt = ex(k)
    la, ld = "len(getattr(function_def.args, {}))".format(avar), "len(getattr(function_def.args, {}))".format(dvar)
    ok = kt in ("abs({} - {})".format(la, ld), "abs({} - {})".format(ld, la), "{} - {}".format(la, ld))
    ctx.ob(
        "C02.align.parse",
        f,
        "pad length = |len(args) - len(defaults)|",
        ok,
        "" if ok else "the pad length must be len(args) - len(defaults) of the same arguments object, it is `{}`".format(kt),
        line=s_.lineno,
    )
    # pairing: one position for both lists — a common index, or zip(args list, defaults list)
    calls = [n for n in iter_own(f.node) if isinstance(n, ast.Call) and norm(n.func).endswith("func_arg2param")]
    ctx.need(calls, "func_arg2param call vanished from function.parse")
    for c in calls:
        ba = index.bound_args(f.mod, c, f)
        a0 = ba.get("func_arg", c.args[0] if c.args else None)
        dk = [ba["default"]] if "default" in ba else []
        ok = False
        if a0 is not None and dk:
            d0 = dk[0]
            ea, ed = expand_aliases(f, a0, keep=keep), expand_aliases(f, d0, keep=keep)
            if isinstance(ea, ast.Subscript) and isinstance(ed, ast.Subscript):
                pa = [a for a, d in loop_vars if " ".join(norm(ed.value).split()) == "getattr(function_def.args, {})".format(d)]
                ok = norm(ea.slice) == norm(ed.slice) and any(" ".join(norm(ea.value).split()) == "getattr(function_def.args, {})".format(a) for a in pa)
            elif isinstance(a0, ast.Name) and isinstance(d0, ast.Name):
                # both are targets of one `for x, y in zip(<args list>, <defaults list>)`
                for n in iter_own(f.node):
                    if isinstance(n, (ast.For, ast.comprehension)) and isinstance(n.target, ast.Tuple) and [norm(e) for e in n.target.elts] == [a0.id, d0.id]:
                        z = n.iter
                        if isinstance(z, ast.Call) and norm(z.func) == "zip" and len(z.args) == 2:
                            ok = any(is_list_of(z.args[0], a) and is_list_of(z.args[1], d) for a, d in loop_vars)
        ctx.ob(
            "C02.align.parse",
            f,
            "argument and default are taken at the same position",
            bool(ok),
            "" if ok else "argument and default are not taken at the same position of the two parallel lists: {}".format(short(c, 90)),
            line=c.lineno,
        )
    # both (args, defaults) and (kwonlyargs, kw_defaults) go through the same code
    ok = ("args", "defaults") in pairs and ("kwonlyargs", "kw_defaults") in pairs
    ctx.ob("C02.align.parse", f, "both (args, defaults) and (kwonlyargs, kw_defaults) are paired", ok, "" if ok else "pairs found: {}".format(sorted(pairs)), line=f.node.lineno)


def emit_lists(ctx, index):
    """
    (function, name of the argument list, name of the default list, {field: local name}) of function.emit,
    found from the `arguments(...)` constructor backwards — independent of what the locals are called.
    """
    f = index.func("cdd.function.emit.function")
    ctor = [n for n in iter_own(f.node) if isinstance(n, ast.Call) and norm(n.func) == "arguments"]
    ctx.need(len(ctor) == 1, "arguments(...) constructor vanished")
    fields = {}
    for k in ctor[0].keywords:
        if k.arg in ("args", "defaults", "kwonlyargs", "kw_defaults"):
            ctx.need(isinstance(k.value, ast.Name), "arguments({}=...) is no longer a plain local".format(k.arg))
            fields[k.arg] = k.value.id
    ctx.need(len(fields) == 4, "arguments(...) no longer receives args/defaults/kwonlyargs/kw_defaults")
    want = {fields["kwonlyargs"], fields["kw_defaults"], fields["defaults"]}
    joint = []
    for n in iter_own(f.node):
        if isinstance(n, ast.Assign) and isinstance(n.targets[0], ast.Tuple) and isinstance(n.value, ast.Tuple):
            names = [norm(t) for t in n.targets[0].elts]
            if set(names) == want and len(names) == 3:
                joint.append((n, dict(zip(names, n.value.elts))))
    ctx.need(len(joint) == 2, "the joint assignment of kwonlyargs / kw_defaults / defaults vanished ({} found)".format(len(joint)))
    xs, ys = set(), set()
    for _n, val in joint:
        a, b, c = val[fields["kwonlyargs"]], val[fields["kw_defaults"]], val[fields["defaults"]]
        if isinstance(a, ast.Name):
            xs.add(a.id)
        if isinstance(b, ast.Name):
            ys.add(b.id)
        if isinstance(c, ast.Name):
            ys.add(c.id)
    for n in iter_own(f.node):
        if isinstance(n, ast.AugAssign) and isinstance(n.op, ast.Add) and norm(n.target) == fields["args"] and isinstance(n.value, ast.Name):
            xs.add(n.value.id)
    ctx.need(len(xs) == 1 and len(ys) == 1, "cannot tell the argument list from the default list: {} / {}".format(sorted(xs), sorted(ys)))
    return f, xs.pop(), ys.pop(), fields, joint, ctor[0]


def elementwise(e):
    """
    (iterable node, binder, element expression, has_filter) when `e` builds a sequence with one element per
    element of an iterable: list(map(lambda p: E, IT)) / [E for T in IT] / list(E for T in IT) / tuple(...).
    binder is the lambda's parameter name (str) or the comprehension target node.
    """
    if isinstance(e, ast.Call) and norm(e.func) in ("list", "tuple") and len(e.args) == 1:
        return elementwise(e.args[0])
    if isinstance(e, ast.Call) and norm(e.func) == "map" and len(e.args) == 2 and isinstance(e.args[0], ast.Lambda) and len(e.args[0].args.args) == 1:
        return e.args[1], e.args[0].args.args[0].arg, e.args[0].body, False
    if isinstance(e, ast.Call) and norm(e.func) == "map" and len(e.args) == 2 and not isinstance(e.args[0], ast.Lambda):
        # map(F, IT) with a named function: one element per element; when IT is itself element-wise (map over X), the
        # source iterable is the innermost one
        inner = elementwise(e.args[1])
        if inner is not None:
            return inner[0], None, e, inner[3]
        return e.args[1], None, e, False
    if isinstance(e, ast.Call) and norm(e.func) in ("filter", "filterfalse") and len(e.args) == 2:
        inner = elementwise(e.args[1])
        return (inner[0] if inner is not None else e.args[1]), None, e, True
    if isinstance(e, (ast.ListComp, ast.GeneratorExp)) and len(e.generators) == 1:
        g = e.generators[0]
        return g.iter, g.target, e.elt, bool(g.ifs)
    return None


def elementwise_loop(f, name):
    """
    the loop spelling of `elementwise`: `name = []` followed by ONE `for T in IT:` loop of f whose body appends to
    `name` exactly once — (IT, T, appended expression with the loop body's explaining variables read through,
    has_filter) — has_filter when the append sits under a condition or the loop can `continue` / `break`.
    None when `name` is not built that way.
    """
    import copy

    empties = [
        n
        for n in iter_own(f.node)
        if isinstance(n, (ast.Assign, ast.AnnAssign))
        and n.value is not None
        and any(norm(t) == name for t in (n.targets if isinstance(n, ast.Assign) else [n.target]))
        and (isinstance(n.value, ast.List) and not n.value.elts or isinstance(n.value, ast.Call) and norm(n.value.func) == "list" and not n.value.args)
    ]
    if len(empties) != 1:
        return None
    appends = [
        n
        for n in iter_own(f.node)
        if isinstance(n, ast.Call) and isinstance(n.func, ast.Attribute) and n.func.attr in ("append",) and norm(n.func.value) == name and len(n.args) == 1
    ]
    others = [
        n
        for n in iter_own(f.node)
        if isinstance(n, ast.Call) and isinstance(n.func, ast.Attribute) and n.func.attr in ("extend", "insert", "pop", "remove", "clear") and norm(n.func.value) == name
    ]
    if len(appends) != 1 or others:
        return None
    app = appends[0]
    par = f.mod.parents
    loop, child, conditional = par.get(app), app, False
    while loop is not None and not isinstance(loop, (ast.For, ast.AsyncFor)):
        if isinstance(loop, (ast.If, ast.IfExp, ast.Try, ast.While, ast.With)):
            conditional = conditional or isinstance(loop, (ast.If, ast.IfExp, ast.Try, ast.While))
        if isinstance(loop, (ast.FunctionDef, ast.AsyncFunctionDef, ast.Lambda)):
            return None
        child, loop = loop, par.get(loop)
    if loop is None or child not in loop.body:
        return None
    outer = par.get(loop)
    while outer is not None and outer is not f.node:
        if isinstance(outer, (ast.For, ast.AsyncFor, ast.While)):
            return None  # nested loops: not one element per element
        outer = par.get(outer)
    jumps = any(isinstance(x, (ast.Continue, ast.Break, ast.Return)) for st in loop.body for x in ast.walk(st))
    # explaining variables of the loop body: single plain definitions inside this loop, substituted into the element
    local = {}
    counts = {}
    for st in loop.body:
        for x in ast.walk(st):
            if isinstance(x, ast.Assign) and len(x.targets) == 1 and isinstance(x.targets[0], ast.Name):
                counts[x.targets[0].id] = counts.get(x.targets[0].id, 0) + 1
                local[x.targets[0].id] = (x, x.value)
            elif isinstance(x, (ast.AugAssign, ast.NamedExpr)):
                for nm in stored_names_of(x.target):
                    counts[nm] = counts.get(nm, 0) + 2
    # a variable assigned in both arms of one if/else reads as the conditional expression of the two values
    for st in loop.body:
        if isinstance(st, ast.If) and len(st.body) == 1 and len(st.orelse) == 1:
            a_, b_ = st.body[0], st.orelse[0]
            if isinstance(a_, ast.Assign) and isinstance(b_, ast.Assign) and len(a_.targets) == 1 and len(b_.targets) == 1 and isinstance(a_.targets[0], ast.Name) and norm(a_.targets[0]) == norm(b_.targets[0]) and counts.get(a_.targets[0].id) == 2:
                local[a_.targets[0].id] = (st, ast.copy_location(ast.IfExp(test=st.test, body=a_.value, orelse=b_.value), st))
                counts[a_.targets[0].id] = 1
    single = {k: v[1] for k, v in local.items() if counts.get(k) == 1}

    class Sub(ast.NodeTransformer):
        def __init__(self, d):
            self.d = d

        def visit_Name(self, x):
            if isinstance(x.ctx, ast.Load) and x.id in single and self.d > 0:
                return Sub(self.d - 1).visit(copy.deepcopy(single[x.id]))
            return x

    elt = Sub(4).visit(copy.deepcopy(app.args[0]))
    ast.fix_missing_locations(elt)
    return loop.iter, loop.target, elt, bool(conditional or jumps)


def stored_names_of(t):
    return [x.id for x in ast.walk(t) if isinstance(x, ast.Name)]


def elementwise_local(f, name, defs=None):
    """every element-wise construction of local `name` of f, in either spelling"""
    defs = defs if defs is not None else local_defs(f)
    out = []
    for d in defs.get(name, []):
        ew = elementwise(d) if isinstance(d, ast.AST) else None
        if ew is not None:
            out.append(ew)
    lp = elementwise_loop(f, name)
    if lp is not None:
        out.append(lp)
    return out


def _align_emit(ctx, index):
    f, xname, yname, fields, joint, ctor = emit_lists(ctx, index)
    defs = local_defs(f)

    def source_iterable(name):
        return {norm(ew[0]) + (" [filtered]" if ew[3] else "") for ew in elementwise_local(f, name, defs)}

    a, d = source_iterable(xname), source_iterable(yname)
    ctx.need(a and d, "the argument list / default list of function.emit are no longer built element-wise from an iterable")
    ok = a == d and len(a) == 1
    ctx.ob(
        "C02.align.emit",
        f,
        "argument list and default list map over one iterable",
        ok,
        "" if ok else "the argument list and the default list are built from different iterables ({} / {}): they can differ in length/order".format(sorted(a), sorted(d)),
        line=f.node.lineno,
    )
    # joint assignment: (kwonlyargs, kw_defaults, defaults) = (X, Y, []) or ([], [], Y) with args += X
    for n, val in joint:
        kwo, kwd, dfl = norm(val[fields["kwonlyargs"]]), norm(val[fields["kw_defaults"]]), norm(val[fields["defaults"]])
        kw = kwo == xname
        ok = (kw and kwd == yname and dfl == "[]") or (not kw and kwo == "[]" and kwd == "[]" and dfl == yname)
        ctx.ob(
            "C02.align.emit",
            f,
            "kwonlyargs, kw_defaults, defaults = {}, {}, {}".format(
                *("<args>" if t == xname else "<defaults>" if t == yname else t for t in (kwo, kwd, dfl))
            ),
            ok,
            "" if ok else "arguments and defaults are routed to different sides (args vs kw_defaults / kwonlyargs vs defaults)",
            line=n.lineno,
        )
    # each field of arguments(...) receives the local that plays that role (guaranteed by the way the roles were found);
    # a field fed from anything else was rejected above. Record the pairing.
    for k in ("args", "defaults", "kwonlyargs", "kw_defaults"):
        ctx.ob("C02.align.emit", f, "arguments({}=<its own list>)".format(k), True, line=ctor.lineno)


# ------------------------------------------------------------------- shape
def _shape(ctx, index):
    emit = index.func("cdd.shared.ast_utils.param2argparse_param")
    rec = index.func("cdd.shared.ast_utils.is_argparse_add_argument")
    rec_d = index.func("cdd.shared.ast_utils.is_argparse_description")
    pop = index.func("cdd.argparse_function.utils.emit_utils.parse_out_param")
    emit_fn = index.func("cdd.argparse_function.emit.argparse_function")
    from ..core import RefGraph
    from ..region import Region

    graph_ = RefGraph(index)

    def written_by(fn):
        """constants the emitter writes as Name ids / attribute names — in its own body or in a private helper it calls"""
        out = set()
        for _g, n in Region(index, graph_, fn, allow_passed=True).nodes():
            if isinstance(n, ast.Call) and norm(n.func).rpartition(".")[2] == "Name" and n.args and isinstance(n.args[0], ast.Constant):
                out.add(("name", n.args[0].value))
            if isinstance(n, ast.Call) and norm(n.func).rpartition(".")[2] == "Attribute" and len(n.args) >= 2 and isinstance(n.args[1], ast.Constant):
                out.add(("attr", n.args[1].value))
        return out

    for fn, what, writer in ((rec, "is_argparse_add_argument", emit), (rec_d, "is_argparse_description", emit_fn)):
        written = written_by(writer)
        for kind, const in sorted(constants_compared(fn)):
            k = {"id": "name", "attr": "attr"}.get(kind)
            if k is None:
                continue
            ok = (k, const) in written
            ctx.ob(
                "C02.shape",
                fn,
                "{} tests .{} == {!r}".format(what, kind, const),
                ok,
                "" if ok else "the argparse emitter never writes a {} {!r}: emitted code is not recognised when parsed back".format(k, const),
                line=fn.node.lineno,
            )
    # option prefix
    prefix_w = [n for n in iter_own(emit.node) if isinstance(n, ast.Constant) and isinstance(n.value, str) and n.value.startswith("--{")]
    prefix_r = [n for n in iter_own(pop.node) if isinstance(n, ast.Call) and norm(n.func) == "len" and n.args and isinstance(n.args[0], ast.Constant)]
    ctx.need(prefix_w and prefix_r, "option-prefix constants vanished")
    w = prefix_w[0].value.split("{")[0]
    r = prefix_r[0].args[0].value
    ctx.ob("C02.shape", pop, "option prefix written {!r} / stripped {!r}".format(w, r), w == r, "" if w == r else "the emitter prefixes option names with {!r} but the parser strips len({!r})".format(w, r), line=prefix_r[0].lineno)
    # node classes of param2ast vs the class parser's isinstance arms
    p2a = [index.func("cdd.shared.ast_utils.param2ast"), index.func("cdd.shared.ast_utils._generic_param2ast")]
    built = set()
    for fn in p2a:
        for n in iter_own(fn.node):
            if isinstance(n, ast.Return) and n.value is not None:
                for c in ast.walk(n.value):
                    if isinstance(c, ast.Call) and norm(c.func) in ("AnnAssign", "Assign", "ast.AnnAssign", "ast.Assign"):
                        built.add(norm(c.func).rpartition(".")[2])
    ctx.need(built, "param2ast no longer constructs assignment nodes")
    cls = index.func("cdd.class_.parse.class_")
    arms = set()
    loop_vars = {x.id for n in iter_own(cls.node) if isinstance(n, ast.For) for x in ast.walk(n.target) if isinstance(x, ast.Name)}
    for n in iter_own(cls.node):
        if isinstance(n, ast.If):
            t = n.test
            if isinstance(t, ast.Call) and norm(t.func) == "isinstance" and isinstance(t.args[0], ast.Name) and t.args[0].id in loop_vars:
                arms.update(x.id for x in ast.walk(t.args[1]) if isinstance(x, ast.Name))
    for b in sorted(built):
        ok = b in arms
        ctx.ob("C02.shape", cls, "class parser handles {} nodes".format(b), ok, "" if ok else "param2ast emits {} but the class parser's body loop has no isinstance arm for it".format(b), line=cls.node.lineno)


def keyword_roles(index, f):
    """
    {local of f: keyword names its definition looks up} — `next(... if kw.arg == "K")` in place, a lookup helper called
    with the constant "K", or `D["K"]` / `D.get("K")` on a dict keyed by the keyword names
    """
    from ..core import RefGraph
    from ..region import Region

    reg = Region(index, RefGraph(index), f, allow_passed=True)
    role = {}
    for nm, ds in local_defs(f).items():
        for d in ds:
            if not isinstance(d, ast.AST):
                continue
            for c in ast.walk(d):
                if isinstance(c, ast.Compare) and len(c.ops) == 1 and isinstance(c.ops[0], ast.Eq) and norm(c.left).endswith(".arg") and isinstance(c.comparators[0], ast.Constant):
                    role.setdefault(nm, set()).add(c.comparators[0].value)
            # helper / dict spellings: the constants this one definition reads
            got = set()
            for c in ast.walk(d):
                if isinstance(c, ast.Call):
                    h = index.funcs.get(index.callee(f.mod, c, f) or "")
                    if h is not None and h in reg.funcs:
                        for n in iter_own(h.node):
                            if isinstance(n, ast.Compare) and len(n.ops) == 1 and isinstance(n.ops[0], ast.Eq) and any(isinstance(x, ast.Attribute) and x.attr == "arg" for x in (n.left, n.comparators[0])):
                                for x in (n.left, n.comparators[0]):
                                    if isinstance(x, ast.Name) and x.id in h.params:
                                        a = index.bound_args(f.mod, c, f).get(x.id)
                                        if isinstance(a, ast.Constant) and isinstance(a.value, str):
                                            got.add(a.value)
                    if isinstance(c.func, ast.Attribute) and c.func.attr in ("get", "pop") and isinstance(c.func.value, ast.Name) and c.args and isinstance(c.args[0], ast.Constant) and c.func.value.id in _keyword_dicts(f):
                        got.add(c.args[0].value)
                elif isinstance(c, ast.Subscript) and isinstance(c.value, ast.Name) and isinstance(c.slice, ast.Constant) and c.value.id in _keyword_dicts(f):
                    got.add(c.slice.value)
            if got:
                role.setdefault(nm, set()).update(x for x in got if isinstance(x, str))
    return role


def _keyword_dicts(f):
    """locals of f bound to a dict keyed by keyword names"""
    out = set()
    for n in iter_own(f.node):
        if isinstance(n, (ast.Assign, ast.AnnAssign)) and n.value is not None:
            t = n.targets[0] if isinstance(n, ast.Assign) else n.target
            v = n.value
            keyed = False
            if isinstance(v, ast.DictComp):
                keyed = isinstance(v.key, ast.Attribute) and v.key.attr == "arg"
            elif isinstance(v, ast.Call) and norm(v.func) in ("dict", "OrderedDict") and v.args:
                for x in ast.walk(v.args[0]):
                    if isinstance(x, ast.Tuple) and x.elts and isinstance(x.elts[0], ast.Attribute) and x.elts[0].attr == "arg":
                        keyed = True
            if keyed and isinstance(t, ast.Name):
                out.add(t.id)
    return out


def keywords_read_region(index, reg):
    """
    keyword names a reader looks up, in every spelling: `<kw>.arg == "K"` in place; a lookup helper
    `h(call, "K")` whose body compares `<kw>.arg == <its parameter>`; a dict built from the keywords
    (`{kw.arg: kw.value for kw in call.keywords}` / `dict((kw.arg, ...) for ...)`) and read with `D["K"]`,
    `D.get("K")`, `D.pop("K")`, `"K" in D`.
    """
    out = set()
    for h in reg.funcs:
        out |= keywords_read(h)
        # (a) lookup helper: the compared side is a parameter -> the constants its call sites pass
        for n in iter_own(h.node):
            if isinstance(n, ast.Compare) and len(n.ops) == 1 and isinstance(n.ops[0], ast.Eq):
                sides = [n.left, n.comparators[0]]
                if any(isinstance(x, ast.Attribute) and x.attr == "arg" for x in sides):
                    for x in sides:
                        if isinstance(x, ast.Name) and x.id in h.params:
                            for g in reg.funcs:
                                for c in iter_own(g.node):
                                    if isinstance(c, ast.Call) and index.callee(g.mod, c, g) == h.qual:
                                        a = index.bound_args(g.mod, c, g).get(x.id)
                                        if isinstance(a, ast.Constant) and isinstance(a.value, str):
                                            out.add(a.value)
        # (b) a dict keyed by the keyword names
        dicts = set()
        for n in iter_own(h.node):
            if isinstance(n, (ast.Assign, ast.AnnAssign)) and n.value is not None:
                t = n.targets[0] if isinstance(n, ast.Assign) else n.target
                v = n.value
                keyed = False
                if isinstance(v, ast.DictComp):
                    keyed = isinstance(v.key, ast.Attribute) and v.key.attr == "arg"
                elif isinstance(v, ast.Call) and norm(v.func) in ("dict", "OrderedDict") and v.args:
                    for x in ast.walk(v.args[0]):
                        if isinstance(x, ast.Tuple) and x.elts and isinstance(x.elts[0], ast.Attribute) and x.elts[0].attr == "arg":
                            keyed = True
                if keyed and isinstance(t, ast.Name):
                    dicts.add(t.id)
        for n in iter_own(h.node):
            k = None
            if isinstance(n, ast.Subscript) and isinstance(n.value, ast.Name) and n.value.id in dicts:
                k = n.slice
            elif isinstance(n, ast.Call) and isinstance(n.func, ast.Attribute) and n.func.attr in ("get", "pop", "__getitem__") and isinstance(n.func.value, ast.Name) and n.func.value.id in dicts and n.args:
                k = n.args[0]
            elif isinstance(n, ast.Compare) and len(n.ops) == 1 and isinstance(n.ops[0], (ast.In, ast.NotIn)) and isinstance(n.comparators[0], ast.Name) and n.comparators[0].id in dicts:
                k = n.left
            if isinstance(k, ast.Constant) and isinstance(k.value, str):
                out.add(k.value)
    return out


def _keywords(ctx, index):
    emit = index.func("cdd.shared.ast_utils.param2argparse_param")
    pop = index.func("cdd.argparse_function.utils.emit_utils.parse_out_param")
    from ..core import RefGraph
    from ..region import Region

    g_ = RefGraph(index)
    # the emitter / the reader and the private helpers only they use
    w = set().union(*(keywords_written(h) for h in Region(index, g_, emit, allow_passed=True).funcs))
    r = keywords_read_region(index, Region(index, g_, pop, allow_passed=True))
    ctx.count("argparse_keywords_written", len(w))
    ctx.count("argparse_keywords_read", len(r))
    for k in CORE_KEYWORDS:
        if k not in w:
            ctx.ob("C02.keywords", emit, "keyword {}".format(k), False, "the argparse emitter no longer writes `{}=`".format(k), line=emit.node.lineno)
            continue
        ok = k in r
        ctx.ob("C02.keywords", pop, "keyword {} written and read".format(k), ok, "" if ok else "the emitter writes `{}=` but parse_out_param never looks it up".format(k), line=pop.node.lineno)


def _optional(ctx, index):
    pop = index.func("cdd.argparse_function.utils.emit_utils.parse_out_param")
    n_sites = 0
    for n in iter_own(pop.node):
        if isinstance(n, ast.If):
            wraps = [
                a
                for a in n.body
                if isinstance(a, (ast.Assign, ast.AnnAssign))
                and a.value is not None
                and "Optional[{" in norm(a.value)
            ]
            if not wraps:
                continue
            n_sites += 1
            roots = {x.id for x in ast.walk(n.test) if isinstance(x, ast.Name)}
            # the locals that hold the `required=` and `type=` keywords of the add_argument call, whatever they are called
            role = keyword_roles(index, pop)
            req = {nm for nm, r in role.items() if "required" in r}
            typ = {nm for nm, r in role.items() if "type" in r}
            ctx.need(req and typ, "cannot find the locals of parse_out_param that hold the required= / type= keywords")
            extra = sorted(roots - req - typ)
            ok = bool(roots & req) and not extra
            ctx.ob(
                "C02.optional",
                pop,
                "if " + short(n.test, 80),
                ok,
                ""
                if ok
                else "the reader wraps the type in Optional depending on {}: the writer encodes Optional only as the "
                "absence of required=True, so e.g. `Optional[int] = 42` comes back as `int`".format(extra or sorted(roots)),
                line=n.lineno,
            )
    ctx.need(n_sites >= 1, "the Optional-wrapping decision vanished from parse_out_param")


def _holds_default(f, name, defs):
    """is local `name` (a) called exactly `default`, or (b) bound directly from a default slot?"""
    if name == "default":
        return True
    for d in defs.get(name, []):
        if _is_default_expr(d):
            return True
    return False


def _order_rule(ctx, index):
    """
    Members of a Literal travel through `choices=(...)`: the emitter must write them in the order they
    have in the type and the parser rebuild them in the order written — sorting / de-duplicating on one
    side only changes the type string that comes back.
    """
    emit = index.func("cdd.shared.ast_utils.param2argparse_param")
    rd = index.func("cdd.argparse_function.utils.emit_utils._handle_keyword")
    reorder = ("sorted", "set", "frozenset", "reversed", "dict.fromkeys", "OrderedDict.fromkeys")
    n = 0
    from ..core import RefGraph
    from ..region import Region

    for _h, node in Region(index, RefGraph(index), emit, allow_passed=True).nodes():
        if isinstance(node, ast.Call) and norm(node.func).endswith("keyword") and any(k.arg == "arg" and isinstance(k.value, ast.Constant) and k.value.value == "choices" for k in node.keywords):
            n += 1
            val = [k.value for k in node.keywords if k.arg == "value"][0]
            bad = [c for c in ast.walk(val) if isinstance(c, ast.Call) and norm(c.func) in reorder]
            ctx.ob(
                "C02.shape",
                emit,
                "choices are emitted in the order of the Literal's members",
                not bad,
                ""
                if not bad
                else "the emitter passes the members through `{}` while the parser rebuilds Literal[...] in the order "
                "written: `Literal['small', 'medium', 'large']` comes back reordered".format(norm(bad[0].func)),
                line=node.lineno,
            )
    ctx.need(n >= 1, "the choices keyword vanished from param2argparse_param")
    bad = [c for c in iter_own(rd.node) if isinstance(c, ast.Call) and norm(c.func) in reorder]
    ctx.ob("C02.shape", rd, "choices are read back in the order written", not bad, "" if not bad else "the parser reorders the members with `{}`".format(norm(bad[0].func)), line=rd.node.lineno)


def _is_default_expr(e):
    if (
        isinstance(e, ast.Call)
        and isinstance(e.func, ast.Attribute)
        and e.func.attr == "get"
        and len(e.args) == 1
        and isinstance(e.args[0], ast.Constant)
        and e.args[0].value == "default"
    ):
        return True
    return isinstance(e, ast.Subscript) and isinstance(e.slice, ast.Constant) and e.slice.value == "default"


def _falsy(ctx, index):
    n = 0
    for f in index.nontest_funcs():
        par = f.mod.parents
        defs = local_defs(f)
        for node in iter_own(f.node):
            is_slot = isinstance(node, ast.expr) and _is_default_expr(node)
            is_local = (
                isinstance(node, ast.Name)
                and isinstance(node.ctx, ast.Load)
                and node.id in f.locals | set(f.params)
                and _holds_default(f, node.id, defs)
            )
            if not (is_slot or is_local):
                continue
            n += 1
            p = par.get(node)
            truth = (
                (isinstance(p, (ast.If, ast.While, ast.IfExp)) and p.test is node)
                or isinstance(p, ast.BoolOp)
                or (isinstance(p, ast.UnaryOp) and isinstance(p.op, ast.Not))
                or (isinstance(p, ast.Call) and norm(p.func) == "bool")
            )
            if not truth:
                ctx.ob("C02.falsy", f, short(p if isinstance(p, ast.expr) else node, 90), True, line=node.lineno)
                continue
            reason = FALSY_OK.get(f.qual)
            if reason is not None:
                ctx.ob("C02.falsy", f, short(p, 90), True, "exempt: " + reason, line=node.lineno)
                continue
            ctx.ob(
                "C02.falsy",
                f,
                short(p, 90),
                False,
                "a parameter default is tested by truthiness: the defaults 0, 0.0, False and '' are treated as "
                "absent (dropped or replaced), so they do not survive emit -> parse",
                line=node.lineno,
            )
    ctx.count("default_value_uses", n)
    ctx.floor("uses of a `default` value in emitters/parsers", n, 40)
    # the same test in functional clothing: filter(None, <values of keywords named K>) drops a falsy value.
    # K == "default" directly, or K is a parameter that some call site binds to "default".
    n_f = 0
    for f in index.nontest_funcs():
        for node in iter_own(f.node):
            if not (isinstance(node, ast.Call) and norm(node.func) == "filter" and len(node.args) == 2):
                continue
            pred = node.args[0]
            if not ((isinstance(pred, ast.Constant) and pred.value is None) or norm(pred) == "bool"):
                continue
            gen = node.args[1]
            if not isinstance(gen, (ast.GeneratorExp, ast.ListComp)):
                continue
            keys = []
            for g in gen.generators:
                for c in g.ifs:
                    for cmp_ in ast.walk(c):
                        if isinstance(cmp_, ast.Compare) and len(cmp_.ops) == 1 and isinstance(cmp_.ops[0], ast.Eq) and norm(cmp_.left).endswith(".arg"):
                            keys.append(cmp_.comparators[0])
            if not keys or ".value" not in norm(gen.elt):
                continue
            n_f += 1
            hits = []
            for k in keys:
                if isinstance(k, ast.Constant) and k.value == "default":
                    hits.append((f, node))
                elif isinstance(k, ast.Name) and k.id in f.params:
                    pos = f.params.index(k.id)
                    for g2 in index.nontest_funcs():
                        for c in iter_own(g2.node):
                            if isinstance(c, ast.Call) and index.callee(g2.mod, c, g2) == f.qual:
                                a = c.args[pos] if pos < len(c.args) else next((kw.value for kw in c.keywords if kw.arg == k.id), None)
                                if isinstance(a, ast.Constant) and a.value == "default":
                                    hits.append((g2, c))
            if not hits:
                ctx.ob("C02.falsy", f, short(node, 90), True, line=node.lineno)
            for g2, site in hits:
                ctx.ob(
                    "C02.falsy",
                    g2,
                    short(site, 90),
                    False,
                    "the value of the `default=` keyword is read through filter({}, ...): the defaults 0, 0.0, False and '' are "
                    "filtered out as if the keyword were absent, so they do not survive emit -> parse".format(norm(pred)),
                    line=site.lineno,
                )
    ctx.count("truthiness_filters_over_keyword_values", n_f)


# writer -> readers that must undo whatever character-level rewriting the writer applies (confirmed by reading:
# today none of the writers rewrites anything, so the readers rightly undo nothing)
ESCAPE_PAIRS = (
    ("cdd.shared.ast_utils.param2argparse_param", ("cdd.argparse_function.utils.emit_utils.parse_out_param",), "help / default text of an add_argument call"),
    ("cdd.shared.pure_utils.quote", ("cdd.shared.pure_utils.unquote", "cdd.shared.ast_utils.set_value"), "a quoted string default"),
    ("cdd.shared.defaults_utils.set_default_doc", ("cdd.shared.defaults_utils.extract_default", "cdd.shared.defaults_utils._parse_out_default_and_doc"), "the default announced in a description"),
)


def _escape(ctx, index):
    """
    C02.escape: a writer that rewrites characters of a value (`.replace(A, B)` with constant, different A and
    B — escaping) must have a reader that rewrites them back (`.replace(B, A)`); otherwise every round trip
    adds another layer (`80%` -> `80%%` -> `80%%%%`, `"` -> `\\"`).
    """
    n = 0
    for wq, rqs, what in ESCAPE_PAIRS:
        w = index.func(wq)
        readers = [index.func(r) for r in rqs]
        reps = []
        for c in [x for x in ast.walk(w.node) if isinstance(x, ast.Call)]:
            if isinstance(c.func, ast.Attribute) and c.func.attr == "replace" and len(c.args) >= 2:
                a, b = c.args[0], c.args[1]
                av = a.value if isinstance(a, ast.Constant) else None
                bv = b.value if isinstance(b, ast.Constant) else None
                if isinstance(av, str) and isinstance(bv, str) and (av == "" or bv == "" or av == bv):
                    continue  # deletion / identity is not escaping
                reps.append((c, norm(a), norm(b), av, bv))
        n += 1
        if not reps:
            ctx.ob("C02.escape", w, "{} rewrites no characters of {}".format(w.node.name, what), True, line=w.node.lineno)
            continue
        for c, at, bt, av, bv in reps:
            undone = False
            for r in readers:
                for rc in [x for x in ast.walk(r.node) if isinstance(x, ast.Call)]:
                    if isinstance(rc.func, ast.Attribute) and rc.func.attr == "replace" and len(rc.args) >= 2:
                        ra, rb = rc.args[0], rc.args[1]
                        if isinstance(ra, ast.Constant) and isinstance(rb, ast.Constant) and av is not None and bv is not None:
                            undone = undone or (ra.value == bv and rb.value == av)
                        else:
                            undone = undone or (norm(ra) == bt and norm(rb) == at)
            ctx.ob(
                "C02.escape",
                w,
                c,
                undone,
                ""
                if undone
                else "{} rewrites {} to {} in {}, and none of {} rewrites it back: the value grows by one layer of escaping on "
                "every emit -> parse round".format(w.node.name, at, bt, what, [r.node.name for r in readers]),
                line=c.lineno,
            )
    ctx.count("escape_pairs", n)


__all__ = ["run", "param_roots"]


TYPE_EXPR_NODES = frozenset("Name Constant Subscript Tuple List Attribute BinOp".split())


def _typewalk(ctx, index, rule="C02.typewalk"):
    """
    Whether a default is written quoted (and therefore comes back as a str rather than as code / a number) is decided
    by `needs_quoting(typ)`: "does the type expression mention `str` or a string literal ANYWHERE". The type is an
    arbitrary expression — `Optional[Literal['0', '1']]`, `Union[Literal['-1', '+1'], int]`, `str | None`,
    `Callable[[str], int]`, `typing.Dict[str, int]` — so the decision must come from a COMPLETE traversal of the parsed
    expression: `ast.walk` / a NodeVisitor, or a hand-written recursion that descends into every node class a type
    expression can be built from (Name, Constant, Subscript, Tuple, List, Attribute, BinOp for PEP 604 unions).
    A look at the top level or at the direct arguments only, or a recursion that forgets a node class, answers
    False for the types it cannot see into, and the str default of such a parameter is emitted unquoted.
    """
    nq = index.func("cdd.shared.defaults_utils.needs_quoting")
    region, todo = [nq], [nq]
    while todo:
        g = todo.pop()
        for n in iter_own(g.node):
            if isinstance(n, ast.Name):
                h = index.funcs.get(index.resolve(g.mod, n, g) or "")
                if h is not None and h.mod is nq.mod and h.outer is None and h not in region and len(region) < 8:
                    region.append(h)
                    todo.append(h)
    complete = None
    for g in region:
        for n in iter_own(g.node):
            if isinstance(n, ast.Call):
                c = index.callee(g.mod, n, g) or norm(n.func)
                if c in ("ast.walk", "walk") or c.endswith(".generic_visit"):
                    complete = (g, n)
    if complete is not None:
        ctx.ob(rule, nq, "the type expression is traversed completely ({})".format(short(complete[1], 40)), True, line=complete[1].lineno)
        return
    recursive = [g for g in region if any(isinstance(n, ast.Name) and n.id == g.node.name for n in iter_own(g.node))]
    handled = set()
    for g in recursive:
        for n in iter_own(g.node):
            if isinstance(n, ast.Call) and norm(n.func) == "isinstance" and len(n.args) == 2:
                for x in n.args[1].elts if isinstance(n.args[1], ast.Tuple) else [n.args[1]]:
                    handled.add(norm(x).rpartition(".")[2])
    missing = sorted(TYPE_EXPR_NODES - handled) if recursive else sorted(TYPE_EXPR_NODES)
    ok = bool(recursive) and not missing
    ctx.ob(
        rule,
        nq,
        "the type expression is traversed completely",
        ok,
        ""
        if ok
        else (
            "needs_quoting no longer walks the whole type expression: {} — a str default under such a type is judged not to need "
            "quotes, is emitted bare and comes back as code or as a number".format(
                "its hand-written recursion ({}) does not descend into {}".format(", ".join(g.node.name for g in recursive), ", ".join(missing))
                if recursive
                else "it looks at a fixed number of levels only (no ast.walk, no recursion)"
            )
        ),
        line=nq.node.lineno,
    )
