"""
Hash-order taint: find places where the iteration order of a set (or of a dict keys()/items()
set-algebra result) can reach an ordered result.

kind(expr): None | 'set' (a set object: fine as long as only its *order* is never observed) |
            'ord' (an ordered iterable/sequence/dict whose order comes from a set).
Every tainted expression is classified by its syntactic context: propagate (the parent is itself
tainted), order-free (membership, sorted, len, any/all, min/max, set algebra, truth test, ...) or
sink (order materialised: for-loop with an order-sensitive body, list/tuple/join/format/index,
return of 'ord', store into a structure, passing to an unknown callee, ...).
"""

import ast

from .core import iter_own, short, stored_names

SET_CTORS = frozenset(("builtins.set", "builtins.frozenset"))
SET_METHODS_SET = frozenset(
    "union intersection difference symmetric_difference copy".split()
)
SET_METHODS_FREE = frozenset(
    "add update discard remove issubset issuperset isdisjoint clear __contains__ "
    "intersection_update difference_update symmetric_difference_update".split()
)
FREE_CALLEES = frozenset(
    (
        "builtins.sorted builtins.len builtins.any builtins.all builtins.min builtins.max "
        "builtins.sum builtins.bool builtins.isinstance builtins.set builtins.frozenset "
        "collections.Counter builtins.hasattr builtins.id builtins.type builtins.callable"
    ).split()
)
PROPAGATORS = frozenset(
    (
        "builtins.list builtins.tuple builtins.iter builtins.reversed builtins.enumerate "
        "builtins.map builtins.filter builtins.zip itertools.chain itertools.chain.from_iterable "
        "itertools.islice collections.deque collections.OrderedDict builtins.dict "
        "itertools.filterfalse itertools.takewhile itertools.dropwhile itertools.tee "
        "itertools.zip_longest itertools.starmap itertools.groupby itertools.accumulate "
        "itertools.product builtins.next"
    ).split()
)
ELEMENT_ONLY = frozenset(("builtins.map", "builtins.filter", "itertools.filterfalse", "itertools.takewhile", "itertools.dropwhile", "itertools.starmap"))
KEYS_LIKE = frozenset(("keys", "items"))


def _identity_key(k):
    """`key=None` / `key=lambda x: x`: ordering by the element itself (total on the str / tuple elements used here)"""
    if isinstance(k, ast.Constant) and k.value is None:
        return True
    if isinstance(k, ast.Lambda) and len(k.args.args) == 1 and isinstance(k.body, ast.Name) and k.body.id == k.args.args[0].arg:
        return True
    # {"post": 0, "get": 1, ...}.__getitem__ with pairwise distinct constant ranks is injective (KeyError elsewhere)
    if isinstance(k, ast.Attribute) and k.attr == "__getitem__" and isinstance(k.value, ast.Dict):
        vals = [v.value if isinstance(v, ast.Constant) else None for v in k.value.values]
        return None not in vals and len(set(vals)) == len(vals)
    return False


class Scope(object):
    """a function or module scope"""

    def __init__(self, mod, func):
        self.mod = mod
        self.func = func
        self.node = func.node if func is not None else mod.tree
        self.defs = {}
        for n in self.nodes():
            if isinstance(n, (ast.Assign, ast.AnnAssign)) and n.value is not None:
                for t in n.targets if isinstance(n, ast.Assign) else [n.target]:
                    if isinstance(t, ast.Name):
                        self.defs.setdefault(t.id, []).append(n.value)
                    elif isinstance(t, (ast.Tuple, ast.List)) and isinstance(n.value, (ast.Tuple, ast.List)) and len(t.elts) == len(n.value.elts):
                        # a, b = set(), 0  — element-wise
                        for te, ve in zip(t.elts, n.value.elts):
                            if isinstance(te, ast.Name) and not isinstance(ve, ast.Starred):
                                self.defs.setdefault(te.id, []).append(ve)
            elif isinstance(n, ast.AugAssign) and isinstance(n.target, ast.Name):
                self.defs.setdefault(n.target.id, []).append(n.value)

    def nodes(self):
        """own nodes"""
        if self.func is not None:
            return iter_own(self.func.node)
        return _module_nodes(self.mod)

    @property
    def name(self):
        """display name"""
        return self.func.qual if self.func is not None else self.mod.name


def _module_nodes(m):
    stack = list(m.tree.body)
    while stack:
        n = stack.pop()
        yield n
        if isinstance(n, (ast.FunctionDef, ast.AsyncFunctionDef, ast.ClassDef)):
            continue
        stack.extend(ast.iter_child_nodes(n))


class SetOrder(object):
    """the analysis"""

    def __init__(self, index, include_tests=False):
        self.index = index
        self.scopes = []
        for name, m in sorted(index.modules.items()):
            if m.is_test and not include_tests:
                continue
            self.scopes.append(Scope(m, None))
        for f in index.funcs.values():
            if f.mod.is_test and not include_tests:
                continue
            self.scopes.append(Scope(f.mod, f))
        self.param_kind = {}  # (func qual, param) -> kind
        self.ret_kind = {}  # func qual -> kind
        self.memo = {}
        self.sites = []  # tainted expression sites (for counting)
        self.reports = []
        self.free_uses = 0
        self.suppress = {}

    # ------------------------------------------------------------------ kind
    def kind(self, sc, e, depth=0):
        """None | 'set' | 'ord'"""
        key = (id(e), sc.name)
        if key in self.memo:
            return self.memo[key]
        self.memo[key] = None  # cycle guard
        k = self._kind(sc, e, depth)
        self.memo[key] = k
        return k

    def _join(self, *ks):
        if "ord" in ks:
            return "ord"
        if "set" in ks:
            return "set"
        return None

    def _narrowed(self, sc, name_node):
        """is this Name under `isinstance(name, set/frozenset)` (true branch)?"""
        par = sc.mod.parents
        child, p = name_node, par.get(name_node)
        while p is not None and p is not sc.node:
            test = None
            if isinstance(p, ast.IfExp) and child is p.body:
                test = p.test
            elif isinstance(p, ast.If) and child in p.body:
                test = p.test
            if test is not None:
                for t in ast.walk(test):
                    if (
                        isinstance(t, ast.Call)
                        and isinstance(t.func, ast.Name)
                        and t.func.id == "isinstance"
                        and len(t.args) == 2
                        and isinstance(t.args[0], ast.Name)
                        and t.args[0].id == name_node.id
                    ):
                        names = {x.id for x in ast.walk(t.args[1]) if isinstance(x, ast.Name)}
                        if names and names <= {"set", "frozenset", "FrozenSet", "Set"}:
                            return True
            child, p = p, par.get(p)
        return False

    def _kind(self, sc, e, depth):
        idx = self.index
        if isinstance(e, (ast.Set, ast.SetComp)):
            return "set"
        if isinstance(e, ast.Name):
            if not isinstance(e.ctx, ast.Load):
                return None
            if self._narrowed(sc, e):
                return "set"
            k = None
            if sc.func is not None and e.id in sc.func.params:
                k = self.param_kind.get((sc.func.qual, e.id))
            for v in sc.defs.get(e.id, ()):
                if depth < 6:
                    k = self._join(k, self.kind(sc, v, depth + 1))
            if e.id not in sc.defs and sc.func is not None and e.id not in sc.func.locals:
                # module-level variable of this or another module
                r = idx.resolve(sc.mod, e, sc.func)
                if r is not None and r.startswith("cdd."):
                    mv = idx.module_var(r)
                    if mv is not None:
                        m2, stmts = mv
                        sc2 = self._module_scope(m2)
                        for s in stmts:
                            v = getattr(s, "value", None)
                            if v is not None and depth < 6:
                                k = self._join(k, self.kind(sc2, v, depth + 1))
            return k
        if isinstance(e, ast.Attribute):
            r = idx.resolve(sc.mod, e, sc.func)
            if r is not None and r.startswith("cdd."):
                mv = idx.module_var(r)
                if mv is not None:
                    m2, stmts = mv
                    sc2 = self._module_scope(m2)
                    k = None
                    for s in stmts:
                        v = getattr(s, "value", None)
                        if v is not None and depth < 6:
                            k = self._join(k, self.kind(sc2, v, depth + 1))
                    return k
            return None
        if isinstance(e, ast.IfExp):
            return self._join(self.kind(sc, e.body, depth), self.kind(sc, e.orelse, depth))
        if isinstance(e, ast.BoolOp):
            return self._join(*[self.kind(sc, v, depth) for v in e.values])
        if isinstance(e, ast.Starred):
            return self.kind(sc, e.value, depth)
        if isinstance(e, ast.NamedExpr):
            return self.kind(sc, e.value, depth)
        if isinstance(e, ast.BinOp):
            lk, rk = self.kind(sc, e.left, depth), self.kind(sc, e.right, depth)
            if isinstance(e.op, (ast.Sub, ast.BitAnd, ast.BitOr, ast.BitXor)):
                if lk == "set" or rk == "set" or self._keys_like(e.left) or self._keys_like(e.right):
                    return "set"
                return None
            if isinstance(e.op, ast.Add):
                if lk == "ord" or rk == "ord":
                    return "ord"
            return None
        if isinstance(e, (ast.ListComp, ast.GeneratorExp, ast.DictComp)):
            for g in e.generators:
                if self.kind(sc, g.iter, depth) is not None:
                    return "ord"
            return None
        if isinstance(e, ast.Subscript):
            if isinstance(e.slice, ast.Slice) and self.kind(sc, e.value, depth) == "ord":
                return "ord"
            return None
        if isinstance(e, ast.Call):
            callee = idx.callee(sc.mod, e, sc.func)
            if callee in SET_CTORS:
                return "set"
            if callee == "builtins.sorted":
                # sorted() is stable: with a key that is not injective (str.casefold, len, attrgetter...)
                # equal-keyed elements keep their input order, i.e. the hash order of the set
                key = [k.value for k in e.keywords if k.arg == "key"]
                if key and not _identity_key(key[0]) and e.args and self.kind(sc, e.args[0], depth) is not None:
                    return "ord"
                return None
            if callee in PROPAGATORS:
                args = e.args[1:] if callee in ELEMENT_ONLY else e.args
                for a in args:
                    if self.kind(sc, a, depth) is not None:
                        return "ord"
                return None
            if isinstance(e.func, ast.Attribute):
                rk = self.kind(sc, e.func.value, depth)
                if rk == "set" and e.func.attr in SET_METHODS_SET:
                    return "set"
                if rk == "ord" and e.func.attr in ("keys", "items", "values", "copy"):
                    return "ord"
                if e.func.attr in SET_METHODS_SET and any(
                    self.kind(sc, a, depth) == "set" for a in e.args
                ):
                    return "set"
            if callee in idx.funcs:
                return self.ret_kind.get(callee)
            return None
        return None

    def _module_scope(self, m):
        for sc in self.scopes:
            if sc.func is None and sc.mod is m:
                return sc
        sc = Scope(m, None)
        self.scopes.append(sc)
        return sc

    @staticmethod
    def _keys_like(e):
        return (
            isinstance(e, ast.Call)
            and isinstance(e.func, ast.Attribute)
            and e.func.attr in KEYS_LIKE
            and not e.args
        )

    # -------------------------------------------------------- interprocedural
    def fixpoint(self):
        """propagate kinds into callee parameters and out of returns until stable"""
        idx = self.index
        for _ in range(6):
            changed = False
            self.memo.clear()
            for sc in self.scopes:
                for n in sc.nodes():
                    if isinstance(n, ast.Call):
                        callee = idx.callee(sc.mod, n, sc.func)
                        target, args, kws = None, n.args, n.keywords
                        if callee in idx.funcs:
                            target = callee
                        elif callee in ("functools.partial", "cdd.shared.pure_utils.rpartial") and n.args:
                            r = idx.resolve(sc.mod, n.args[0], sc.func)
                            if r in idx.funcs and callee == "functools.partial":
                                target, args = r, n.args[1:]
                            elif r in idx.funcs:
                                target, args = r, []
                        if target is None:
                            continue
                        tf = idx.funcs[target]
                        params = tf.params
                        if tf.cls is not None and params and params[0] in ("self", "cls"):
                            params = params[1:]
                        for i, a in enumerate(args):
                            if isinstance(a, ast.Starred):
                                break
                            k = self.kind(sc, a)
                            if k is not None and i < len(params):
                                key = (target, params[i])
                                if self.param_kind.get(key) != self._join(self.param_kind.get(key), k):
                                    self.param_kind[key] = self._join(self.param_kind.get(key), k)
                                    changed = True
                        for kw in kws:
                            if kw.arg is None:
                                continue
                            k = self.kind(sc, kw.value)
                            if k is not None and kw.arg in tf.params:
                                key = (target, kw.arg)
                                if self.param_kind.get(key) != self._join(self.param_kind.get(key), k):
                                    self.param_kind[key] = self._join(self.param_kind.get(key), k)
                                    changed = True
                    elif isinstance(n, ast.Return) and n.value is not None and sc.func is not None:
                        k = self.kind(sc, n.value)
                        if k is not None:
                            q = sc.func.qual
                            nk = self._join(self.ret_kind.get(q), k)
                            if self.ret_kind.get(q) != nk:
                                self.ret_kind[q] = nk
                                changed = True
            if not changed:
                break
        self.memo.clear()

    # ----------------------------------------------------------- classification
    def analyse(self):
        """fill self.reports with sinks"""
        self.fixpoint()
        for sc in self.scopes:
            for n in sc.nodes():
                if not isinstance(n, ast.expr):
                    continue
                k = self.kind(sc, n)
                if k is None:
                    continue
                self.sites.append((sc, n, k))
                verdict = self.context(sc, n, k)
                if verdict is None:
                    self.free_uses += 1
                else:
                    self.reports.append((sc, n, k, verdict))
        return self.reports

    def context(self, sc, e, k):
        """None when propagating / order-free, else a sink description"""
        idx = self.index
        par = sc.mod.parents
        p = par.get(e)
        if p is None:
            return None
        if isinstance(p, ast.expr) and not isinstance(p, (ast.Call, ast.Attribute, ast.Subscript, ast.Lambda, ast.Compare, ast.Tuple, ast.List, ast.Dict, ast.Set, ast.JoinedStr, ast.FormattedValue, ast.Yield, ast.YieldFrom, ast.Await, ast.UnaryOp)):
            if self.kind(sc, p) is not None:
                return None
        if isinstance(p, ast.Compare):
            return None
        if isinstance(p, ast.UnaryOp):
            return None if isinstance(p.op, ast.Not) else "operator on hash-ordered value"
        if isinstance(p, ast.BoolOp):
            return None
        if isinstance(p, ast.IfExp):
            if e is p.test:
                return None
            return None if self.kind(sc, p) is not None else None
        if isinstance(p, (ast.If, ast.While, ast.Assert)):
            return None
        if isinstance(p, ast.Expr):
            return None
        if isinstance(p, ast.withitem):
            return None
        if isinstance(p, ast.Starred):
            gp = par.get(p)
            if isinstance(gp, ast.Call):
                callee = idx.callee(sc.mod, gp, sc.func)
                if callee in FREE_CALLEES or callee in SET_CTORS:
                    return None
                if self.kind(sc, gp) is not None:
                    return None
                return "star-unpacked into {}()".format(callee or short(gp.func, 30))
            if self.kind(sc, gp) is not None if isinstance(gp, ast.expr) else False:
                return None
            return "star-unpacked"
        if isinstance(p, ast.Attribute):
            gp = par.get(p)
            if isinstance(gp, ast.Call) and gp.func is p:
                if self.kind(sc, gp) is not None:
                    return None
                if p.attr == "pop" and k == "set":
                    return "set.pop() returns an arbitrary (hash-order) element"
                if p.attr == "join":
                    return None  # receiver of join is the separator
                return None
            return None
        if isinstance(p, ast.Subscript):
            if p.value is e:
                if isinstance(p.slice, ast.Slice):
                    return None if self.kind(sc, p) is not None else "sliced"
                return "indexed: element chosen by hash order"
            return None
        if isinstance(p, ast.comprehension):
            if p.iter is e:
                comp = par.get(p)
                if isinstance(comp, ast.SetComp):
                    return None
                return None  # the comprehension itself is tainted 'ord' and classified on its own
            return None
        if isinstance(p, (ast.For, ast.AsyncFor)):
            if p.iter is e:
                why = self.loop_body_sensitive(sc, p)
                return None if why is None else "for-loop over hash order whose body {}".format(why)
            return None
        if isinstance(p, ast.keyword):
            gp = par.get(p)
            return self._arg_context(sc, e, k, gp, p.arg)
        if isinstance(p, ast.Call):
            if p.func is e:
                return None
            return self._arg_context(sc, e, k, p, None)
        if isinstance(p, (ast.Assign, ast.AnnAssign, ast.AugAssign)):
            tg = p.targets if isinstance(p, ast.Assign) else [p.target]
            for t in tg:
                if isinstance(t, ast.Name):
                    continue
                if k == "ord":
                    return "hash-ordered sequence stored into {}".format(short(t, 40))
                if isinstance(t, (ast.Tuple, ast.List)):
                    return "set unpacked into names in hash order"
            return None
        if isinstance(p, ast.Return):
            if k == "ord":
                return "hash-ordered sequence returned"
            return None
        if isinstance(p, ast.Lambda):
            if k == "ord":
                return "hash-ordered sequence returned from lambda"
            return None
        if isinstance(p, (ast.Yield, ast.YieldFrom)):
            if isinstance(p, ast.YieldFrom) or k == "ord":
                return "hash order yielded"
            return None
        if isinstance(p, (ast.Tuple, ast.List, ast.Dict, ast.Set)):
            if k == "ord":
                return "hash-ordered sequence stored in a container display"
            return None
        if isinstance(p, (ast.JoinedStr, ast.FormattedValue)):
            return "formatted into a string (repr/iteration order is hash order)"
        if isinstance(p, ast.BinOp):
            if isinstance(p.op, ast.Mod):
                return "%-formatted"
            return None
        if isinstance(p, ast.Delete):
            return None
        return None

    def _arg_context(self, sc, e, k, call, kwname):
        idx = self.index
        if not isinstance(call, ast.Call):
            return None
        callee = idx.callee(sc.mod, call, sc.func)
        if self.kind(sc, call) is not None and not (callee in ELEMENT_ONLY and call.args and call.args[0] is e):
            return None
        if callee in ("builtins.min", "builtins.max") and any(kw.arg == "key" and not _identity_key(kw.value) for kw in call.keywords):
            return "{}(..., key=...) over hash-ordered elements: ties are resolved by iteration order".format(callee.rpartition(".")[2])
        if callee in FREE_CALLEES or callee in SET_CTORS:
            return None
        if callee in ELEMENT_ONLY and call.args and call.args[0] is e:
            return None
        if isinstance(call.func, ast.Attribute):
            m = call.func.attr
            rk = self.kind(sc, call.func.value)
            if rk == "set" and (m in SET_METHODS_FREE or m in SET_METHODS_SET):
                return None
            if m == "join":
                return "joined into a string in hash order"
            if m == "format":
                return "formatted into a string in hash order"
            if m in ("update",) and k == "set":
                # dict.update(set-of-pairs) / set.update(set)
                return None if rk == "set" else "mapping updated in hash order"
            if m in ("extend",):
                return "list extended in hash order"
            if m in ("issubset", "issuperset", "isdisjoint", "union", "intersection", "difference", "symmetric_difference", "__contains__", "get", "count", "index"):
                return None
        if callee in idx.funcs or (
            callee in ("functools.partial", "cdd.shared.pure_utils.rpartial")
        ):
            return None  # propagated into the callee's parameter by fixpoint()
        if callee in PROPAGATORS:
            return None
        if callee in ("builtins.str", "builtins.repr", "builtins.print", "builtins.format"):
            return "rendered as text in hash order"
        if callee is not None and callee.startswith("builtins.") and callee.split(".")[1][:1].isupper():
            return None  # exception constructors etc.
        if k == "set":
            # passing a set object to an opaque callee: only the AST constructors and
            # sequence consumers matter
            if callee is not None and (callee.startswith("ast.") or callee in ("builtins.list", "builtins.tuple")):
                return "passed to {} which consumes it in hash order".format(callee)
            return None
        return "hash-ordered sequence passed to {}".format(callee or short(call.func, 40))

    def loop_body_sensitive(self, sc, loop):
        """None when the body is order-free, else why it is order-sensitive"""
        loop_vars = set(stored_names(loop.target))
        for s in loop.body:
            for n in ast.walk(s):
                if isinstance(n, (ast.Yield, ast.YieldFrom)):
                    return "yields"
                if isinstance(n, (ast.Return, ast.Break)):
                    return "stops at the first match (return/break)"
                if isinstance(n, ast.Call) and isinstance(n.func, ast.Attribute):
                    if n.func.attr in ("append", "extend", "insert", "write", "appendleft"):
                        return "appends/writes ({})".format(short(n, 50))
                    if n.func.attr in ("add", "discard", "update") and self.kind(sc, n.func.value) == "set":
                        continue
                if isinstance(n, ast.Call) and isinstance(n.func, ast.Name) and n.func.id == "print":
                    return "prints"
                if isinstance(n, (ast.Assign, ast.AugAssign, ast.AnnAssign)):
                    for t in n.targets if isinstance(n, ast.Assign) else [n.target]:
                        if isinstance(t, ast.Subscript):
                            # X[k] = v : inserts a new key in iteration order unless X is a set-keyed
                            # structure being filled with per-key values and later only read by key
                            return "inserts keys into a mapping in iteration order ({})".format(
                                short(n, 60)
                            )
                        if isinstance(t, ast.Name) and isinstance(n, ast.AugAssign):
                            if not isinstance(n.value, ast.Constant):
                                return "accumulates in iteration order ({})".format(short(n, 50))
                        if isinstance(t, ast.Name) and isinstance(n, ast.Assign):
                            # last-writer-wins on a plain name
                            if t.id not in loop_vars and any(
                                isinstance(x, ast.Name) and x.id in loop_vars for x in ast.walk(n.value)
                            ):
                                used_after = True
                                if used_after:
                                    return "keeps the last element in iteration order ({})".format(
                                        short(n, 50)
                                    )
        return None
