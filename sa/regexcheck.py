"""
Static check of regular-expression literals for catastrophic (exponential) backtracking.

The pattern is parsed with the standard library's own regex parser (`re._parser`), nothing is matched.
Reported shape (the classic `(x+y?)+` family): an UNBOUNDED repeat whose body contains another unbounded
repeat of an item I such that, inside the body, everything before and everything after that inner repeat
can match the empty string. Then the body matches I..I in as many ways as there are ways to split the run
between inner and outer iterations — 2^n attempts before a failing match gives up.
Also reported: an unbounded repeat over an alternation two of whose branches can start with the same
character and are themselves unbounded (`(a|a)*`, `(\\w|\\d)+$` family is NOT reported: linear per position).
"""

import re

try:  # 3.11+
    from re import _constants as sre_constants
    from re import _parser as sre_parse
except ImportError:  # pragma: no cover
    import sre_constants
    import sre_parse

MAXREPEAT = sre_constants.MAXREPEAT
REPEATS = (sre_constants.MAX_REPEAT, sre_constants.MIN_REPEAT) + (
    (sre_constants.POSSESSIVE_REPEAT,) if hasattr(sre_constants, "POSSESSIVE_REPEAT") else ()
)


def _nullable(items):
    """can this sequence of parsed items match the empty string?"""
    for op, av in items:
        if op in REPEATS:
            lo, _hi, body = av
            if lo > 0 and not _nullable(body):
                return False
        elif op is sre_constants.SUBPATTERN:
            if not _nullable(av[3]):
                return False
        elif op is sre_constants.BRANCH:
            if not any(_nullable(b) for b in av[1]):
                return False
        elif op in (sre_constants.AT, sre_constants.ASSERT, sre_constants.ASSERT_NOT):
            continue
        elif getattr(sre_constants, "ATOMIC_GROUP", None) is not None and op is sre_constants.ATOMIC_GROUP:
            if not _nullable(av):
                return False
        else:
            return False
    return True


def _flatten(items):
    """inline plain groups so that `(?:a+)` counts as `a+` inside its parent"""
    out = []
    for op, av in items:
        if op is sre_constants.SUBPATTERN:
            out.extend(_flatten(av[3]))
        else:
            out.append((op, av))
    return out


def _inner_unbounded(items):
    """indices (in the flattened body) of unbounded, non-possessive repeats"""
    for i, (op, av) in enumerate(items):
        if op in (sre_constants.MAX_REPEAT, sre_constants.MIN_REPEAT) and av[1] == MAXREPEAT:
            yield i


def _walk(items, out, pattern):
    for op, av in items:
        if op in REPEATS:
            lo, hi, body = av
            flat = _flatten(body)
            if hi == MAXREPEAT and op in (sre_constants.MAX_REPEAT, sre_constants.MIN_REPEAT):
                for i in _inner_unbounded(flat):
                    if _nullable(flat[:i]) and _nullable(flat[i + 1 :]):
                        out.append(
                            "nested unbounded repeats: inside an outer `+`/`*` the inner repeat can absorb the whole run or "
                            "leave any part of it to the next outer iteration (everything around it in the group is optional)"
                        )
                        break
                # alternation directly under the repeat with a nullable or duplicated branch handled by the same rule
                for bop, bav in flat:
                    if bop is sre_constants.BRANCH:
                        for br in bav[1]:
                            fb = _flatten(br)
                            for i in _inner_unbounded(fb):
                                if _nullable(fb[:i]) and _nullable(fb[i + 1 :]) and len(flat) == 1:
                                    out.append("nested unbounded repeats through an alternation branch")
                                    break
            _walk(body, out, pattern)
        elif op is sre_constants.SUBPATTERN:
            _walk(av[3], out, pattern)
        elif op is sre_constants.BRANCH:
            for b in av[1]:
                _walk(b, out, pattern)
        elif op in (sre_constants.ASSERT, sre_constants.ASSERT_NOT):
            _walk(av[1], out, pattern)


def catastrophic(pattern, flags=0):
    """list of reasons why `pattern` can backtrack exponentially ([] when none is found); None if it does not parse"""
    try:
        parsed = sre_parse.parse(pattern, flags)
    except (re.error, RecursionError, OverflowError):
        return None
    out = []
    _walk(list(parsed), out, pattern)
    return sorted(set(out))


SELF_TEST = (
    (r"^`?(\w+\.?)+$", True),
    (r"(a+)+$", True),
    (r"(\w+\s*)+:", True),
    (r"(?:[a-z]+|\d+)*x", True),
    (r"^`?\w+(?:\.\w+)*$", False),
    (r"(\w+\.)+$", False),
    (r"\s*(\w+)\s*=\s*(.*)", False),
    (r"[dD]efaults?\s+(?:to|is)\s+", False),
)


def self_test():
    """the analyser itself, both ways; returns a list of disagreements"""
    bad = []
    for pat, want in SELF_TEST:
        got = bool(catastrophic(pat))
        if got != want:
            bad.append((pat, want, got))
    return bad
