"""
E6 — closed-expression constant folder over the AST (no repository code is run).

`fold(node, env)` returns a Python value or raises Unknown. `env` maps names to already folded
values. `ModuleEnv(index, module)` folds module-level assignments in order (following
`from x import NAME` into other repo modules) so that tables built by comprehension + `.update`
come out as concrete dicts.
"""

import ast
import sys

from .core import attr_chain


class Unknown(Exception):
    """not a closed constant expression"""


class LookupFailed(Unknown):
    """a table lookup with a folded key raised (KeyError): the key is missing from the table"""


class _Opaque(object):
    """placeholder for a value we refuse to fold (kept out of results)"""


class OpaqueValue(object):
    """an unfoldable dict value: equal only to an opaque value with the same source text"""

    def __init__(self, text):
        self.text = text

    def __eq__(self, other):
        return isinstance(other, OpaqueValue) and other.text == self.text

    def __ne__(self, other):
        return not self == other

    def __hash__(self):
        return hash(self.text)

    def __repr__(self):
        return "<unfolded {}>".format(self.text[:40])


_STR_METHODS = frozenset(
    (
        "join format replace partition rpartition split rsplit startswith endswith title lower "
        "upper strip lstrip rstrip capitalize splitlines count find index isdigit isidentifier"
    ).split()
)
_DICT_METHODS = frozenset("get items keys values copy".split())
_PURE_BUILTINS = {
    "frozenset": frozenset,
    "set": set,
    "tuple": tuple,
    "list": list,
    "dict": dict,
    "len": len,
    "sorted": sorted,
    "str": str,
    "int": int,
    "float": float,
    "bool": bool,
    "min": min,
    "max": max,
    "sum": sum,
    "zip": lambda *a: list(zip(*a)),
    "enumerate": lambda *a: list(enumerate(*a)),
    "range": lambda *a: list(range(*a)),
    "reversed": lambda a: list(reversed(a)),
    "repr": repr,
    "any": any,
    "all": all,
    "isinstance": None,
}


def _is_pure_callable(c):
    """a callable the folder itself produced or a whitelisted str method / builtin: safe to apply to folded values"""
    import functools
    import operator

    if isinstance(c, (operator.itemgetter, operator.attrgetter)):
        return True
    if isinstance(c, functools.partial):
        return _is_pure_callable(c.func)
    if getattr(c, "_pure", False):
        return True
    if c in (str, int, float, bool, len, repr, tuple, list, frozenset, set, sorted):
        return True
    return getattr(c, "__objclass__", None) is str and c.__name__ in _STR_METHODS


def fold(node, env=None, resolver=None, call_hook=None):
    """
    :param env: dict name -> value
    :param resolver: callable(dotted attr chain list) -> value or raise Unknown
    :param call_hook: callable(Call node, folded args, folded kwargs) -> value or raise Unknown; asked last,
           for calls the folder has no rule for (ModuleEnv evaluates small package functions with it)
    """
    env = env if env is not None else {}

    def f(n):
        if isinstance(n, ast.Constant):
            return n.value
        if isinstance(n, ast.Name):
            if n.id in env:
                return env[n.id]
            if n.id in ("True", "False", "None"):
                return {"True": True, "False": False, "None": None}[n.id]
            if resolver is not None:
                return resolver([n.id])
            raise Unknown(n.id)
        if isinstance(n, ast.Attribute):
            ch = attr_chain(n)
            # unbound methods of str used as first-class functions: str.partition, str.strip, ...
            if ch is not None and len(ch) == 2 and ch[0] == "str" and ch[1] in _STR_METHODS and "str" not in env:
                return getattr(str, ch[1])
            if ch is not None and resolver is not None and ch[0] not in env:
                return resolver(ch)
            if n.attr in ("__getitem__", "get"):
                v = f(n.value)
                if isinstance(v, dict):
                    return getattr(v, n.attr)
            raise Unknown(ast.unparse(n))
        if isinstance(n, ast.Tuple):
            return tuple(_seq(n.elts))
        if isinstance(n, ast.List):
            return list(_seq(n.elts))
        if isinstance(n, ast.Set):
            return set(_seq(n.elts))
        if isinstance(n, ast.Dict):
            d = {}
            for k, v in zip(n.keys, n.values):
                if k is None:
                    d.update(f(v))
                else:
                    try:
                        d[f(k)] = f(v)
                    except Unknown:
                        # keep the key; the value is an opaque token compared by source text
                        d[f(k)] = OpaqueValue(" ".join(ast.unparse(v).split()))
            return d
        if isinstance(n, ast.JoinedStr):
            out = []
            for v in n.values:
                if isinstance(v, ast.Constant):
                    out.append(str(v.value))
                elif isinstance(v, ast.FormattedValue) and v.format_spec is None:
                    val = f(v.value)
                    out.append(repr(val) if v.conversion == 114 else str(val))
                else:
                    raise Unknown("fstring")
            return "".join(out)
        if isinstance(n, ast.IfExp):
            return f(n.body) if f(n.test) else f(n.orelse)
        if isinstance(n, ast.BoolOp):
            val = None
            for v in n.values:
                val = f(v)
                if isinstance(n.op, ast.And) and not val:
                    return val
                if isinstance(n.op, ast.Or) and val:
                    return val
            return val
        if isinstance(n, ast.UnaryOp):
            v = f(n.operand)
            if isinstance(n.op, ast.Not):
                return not v
            if isinstance(n.op, ast.USub):
                return -v
            if isinstance(n.op, ast.UAdd):
                return +v
            raise Unknown("unary")
        if isinstance(n, ast.BinOp):
            a, b = f(n.left), f(n.right)
            try:
                if isinstance(n.op, ast.Add):
                    return a + b
                if isinstance(n.op, ast.Sub):
                    return a - b
                if isinstance(n.op, ast.Mult):
                    return a * b
                if isinstance(n.op, ast.Mod):
                    return a % b
                if isinstance(n.op, ast.BitOr):
                    return a | b
                if isinstance(n.op, ast.BitAnd):
                    return a & b
            except Exception as e:
                raise Unknown(str(e))
            raise Unknown("binop")
        if isinstance(n, ast.Compare):
            left = f(n.left)
            for op, c in zip(n.ops, n.comparators):
                right = f(c)
                try:
                    ok = {
                        ast.Eq: lambda: left == right,
                        ast.NotEq: lambda: left != right,
                        ast.In: lambda: left in right,
                        ast.NotIn: lambda: left not in right,
                        ast.Is: lambda: left is right,
                        ast.IsNot: lambda: left is not right,
                        ast.Lt: lambda: left < right,
                        ast.LtE: lambda: left <= right,
                        ast.Gt: lambda: left > right,
                        ast.GtE: lambda: left >= right,
                    }[type(op)]()
                except Exception as e:
                    raise Unknown(str(e))
                if not ok:
                    return False
                left = right
            return True
        if isinstance(n, ast.Subscript):
            v = f(n.value)
            if isinstance(n.slice, ast.Slice):
                lo = f(n.slice.lower) if n.slice.lower is not None else None
                hi = f(n.slice.upper) if n.slice.upper is not None else None
                st = f(n.slice.step) if n.slice.step is not None else None
                return v[lo:hi:st]
            try:
                return v[f(n.slice)]
            except Unknown:
                raise
            except Exception as e:
                raise Unknown(str(e))
        if isinstance(n, (ast.ListComp, ast.SetComp, ast.GeneratorExp, ast.DictComp)):
            return _comp(n)
        if isinstance(n, ast.Starred):
            raise Unknown("starred")
        if isinstance(n, ast.Call):
            return _call(n)
        raise Unknown(type(n).__name__)

    def _seq(elts):
        out = []
        for e in elts:
            if isinstance(e, ast.Starred):
                out.extend(f(e.value))
            else:
                out.append(f(e))
        return out

    def _comp(n):
        results = []

        def rec(i, local):
            if i == len(n.generators):
                sub = dict(env)
                sub.update(local)
                if isinstance(n, ast.DictComp):
                    results.append(
                        (fold(n.key, sub, resolver, call_hook), fold(n.value, sub, resolver, call_hook))
                    )
                else:
                    results.append(fold(n.elt, sub, resolver, call_hook))
                return
            g = n.generators[i]
            sub = dict(env)
            sub.update(local)
            for item in fold(g.iter, sub, resolver, call_hook):
                loc = dict(local)
                _bind(g.target, item, loc)
                sub2 = dict(env)
                sub2.update(loc)
                if all(fold(c, sub2, resolver, call_hook) for c in g.ifs):
                    rec(i + 1, loc)

        rec(0, {})
        if isinstance(n, ast.DictComp):
            return dict(results)
        if isinstance(n, ast.SetComp):
            return set(results)
        return results

    def _bind(target, value, local):
        if isinstance(target, ast.Name):
            local[target.id] = value
        elif isinstance(target, (ast.Tuple, ast.List)):
            vals = list(value)
            if len(vals) != len(target.elts):
                raise Unknown("unpack")
            for t, v in zip(target.elts, vals):
                _bind(t, v, local)
        else:
            raise Unknown("target")

    def _call(n):
        fn = n.func
        args = _seq(n.args)
        kwargs = {}
        for k in n.keywords:
            if k.arg is None:
                kwargs.update(f(k.value))
            else:
                kwargs[k.arg] = f(k.value)
        if isinstance(fn, ast.Name) and fn.id in _PURE_BUILTINS and fn.id not in env:
            impl = _PURE_BUILTINS[fn.id]
            if impl is None:
                raise Unknown(fn.id)
            try:
                return impl(*args, **kwargs)
            except Exception as e:
                raise Unknown(str(e))
        fname = ast.unparse(fn)
        if fname in ("namedtuple", "collections.namedtuple") and len(args) == 2:
            import collections

            try:
                return collections.namedtuple(args[0], args[1])
            except Exception as e:
                raise Unknown(str(e))
        if isinstance(fn, ast.Name) and fn.id not in _PURE_BUILTINS:
            try:
                ctor = f(fn)
            except Unknown:
                ctor = None
            if isinstance(ctor, type) and issubclass(ctor, tuple) and hasattr(ctor, "_fields"):
                try:
                    return ctor(*args, **kwargs)
                except Exception as e:
                    raise Unknown(str(e))
        # first-class pure callables of operator / functools / the repository's rpartial
        if fname in ("itemgetter", "operator.itemgetter", "attrgetter", "operator.attrgetter") and args and not kwargs:
            import operator

            return getattr(operator, fname.rpartition(".")[2])(*args)
        if fname in ("partial", "functools.partial") and args and callable(args[0]) and _is_pure_callable(args[0]):
            import functools

            return functools.partial(args[0], *args[1:], **kwargs)
        if fname in ("rpartial", "cdd.shared.pure_utils.rpartial") and args and callable(args[0]) and _is_pure_callable(args[0]) and not kwargs:
            fn0, late = args[0], tuple(args[1:])
            rp = lambda *a, _f=fn0, _l=late: _f(*(a + _l))  # noqa: E731
            rp._pure = True
            return rp
        if fname in ("map", "filter") and len(args) >= 2 and (args[0] is None or (callable(args[0]) and _is_pure_callable(args[0]))):
            try:
                if fname == "map":
                    return list(map(args[0], *args[1:]))
                return list(filter(args[0], args[1]))
            except Exception as e:
                raise Unknown(str(e))
        if isinstance(fn, ast.Attribute) and fn.attr == "_asdict" and not args:
            recv_ = f(fn.value)
            if isinstance(recv_, tuple) and hasattr(recv_, "_fields"):
                return dict(zip(recv_._fields, recv_))
        if fname in ("chain.from_iterable", "itertools.chain.from_iterable") and len(args) == 1:
            return [y for x in args[0] for y in x]
        if fname in ("chain", "itertools.chain"):
            return [y for x in args for y in x]
        if isinstance(fn, ast.Attribute) and fn.attr in ("__getitem__", "get"):
            try:
                recv0 = f(fn.value)
            except Unknown:
                recv0 = None
            if isinstance(recv0, dict):
                try:
                    return getattr(recv0, fn.attr)(*args)
                except Exception as e:
                    raise Unknown("lookup failed: {!r}".format(e))
        if isinstance(fn, ast.Name) and fn.id not in _PURE_BUILTINS:
            # a name bound (in env / module) to the bound method of a folded table
            try:
                fv = f(fn)
            except Unknown:
                fv = None
            if (
                fv is not None
                and callable(fv)
                and getattr(fv, "__self__", None).__class__ is dict
                and getattr(fv, "__name__", "") in ("__getitem__", "get")
            ):
                try:
                    return fv(*args)
                except Exception as e:
                    raise LookupFailed(repr(e))
        if isinstance(fn, ast.Attribute):
            recv = f(fn.value)
            name = fn.attr
            if isinstance(recv, str) and name in _STR_METHODS:
                try:
                    return getattr(recv, name)(*args, **kwargs)
                except Exception as e:
                    raise Unknown(str(e))
            if isinstance(recv, dict) and name in _DICT_METHODS:
                r = getattr(recv, name)(*args, **kwargs)
                return list(r) if name in ("items", "keys", "values") else r
            if isinstance(recv, dict) and name == "__getitem__":
                return recv[args[0]]
            if isinstance(recv, (frozenset, set)) and name in (
                "union",
                "intersection",
                "difference",
            ):
                return getattr(recv, name)(*args)
            if isinstance(recv, (list, tuple)) and name in ("index", "count"):
                return getattr(recv, name)(*args)
        if call_hook is not None:
            return call_hook(n, args, kwargs)
        raise Unknown("call " + ast.unparse(n.func))

    return f(node)


def try_fold(node, env=None, resolver=None, default=None, call_hook=None):
    """fold or default"""
    try:
        return fold(node, env, resolver, call_hook)
    except (Unknown, RecursionError):
        return default
    except Exception:  # value-level failure inside a folded builtin
        return default


class ModuleEnv(object):
    """fold module-level variables of repo modules, lazily, following imports"""

    def __init__(self, index, py=None):
        self.index = index
        self.cache = {}
        self.active = set()
        v = py or sys.version_info[:2]
        self.consts = {
            "PY3_8": v == (3, 8),
            "PY_GTE_3_8": v >= (3, 8),
            "PY_GTE_3_9": v >= (3, 9),
            "PY_GTE_3_10": v >= (3, 10),
            "PY_GTE_3_11": v >= (3, 11),
            "PY_GTE_3_12": v >= (3, 12),
        }

    def value(self, dotted):
        """value of module-level variable `cdd.x.NAME` (after all module-level updates)"""
        dotted = self.index._resolve_dotted(dotted)
        if dotted in self.cache:
            v = self.cache[dotted]
            if isinstance(v, Unknown):
                raise v
            return v
        if dotted in self.active:
            raise Unknown("cycle " + dotted)
        self.active.add(dotted)
        try:
            v = self._compute(dotted)
            self.cache[dotted] = v
            return v
        except Unknown as e:
            self.cache[dotted] = e
            raise
        finally:
            self.active.discard(dotted)

    def _resolver(self, m, local_env):
        def res(chain):
            if len(chain) == 1 and chain[0] in local_env:
                return local_env[chain[0]]
            if len(chain) == 1 and chain[0] in self.consts:
                return self.consts[chain[0]]
            node = ast.parse(".".join(chain), mode="eval").body
            r = self.index.resolve(m, node, None)
            if r is None:
                raise Unknown(".".join(chain))
            if r.startswith("cdd."):
                try:
                    return self.value(r)
                except Unknown:
                    # field of a folded namedtuple: cdd.x.TABLE.field
                    base, _, fld = r.rpartition(".")
                    if base.startswith("cdd.") and self.index.module_var(base) is not None:
                        v = self.value(base)
                        if isinstance(v, tuple) and hasattr(v, "_fields") and fld in v._fields:
                            return getattr(v, fld)
                    raise
            known = {"os.path.sep": "/", "os.extsep": ".", "os.path.extsep": "."}
            if r.startswith("string.") and r[7:] in ("ascii_letters", "ascii_lowercase", "ascii_uppercase", "digits", "punctuation", "whitespace", "hexdigits"):
                import string as _string

                return getattr(_string, r[7:])
            if r in known:
                return known[r]
            raise Unknown(r)

        return res

    MAX_CALL_DEPTH = 3

    def _hook(self, m, depth=0):
        """
        call hook for expressions of module m: a call to a small function of the package is evaluated by
        interpreting its body (assignments to locals, .update()/item stores on locals, foldable if/for,
        one return) — a table built by `NAME = _build_table()` reads like the table built in place
        """

        def hook(call, args, kwargs):
            q = self.index.callee(m, call, None)
            h = self.index.funcs.get(q or "")
            if h is None or h.mod.is_test or depth >= self.MAX_CALL_DEPTH or h.outer is not None:
                raise Unknown("call " + ast.unparse(call.func))
            if h.node.decorator_list or isinstance(h.node, ast.AsyncFunctionDef):
                raise Unknown("call " + ast.unparse(call.func))
            return self._apply(h, args, kwargs, depth + 1)

        return hook

    def _apply(self, h, args, kwargs, depth):
        a = h.node.args
        if a.vararg is not None or a.kwarg is not None:
            raise Unknown("call " + h.qual)
        pos = a.posonlyargs + a.args
        if len(args) > len(pos):
            raise Unknown("call " + h.qual)
        local = {}
        hook = self._hook(h.mod, depth)
        res = self._resolver(h.mod, {})
        for prm, v in zip(pos, args):
            local[prm.arg] = v
        for k, v in kwargs.items():
            if k in local or k not in [x.arg for x in pos + a.kwonlyargs]:
                raise Unknown("call " + h.qual)
            local[k] = v
        for prm, d in zip(pos[len(pos) - len(a.defaults):], a.defaults):
            if prm.arg not in local:
                local[prm.arg] = fold(d, None, res, hook)
        for prm, d in zip(a.kwonlyargs, a.kw_defaults):
            if prm.arg not in local and d is not None:
                local[prm.arg] = fold(d, None, res, hook)
        if any(x.arg not in local for x in pos + a.kwonlyargs):
            raise Unknown("call " + h.qual)
        res = self._resolver(h.mod, local)

        class _Return(Exception):
            def __init__(self, v):
                self.v = v

        def ev(e):
            return fold(e, local, res, hook)

        def store(t, v):
            if isinstance(t, ast.Name):
                local[t.id] = v
            elif isinstance(t, (ast.Tuple, ast.List)):
                vs = list(v)
                if len(vs) != len(t.elts):
                    raise Unknown("unpack")
                for x, y in zip(t.elts, vs):
                    store(x, y)
            elif isinstance(t, ast.Subscript) and isinstance(t.value, ast.Name) and t.value.id in local:
                try:
                    local[t.value.id][ev(t.slice)] = v
                except Unknown:
                    raise
                except Exception as e:
                    raise Unknown(str(e))
            else:
                raise Unknown("store in " + h.qual)

        budget = [20000]

        def run(stmts):
            for s in stmts:
                budget[0] -= 1
                if budget[0] < 0:
                    raise Unknown("budget " + h.qual)
                if isinstance(s, ast.Expr) and isinstance(s.value, ast.Constant):
                    continue
                if isinstance(s, ast.Pass):
                    continue
                if isinstance(s, ast.Return):
                    raise _Return(None if s.value is None else ev(s.value))
                if isinstance(s, ast.Assign):
                    v = ev(s.value)
                    for t in s.targets:
                        store(t, v)
                elif isinstance(s, ast.AnnAssign):
                    if s.value is not None:
                        store(s.target, ev(s.value))
                elif isinstance(s, ast.If):
                    run(s.body if ev(s.test) else s.orelse)
                elif isinstance(s, ast.For) and not s.orelse:
                    for item in ev(s.iter):
                        store(s.target, item)
                        run(s.body)
                elif (
                    isinstance(s, ast.Expr)
                    and isinstance(s.value, ast.Call)
                    and isinstance(s.value.func, ast.Attribute)
                    and isinstance(s.value.func.value, ast.Name)
                    and s.value.func.value.id in local
                    and s.value.func.attr in ("update", "append", "extend", "add", "setdefault")
                ):
                    c = s.value
                    recv = local[c.func.value.id]
                    if not isinstance(recv, (dict, list, set)):
                        raise Unknown("mutation in " + h.qual)
                    try:
                        getattr(recv, c.func.attr)(*[ev(x) for x in c.args], **{k.arg: ev(k.value) for k in c.keywords if k.arg})
                    except Unknown:
                        raise
                    except Exception as e:
                        raise Unknown(str(e))
                else:
                    raise Unknown("statement {} in {}".format(type(s).__name__, h.qual))

        try:
            run(h.node.body)
        except _Return as r:
            return r.v
        return None

    def _compute(self, dotted):
        mm, _, nm = dotted.rpartition(".")
        m = self.index.modules.get(mm)
        if m is None:
            raise Unknown(dotted)
        if nm in self.consts and mm == "cdd.shared.pure_utils":
            return self.consts[nm]
        ent = m.top.get(nm)
        if ent is None or ent[0] != "var":
            raise Unknown(dotted)
        val = _Opaque
        local = {}
        res = self._resolver(m, local)
        hook = self._hook(m)

        def exec_stmts(stmts):
            nonlocal val
            for s in stmts:
                if isinstance(s, ast.If):
                    t = try_fold(s.test, None, res, _Opaque, hook)
                    if t is _Opaque:
                        exec_stmts(s.body)
                        exec_stmts(s.orelse)
                    elif t:
                        exec_stmts(s.body)
                    else:
                        exec_stmts(s.orelse)
                    continue
                if isinstance(s, (ast.Assign, ast.AnnAssign)) and s.value is not None:
                    tg = s.targets if isinstance(s, ast.Assign) else [s.target]
                    for t in tg:
                        if isinstance(t, ast.Name) and t.id == nm:
                            val = fold(s.value, None, res, hook)
                            local[nm] = val
                        elif (
                            isinstance(t, ast.Subscript)
                            and isinstance(t.value, ast.Name)
                            and t.value.id == nm
                            and val is not _Opaque
                        ):
                            val[fold(t.slice, None, res, hook)] = fold(s.value, None, res, hook)
                elif isinstance(s, ast.Expr) and isinstance(s.value, ast.Call):
                    c = s.value
                    if (
                        isinstance(c.func, ast.Attribute)
                        and isinstance(c.func.value, ast.Name)
                        and c.func.value.id == nm
                        and val is not _Opaque
                    ):
                        if c.func.attr == "update" and isinstance(val, dict):
                            for a in c.args:
                                val.update(fold(a, None, res, hook))
                            for k in c.keywords:
                                val[k.arg] = fold(k.value, None, res, hook)
                        elif c.func.attr in ("append", "add", "extend"):
                            raise Unknown("mutation of " + dotted)

        exec_stmts(m.tree.body)
        if val is _Opaque:
            raise Unknown(dotted)
        return val

    def in_module(self, m, node, extra=None):
        """fold an expression appearing in module m"""
        local = dict(extra or {})
        return fold(node, local, self._resolver(m, local), self._hook(m))
