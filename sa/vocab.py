"""
E7 — vocabulary extractor: string constants by syntactic role (writer / reader agreement).
"""

import ast

from .core import iter_own


def keywords_written(f):
    """constants K in `keyword(arg="K", ...)` / `ast.keyword(arg="K")` built inside f"""
    out = set()
    for n in iter_own(f.node):
        if isinstance(n, ast.Call):
            fn = n.func
            name = fn.id if isinstance(fn, ast.Name) else fn.attr if isinstance(fn, ast.Attribute) else None
            if name == "keyword":
                for k in n.keywords:
                    if k.arg == "arg" and isinstance(k.value, ast.Constant) and isinstance(k.value.value, str):
                        out.add(k.value.value)
                if n.args and isinstance(n.args[0], ast.Constant) and isinstance(n.args[0].value, str):
                    out.add(n.args[0].value)
    return out


def keywords_read(f):
    """constants K in comparisons `<x>.arg == "K"` inside f (including generator conditions)"""
    out = set()
    for n in iter_own(f.node):
        if isinstance(n, ast.Compare) and len(n.ops) == 1 and isinstance(n.ops[0], (ast.Eq, ast.In)):
            sides = [n.left] + n.comparators
            attrs = [s for s in sides if isinstance(s, ast.Attribute) and s.attr == "arg"]
            if attrs:
                for s in sides:
                    if isinstance(s, ast.Constant) and isinstance(s.value, str):
                        out.add(s.value)
                    elif isinstance(s, (ast.Tuple, ast.List, ast.Set)):
                        out.update(e.value for e in s.elts if isinstance(e, ast.Constant) and isinstance(e.value, str))
    return out


def constants_compared(f):
    """{(attribute name, constant)} for comparisons `<expr>.<attr> == "const"` inside f"""
    out = set()
    for n in iter_own(f.node):
        if isinstance(n, ast.Compare) and len(n.ops) == 1 and isinstance(n.ops[0], ast.Eq):
            a, b = n.left, n.comparators[0]
            for x, y in ((a, b), (b, a)):
                if isinstance(x, ast.Attribute) and isinstance(y, ast.Constant) and isinstance(y.value, str):
                    out.add((x.attr, y.value))
    return out


def dict_literal_keys(f):
    """all constant string keys of dict literals inside f"""
    out = set()
    for n in iter_own(f.node):
        if isinstance(n, ast.Dict):
            out.update(k.value for k in n.keys if isinstance(k, ast.Constant) and isinstance(k.value, str))
    return out
