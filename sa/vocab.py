"""
E7 — vocabulary extractor: string constants by syntactic role (writer / reader agreement).
"""

import ast

from .core import iter_own


def keywords_written(f):
    """constants K in `keyword(arg="K", ...)` / `ast.keyword(arg="K")` built inside f"""
    out = set()
    for n in iter_own(f.node):
        if isinstance(n, ast.Call):
            fn = n.func
            name = fn.id if isinstance(fn, ast.Name) else fn.attr if isinstance(fn, ast.Attribute) else None
            if name == "keyword":
                for k in n.keywords:
                    if k.arg == "arg" and isinstance(k.value, ast.Constant) and isinstance(k.value.value, str):
                        out.add(k.value.value)
                if n.args and isinstance(n.args[0], ast.Constant) and isinstance(n.args[0].value, str):
                    out.add(n.args[0].value)
            elif name is not None:
                # a helper of the module that builds the keyword from its own parameter:
                # `def _kw(arg, value): return keyword(arg=arg, value=...)` called as `_kw("type", typ)`
                h = next((d for d in f.mod.tree.body if isinstance(d, ast.FunctionDef) and d.name == name), None)
                if h is None:
                    continue
                params = [a.arg for a in h.args.posonlyargs + h.args.args]
                for c in ast.walk(h):
                    if isinstance(c, ast.Call) and (isinstance(c.func, ast.Name) and c.func.id == "keyword" or isinstance(c.func, ast.Attribute) and c.func.attr == "keyword"):
                        src = next((k.value for k in c.keywords if k.arg == "arg"), c.args[0] if c.args else None)
                        if isinstance(src, ast.Name) and src.id in params:
                            i = params.index(src.id)
                            a = next((k.value for k in n.keywords if k.arg == src.id), n.args[i] if i < len(n.args) else None)
                            if isinstance(a, ast.Constant) and isinstance(a.value, str):
                                out.add(a.value)
    return out


def keywords_read(f):
    """constants K in comparisons `<x>.arg == "K"` inside f (including generator conditions)"""
    out = set()
    for n in iter_own(f.node):
        if isinstance(n, ast.Compare) and len(n.ops) == 1 and isinstance(n.ops[0], (ast.Eq, ast.In)):
            sides = [n.left] + n.comparators
            attrs = [s for s in sides if isinstance(s, ast.Attribute) and s.attr == "arg"]
            if attrs:
                for s in sides:
                    if isinstance(s, ast.Constant) and isinstance(s.value, str):
                        out.add(s.value)
                    elif isinstance(s, (ast.Tuple, ast.List, ast.Set)):
                        out.update(e.value for e in s.elts if isinstance(e, ast.Constant) and isinstance(e.value, str))
    return out


def constants_compared(f):
    """{(attribute name, constant)} for comparisons `<expr>.<attr> == "const"` inside f"""
    out = set()
    for n in iter_own(f.node):
        if isinstance(n, ast.Compare) and len(n.ops) == 1 and isinstance(n.ops[0], ast.Eq):
            a, b = n.left, n.comparators[0]
            for x, y in ((a, b), (b, a)):
                if isinstance(x, ast.Attribute) and isinstance(y, ast.Constant) and isinstance(y.value, str):
                    out.add((x.attr, y.value))
    return out


def dict_literal_keys(f):
    """all constant string keys of dict literals inside f"""
    out = set()
    for n in iter_own(f.node):
        if isinstance(n, ast.Dict):
            out.update(k.value for k in n.keys if isinstance(k, ast.Constant) and isinstance(k.value, str))
    return out
