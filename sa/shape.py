"""
E5 — abstract dict-shape interpreter (must-key analysis, inter-procedural).

Abstract value of a dict: `must` = keys certainly present, `top` = unknown keys may be present,
`unknown` = not a dict we can see. Transfer functions for: dict/OrderedDict literals, dict(k=...),
`x[k] = v`, `x.update({...})`, `x.update({k: .. for k in (consts)})`, `del x[k]`, `x.pop(k)`,
joins at `if` (must = intersection), `assert isinstance(x, str)` pruning a later
`isinstance(x, dict)` arm, aliases (`a = b` share one abstract object), calls:
  * return-shape summaries to a fixpoint (functions returning dict shapes),
  * "returns its own parameter" summaries,
  * ensures summaries: keys certainly present on a parameter after the call returns (unconditional
    subscript reads — a missing key would have raised — and unconditional stores).
"""

import ast

from .core import iter_own


class Shape(object):
    """abstract dict"""

    __slots__ = ("must", "top")

    def __init__(self, must=(), top=False):
        self.must = set(must)
        self.top = top

    def copy(self):
        """copy"""
        return Shape(self.must, self.top)

    def __repr__(self):
        return ("TOP" if self.top else "") + "{" + ",".join(sorted(map(str, self.must))) + "}"


def join(a, b):
    """must = intersection"""
    if a is None or b is None:
        return None
    return Shape(a.must & b.must, a.top or b.top)


def const_keys(d):
    """constant keys of a Dict literal; (keys, has_dynamic)"""
    ks, dyn = set(), False
    for k in d.keys:
        if isinstance(k, ast.Constant):
            ks.add(k.value)
        else:
            dyn = True
    return ks, dyn


class ShapeInterp(object):
    """must-key interpreter over a set of functions"""

    DICT_CTORS = frozenset(("builtins.dict", "collections.OrderedDict"))
    IDENTITY = frozenset(("typing.cast", "copy.deepcopy", "copy.copy"))

    def __init__(self, index, funcs):
        self.index = index
        self.funcs = {f.qual: f for f in funcs}
        self.ret = {}  # qual -> Shape | None
        self.ret_param = {}  # qual -> param name (function returns its own parameter)
        self.ensures = {}  # qual -> {param: set(keys)}
        self.returns_seen = {}  # qual -> [(lineno, Shape|None, return node)]
        # functions with a `return x, flag` variant next to `return x` (first element is the IR)
        self.tuple_first = set()
        for f in funcs:
            rets = [n for n in iter_own(f.node) if isinstance(n, ast.Return) and n.value is not None]
            names = {ast.unparse(r.value) for r in rets if not isinstance(r.value, ast.Tuple)}
            for r in rets:
                if isinstance(r.value, ast.Tuple) and r.value.elts and ast.unparse(r.value.elts[0]) in names:
                    self.tuple_first.add(f.qual)

    # ------------------------------------------------------------ summaries
    def compute(self, rounds=6):
        """fixpoint of return summaries"""
        for f in self.funcs.values():
            self.ensures[f.qual] = self._ensures(f)
            rp = self._returns_param(f)
            if rp is not None:
                self.ret_param[f.qual] = rp
        for _ in range(rounds):
            changed = False
            for q, f in self.funcs.items():
                rets = self.analyse(f)
                self.returns_seen[q] = rets
                sh = None
                first = True
                unknown = False
                for _ln, r, _node in rets:
                    if r is None:
                        unknown = True
                        continue
                    sh = r.copy() if first else join(sh, r)
                    first = False
                new = None if (unknown or sh is None) else sh
                old = self.ret.get(q)
                if repr(old) != repr(new):
                    self.ret[q] = new
                    changed = True
            if not changed:
                break

    def _returns_param(self, f):
        rets = [n for n in iter_own(f.node) if isinstance(n, ast.Return)]
        if not rets:
            return None
        names = set()
        for r in rets:
            if isinstance(r.value, ast.Name) and r.value.id in f.params:
                names.add(r.value.id)
            else:
                return None
        if len(names) != 1:
            return None
        p = names.pop()
        # never rebound to something else
        for n in iter_own(f.node):
            if isinstance(n, (ast.Assign, ast.AnnAssign)):
                for t in n.targets if isinstance(n, ast.Assign) else [n.target]:
                    if isinstance(t, ast.Name) and t.id == p:
                        v = n.value
                        # p = f(p, ...) with f returning its parameter is fine; anything else is not
                        if not (isinstance(v, ast.Call) and any(isinstance(a, ast.Name) and a.id == p for a in v.args)):
                            return None
        return p

    def _ensures(self, f):
        """{param: keys certainly present after the call}"""
        out = {}

        def reads_stores(node):
            """constant-key subscript reads/stores on parameters inside an expression/statement"""
            got = {}
            for n in ast.walk(node):
                if (
                    isinstance(n, ast.Subscript)
                    and isinstance(n.value, ast.Name)
                    and n.value.id in f.params
                    and isinstance(n.slice, ast.Constant)
                    and isinstance(n.slice.value, str)
                ):
                    got.setdefault(n.value.id, set()).add(n.slice.value)
            return got

        def merge(a, b):
            for k, v in b.items():
                a.setdefault(k, set()).update(v)

        def block(stmts):
            acc = {}
            for s in stmts:
                if isinstance(s, ast.If):
                    merge(acc, test_reads(s.test))
                    a, b = block(s.body), block(s.orelse)
                    both = {k: a.get(k, set()) & b.get(k, set()) for k in set(a) | set(b)}
                    merge(acc, both)
                elif isinstance(s, (ast.For, ast.While, ast.Try, ast.With, ast.AsyncWith, ast.AsyncFor)):
                    if isinstance(s, (ast.With, ast.AsyncWith)):
                        merge(acc, block(s.body))
                elif isinstance(s, (ast.FunctionDef, ast.AsyncFunctionDef, ast.ClassDef)):
                    continue
                elif isinstance(s, (ast.Return, ast.Raise)):
                    merge(acc, reads_stores(s))
                    break
                else:
                    merge(acc, reads_stores(s))
            return acc

        def test_reads(test):
            """only the part of a test that is certainly evaluated (left-most operand of and/or)"""
            if isinstance(test, ast.BoolOp):
                return test_reads(test.values[0])
            if isinstance(test, ast.IfExp):
                return test_reads(test.test)
            got = {}
            for n in ast.walk(test):
                if isinstance(n, (ast.IfExp, ast.BoolOp, ast.Lambda)):
                    return {}
            return reads_stores(test)

        out = block(f.node.body)
        # a deleted key is not ensured
        for n in iter_own(f.node):
            if isinstance(n, ast.Delete):
                for t in n.targets:
                    if (
                        isinstance(t, ast.Subscript)
                        and isinstance(t.value, ast.Name)
                        and t.value.id in out
                        and isinstance(t.slice, ast.Constant)
                    ):
                        out[t.value.id].discard(t.slice.value)
        return out

    # ------------------------------------------------------------ expressions
    def eval(self, f, e, env):
        """Shape | None"""
        idx = self.index
        if isinstance(e, ast.Dict):
            ks, dyn = const_keys(e)
            sh = Shape(ks, dyn)
            for k, v in zip(e.keys, e.values):
                if k is None:
                    inner = self.eval(f, v, env)
                    if inner is None:
                        sh.top = True
                    else:
                        sh.must |= inner.must
                        sh.top = sh.top or inner.top
            return sh
        if isinstance(e, ast.Name):
            v = env.get(e.id)
            return v if isinstance(v, Shape) else None
        if isinstance(e, ast.IfExp):
            t = e.test
            if (
                isinstance(t, ast.Call)
                and isinstance(t.func, ast.Name)
                and t.func.id == "isinstance"
                and len(t.args) == 2
                and isinstance(t.args[0], ast.Name)
                and env.get("__asserted_" + t.args[0].id) == "str"
                and "dict" in ast.unparse(t.args[1])
            ):
                return self.eval(f, e.orelse, env)
            a, b = self.eval(f, e.body, env), self.eval(f, e.orelse, env)
            if a is None or b is None:
                return None
            return join(a.copy(), b)
        if isinstance(e, ast.Call):
            callee = idx.callee(f.mod, e, f)
            if callee in self.DICT_CTORS:
                if not e.args:
                    sh = Shape({k.arg for k in e.keywords if k.arg}, False)
                    for k in e.keywords:
                        if k.arg is None:
                            inner = self.eval(f, k.value, env)
                            if inner is None:
                                sh.top = True
                            else:
                                sh.must |= inner.must
                                sh.top = sh.top or inner.top
                    return sh
                if len(e.args) == 1:
                    inner = self.eval(f, e.args[0], env)
                    if inner is not None:
                        sh = inner.copy()
                        sh.must |= {k.arg for k in e.keywords if k.arg}
                        return sh
                return Shape({k.arg for k in e.keywords if k.arg}, True)
            if callee in self.IDENTITY and e.args:
                inner = self.eval(f, e.args[-1] if callee == "typing.cast" else e.args[0], env)
                return inner.copy() if (inner is not None and callee != "typing.cast") else inner
            if callee in self.funcs:
                tf = self.funcs[callee]
                self._apply_ensures(f, tf, e, env)
                rp = self.ret_param.get(callee)
                if rp is not None:
                    a = self._arg_for(tf, e, rp)
                    if a is not None:
                        return self.eval(f, a, env)
                r = self.ret.get(callee)
                return r.copy() if r is not None else None
            # partial(parser, ...)(x) / alias calls are opaque
            return None
        return None

    def _arg_for(self, tf, call, pname):
        for k in call.keywords:
            if k.arg == pname:
                return k.value
        if pname in tf.params:
            i = tf.params.index(pname)
            if i < len(call.args) and not any(isinstance(a, ast.Starred) for a in call.args[: i + 1]):
                return call.args[i]
        return None

    def _apply_ensures(self, f, tf, call, env):
        for pname, keys in self.ensures.get(tf.qual, {}).items():
            a = self._arg_for(tf, call, pname)
            if isinstance(a, ast.Name) and isinstance(env.get(a.id), Shape):
                env[a.id].must |= keys

    # ------------------------------------------------------------- statements
    def analyse(self, f):
        """[(lineno, Shape|None, return node)] for every return of f"""
        rets = []
        init = {}
        self._block(f, f.node.body, init, rets)
        return rets

    @staticmethod
    def _fork(env):
        # shapes shared between aliases must stay shared inside the fork
        memo = {}
        out = {}
        for k, v in env.items():
            if isinstance(v, Shape):
                if id(v) not in memo:
                    memo[id(v)] = v.copy()
                out[k] = memo[id(v)]
            else:
                out[k] = v
        return out

    def _block(self, f, stmts, env, rets):
        for s in stmts:
            env = self._stmt(f, s, env, rets)
            if env is None:
                return None
        return env

    def _key_target(self, t, env):
        if (
            isinstance(t, ast.Subscript)
            and isinstance(t.value, ast.Name)
            and isinstance(env.get(t.value.id), Shape)
            and isinstance(t.slice, ast.Constant)
        ):
            return env[t.value.id], t.slice.value
        return None, None

    def _stmt(self, f, s, env, rets):
        if isinstance(s, (ast.Assign, ast.AnnAssign)):
            if s.value is None:
                return env
            targets = s.targets if isinstance(s, ast.Assign) else [s.target]
            # calls inside the value may establish ensures
            for n in ast.walk(s.value):
                if isinstance(n, ast.Call):
                    callee = self.index.callee(f.mod, n, f)
                    if callee in self.funcs:
                        self._apply_ensures(f, self.funcs[callee], n, env)
            for tgt in targets:
                if isinstance(tgt, ast.Name):
                    v = self.eval(f, s.value, env)
                    if v is not None:
                        env[tgt.id] = v
                    else:
                        env.pop(tgt.id, None)
                else:
                    sh, key = self._key_target(tgt, env)
                    if sh is not None:
                        sh.must.add(key)
                    elif (
                        isinstance(tgt, ast.Subscript)
                        and isinstance(tgt.value, ast.Name)
                        and isinstance(env.get(tgt.value.id), Shape)
                    ):
                        env[tgt.value.id].top = True
            return env
        if isinstance(s, ast.Delete):
            for t in s.targets:
                sh, key = self._key_target(t, env)
                if sh is not None:
                    sh.must.discard(key)
            return env
        if isinstance(s, ast.Assert):
            t = s.test
            if (
                isinstance(t, ast.Call)
                and isinstance(t.func, ast.Name)
                and t.func.id == "isinstance"
                and len(t.args) == 2
                and isinstance(t.args[0], ast.Name)
            ):
                txt = ast.unparse(t.args[1])
                if txt == "str":
                    env["__asserted_" + t.args[0].id] = "str"
            return env
        if isinstance(s, ast.Expr) and isinstance(s.value, ast.Call):
            c = s.value
            if (
                isinstance(c.func, ast.Attribute)
                and isinstance(c.func.value, ast.Name)
                and isinstance(env.get(c.func.value.id), Shape)
            ):
                sh = env[c.func.value.id]
                m = c.func.attr
                if m == "update" and c.args:
                    a = c.args[0]
                    inner = self.eval(f, a, env)
                    if inner is not None:
                        sh.must |= inner.must
                        sh.top = sh.top or inner.top
                    elif isinstance(a, ast.DictComp):
                        g = a.generators[0]
                        if (
                            isinstance(a.key, ast.Name)
                            and isinstance(g.target, ast.Name)
                            and a.key.id == g.target.id
                            and isinstance(g.iter, (ast.Tuple, ast.List))
                            and all(isinstance(x, ast.Constant) for x in g.iter.elts)
                            and not g.ifs
                        ):
                            sh.must |= {x.value for x in g.iter.elts}
                        else:
                            sh.top = True
                    else:
                        sh.top = True
                    for k in c.keywords:
                        if k.arg:
                            sh.must.add(k.arg)
                elif m == "pop" and c.args and isinstance(c.args[0], ast.Constant):
                    sh.must.discard(c.args[0].value)
                elif m == "setdefault" and c.args and isinstance(c.args[0], ast.Constant):
                    sh.must.add(c.args[0].value)
                elif m == "clear":
                    sh.must.clear()
                return env
            callee = self.index.callee(f.mod, c, f)
            if callee in self.funcs:
                self._apply_ensures(f, self.funcs[callee], c, env)
            return env
        if isinstance(s, ast.If):
            e1 = self._block(f, s.body, self._fork(env), rets)
            e2 = self._block(f, s.orelse, self._fork(env), rets)
            if e1 is None:
                return e2
            if e2 is None:
                return e1
            out = {}
            for k in set(e1) & set(e2):
                a, b = e1[k], e2[k]
                if isinstance(a, Shape) and isinstance(b, Shape):
                    out[k] = join(a.copy(), b)
                elif a == b:
                    out[k] = a
            return out
        if isinstance(s, (ast.With, ast.AsyncWith)):
            return self._block(f, s.body, env, rets)
        if isinstance(s, (ast.For, ast.While, ast.AsyncFor, ast.Try)):
            # additions inside are not guaranteed; deletions and pops must be honoured; returns recorded
            bodies = [getattr(s, "body", []), getattr(s, "orelse", []), getattr(s, "finalbody", [])]
            for h in getattr(s, "handlers", []):
                bodies.append(h.body)
            for body in bodies:
                sub = self._fork(env)
                self._block(f, body, sub, rets)
                for n in [x for b in body for x in ast.walk(b)]:
                    if isinstance(n, ast.Delete):
                        for t in n.targets:
                            sh, key = self._key_target(t, env)
                            if sh is not None:
                                sh.must.discard(key)
                    elif (
                        isinstance(n, ast.Call)
                        and isinstance(n.func, ast.Attribute)
                        and n.func.attr == "pop"
                        and isinstance(n.func.value, ast.Name)
                        and isinstance(env.get(n.func.value.id), Shape)
                        and n.args
                        and isinstance(n.args[0], ast.Constant)
                    ):
                        env[n.func.value.id].must.discard(n.args[0].value)
            return env
        if isinstance(s, ast.Return):
            val = s.value
            if isinstance(val, ast.Tuple) and val.elts and f.qual in self.tuple_first:
                # `return ir, flag` variant of a parser: the IR is the first element
                val = val.elts[0]
            v = self.eval(f, val, env) if val is not None else None
            rets.append((s.lineno, v.copy() if v is not None else None, s))
            return None
        if isinstance(s, ast.Raise):
            return None
        return env
